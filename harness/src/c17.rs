//! C17 — on-start-up trigger rolls at most once, on the first record, if big enough.
//! Real code: `RollingFileAppender` + `CompoundPolicy(OnStartUpTrigger, roller)` over pre-populated
//! files.
//!  * `seq`   sequential histories (executor of C05): restarts, failing encoders (`e<n>!`), rotations
//!            stopped at step k (`f<k>!`), rollers reporting Err after their work (`g!`), pre-existing
//!            windows with gaps and bystanders, file sizes far above min_size;
//!  * `conc`  the first records arrive simultaneously from 8 threads (executor of C05);
//!  * `conc2` 2–16 threads per round, several rounds with a restart in between, failing encoders, a
//!            roller that reports Err in chosen rounds; the appender is built here with harness wrappers
//!            around the real policy / roller / encoder that call the race amplifier at every point
//!            of the critical section where the crate itself has no hook (between get_writer and
//!            policy.process, between the trigger and the roller, between the roller and the reopen,
//!            before and after the encoder);
//!  * `once`  ONE `OnStartUpTrigger` object shared by several appenders on different files: the calls
//!            of `trigger()` race on the `Once` itself, no appender mutex in between.
use crate::c04::{gen_bytes, parse_fail_rec, set_amplifier, RecSpec, Scratch, ScriptEncoder};
use crate::c05::{self, pattern, Case, Env, RollSpec, TrigSpec};
use crate::proto::*;
use crate::rng::Rng;
use log4rs::append::rolling_file::policy::compound::roll::delete::DeleteRoller;
use log4rs::append::rolling_file::policy::compound::roll::fixed_window::FixedWindowRoller;
use log4rs::append::rolling_file::policy::compound::roll::Roll;
use log4rs::append::rolling_file::policy::compound::trigger::onstartup::OnStartUpTrigger;
use log4rs::append::rolling_file::policy::compound::trigger::Trigger;
use log4rs::append::rolling_file::policy::compound::CompoundPolicy;
use log4rs::append::rolling_file::policy::Policy;
use log4rs::append::rolling_file::{LogFile, RollingFileAppender};
use log4rs::encode::{self, Encode};
use std::path::Path;
use std::sync::atomic::{AtomicBool, AtomicU64, Ordering};
use std::sync::{Arc, Barrier};

const MINS: &[u64] = &[0, 1, 5, 4096];

fn point(tag: &str) {
    log4rs::verif_hooks::critical_section_point(tag);
}

/// counts `Roll::roll` invocations, can report `Err` once after the real roller did its work, and
/// calls the race amplifier on both sides of the real roller
#[derive(Debug)]
struct AmpRoller {
    inner: Box<dyn Roll>,
    calls: Arc<AtomicU64>,
    late_fail: Arc<AtomicBool>,
}

impl Roll for AmpRoller {
    fn roll(&self, file: &Path) -> anyhow::Result<()> {
        self.calls.fetch_add(1, Ordering::SeqCst);
        point("harness:between-trigger-and-roller");
        let r = self.inner.roll(file);
        point("harness:between-roller-and-reopen");
        if r.is_ok() && self.late_fail.swap(false, Ordering::SeqCst) {
            anyhow::bail!("roller reports a failure after doing its work");
        }
        r
    }
}

#[derive(Debug)]
struct AmpPolicy {
    inner: CompoundPolicy,
}

impl Policy for AmpPolicy {
    fn process(&self, log: &mut LogFile) -> anyhow::Result<()> {
        point("harness:between-get-writer-and-policy");
        let r = self.inner.process(log);
        point("harness:after-policy");
        r
    }
    fn is_pre_process(&self) -> bool {
        self.inner.is_pre_process()
    }
}

#[derive(Debug)]
struct AmpEncoder(ScriptEncoder);

impl Encode for AmpEncoder {
    fn encode(&self, w: &mut dyn encode::Write, record: &log::Record) -> anyhow::Result<()> {
        point("harness:before-encode");
        let r = self.0.encode(w, record);
        point("harness:after-encode");
        r
    }
}

fn real_roller(env: &Env) -> Box<dyn Roll> {
    match &env.case.roll {
        RollSpec::Delete => Box::new(DeleteRoller::new()),
        RollSpec::Fw { base, count, pat } => {
            let p = format!("{}/{}", env.scratch.path().display(), pattern(*pat));
            Box::new(FixedWindowRoller::builder().base(*base).build(&p, *count).unwrap())
        }
    }
}

/// a new appender on the case's path: real trigger, real roller, real policy, amplifier wrappers
fn build_amp(env: &Env) -> Option<RollingFileAppender> {
    let min = match &env.case.trig {
        TrigSpec::Startup(m) => *m,
        _ => return None,
    };
    let roller: Box<dyn Roll> =
        Box::new(AmpRoller { inner: real_roller(env), calls: env.roll_calls.clone(), late_fail: env.late_fail.clone() });
    let policy = AmpPolicy { inner: CompoundPolicy::new(Box::new(OnStartUpTrigger::new(min)), roller) };
    Some(
        RollingFileAppender::builder()
            .append(env.case.append)
            .encoder(Box::new(AmpEncoder(ScriptEncoder::new())))
            .build(&env.path, Box::new(policy))
            .unwrap(),
    )
}

fn exec_conc2(f: &[&str]) -> String {
    if f.len() != 9 {
        return "bad-case".to_owned();
    }
    let case = match Case::parse(&f[..6]) {
        Some(c) => c,
        None => return "bad-case".to_owned(),
    };
    let amp: u64 = match f[6].parse() {
        Ok(a) => a,
        Err(_) => return "bad-case".to_owned(),
    };
    let mut lates: Vec<usize> = vec![];
    for l in dec_list(',', f[7]) {
        match l.parse() {
            Ok(k) => lates.push(k),
            Err(_) => return "bad-case".to_owned(),
        }
    }
    let mut rounds: Vec<Vec<Vec<(RecSpec, Option<u64>)>>> = vec![];
    for rd in dec_list(';', f[8]) {
        let mut threads = vec![];
        for t in dec_list('|', &rd) {
            let mut v = vec![];
            for r in dec_list(',', &t) {
                match parse_fail_rec(&r) {
                    Some(x) => v.push(x),
                    None => return "bad-case".to_owned(),
                }
            }
            threads.push(v);
        }
        rounds.push(threads);
    }
    if !matches!(case.trig, TrigSpec::Startup(_)) {
        return "bad-case".to_owned();
    }
    let env = Env::new(case, "c17c");
    set_amplifier(amp);
    let r = guarded(std::panic::AssertUnwindSafe(|| {
        let mut out = vec![];
        let mut app = Some(Arc::new(build_amp(&env).unwrap()));
        for (k, threads) in rounds.iter().enumerate() {
            if k > 0 {
                drop(app.take());
                app = Some(Arc::new(build_amp(&env).unwrap()));
            }
            env.roll_calls.store(0, Ordering::SeqCst);
            env.late_fail.store(lates.contains(&k), Ordering::SeqCst);
            let barrier = Arc::new(Barrier::new(threads.len().max(1)));
            let handles: Vec<_> = threads
                .iter()
                .cloned()
                .map(|prog| {
                    let app = app.as_ref().unwrap().clone();
                    let barrier = barrier.clone();
                    std::thread::spawn(move || {
                        barrier.wait();
                        let mut acked = vec![];
                        for (r, fail) in prog {
                            if r.append_failing(&*app, fail).is_ok() {
                                acked.push(r.id().to_string());
                            }
                        }
                        acked
                    })
                })
                .collect();
            let acks: Vec<String> = handles.into_iter().map(|h| enc_list(",", &h.join().unwrap())).collect();
            env.late_fail.store(false, Ordering::SeqCst);
            out.push(format!("{}!{}!{}", enc_list("|", &acks), env.roll_calls.load(Ordering::SeqCst), env.snapshot()));
        }
        drop(app);
        out.join("&")
    }));
    set_amplifier(0);
    drop(env);
    r.unwrap_or_else(|_| "PANIC".to_owned())
}

/// one trigger object behind several appenders
#[derive(Debug)]
struct SharedTrigger(Arc<OnStartUpTrigger>);

impl Trigger for SharedTrigger {
    fn trigger(&self, file: &LogFile) -> anyhow::Result<bool> {
        point("harness:before-shared-trigger");
        self.0.trigger(file)
    }
    fn is_pre_process(&self) -> bool {
        self.0.is_pre_process()
    }
}

#[derive(Debug)]
struct CountRoller {
    inner: Box<dyn Roll>,
    calls: Arc<AtomicU64>,
}

impl Roll for CountRoller {
    fn roll(&self, file: &Path) -> anyhow::Result<()> {
        self.calls.fetch_add(1, Ordering::SeqCst);
        self.inner.roll(file)
    }
}

fn exec_once(f: &[&str]) -> String {
    if f.len() != 3 {
        return "bad-case".to_owned();
    }
    let min: u64 = match f[0].parse() {
        Ok(m) => m,
        Err(_) => return "bad-case".to_owned(),
    };
    let mut sizes: Vec<u64> = vec![];
    for s in dec_list(',', f[1]) {
        match s.parse() {
            Ok(n) => sizes.push(n),
            Err(_) => return "bad-case".to_owned(),
        }
    }
    let nrec: u64 = match f[2].parse() {
        Ok(n) => n,
        Err(_) => return "bad-case".to_owned(),
    };
    let scratch = Scratch::new("c17o");
    set_amplifier((min + nrec + sizes.len() as u64) % 3);
    let r = guarded(std::panic::AssertUnwindSafe(|| {
        let trigger = Arc::new(OnStartUpTrigger::new(min));
        let mut apps = vec![];
        let mut calls = vec![];
        for (i, sz) in sizes.iter().enumerate() {
            let dir = scratch.path().join(format!("d{}", i));
            std::fs::create_dir_all(&dir).unwrap();
            let path = dir.join("app.log");
            std::fs::write(&path, gen_bytes(998000 + i as u64, *sz)).unwrap();
            let c = Arc::new(AtomicU64::new(0));
            let roller = FixedWindowRoller::builder().base(0).build(&format!("{}/app.log.{{}}", dir.display()), 1).unwrap();
            let policy = CompoundPolicy::new(
                Box::new(SharedTrigger(trigger.clone())),
                Box::new(CountRoller { inner: Box::new(roller), calls: c.clone() }),
            );
            let app = RollingFileAppender::builder()
                .append(true)
                .encoder(Box::new(ScriptEncoder::new()))
                .build(&path, Box::new(policy))
                .unwrap();
            apps.push((Arc::new(app), dir));
            calls.push(c);
        }
        let barrier = Arc::new(Barrier::new(apps.len().max(1)));
        let handles: Vec<_> = apps
            .iter()
            .enumerate()
            .map(|(i, (app, _))| {
                let app = app.clone();
                let barrier = barrier.clone();
                std::thread::spawn(move || {
                    barrier.wait();
                    for s in 0..nrec {
                        let _ = RecSpec::Bin { id: (i as u64 + 1) * 65536 + s, sizes: vec![12] }.append_to(&*app);
                    }
                })
            })
            .collect();
        for h in handles {
            h.join().unwrap();
        }
        let mut out = vec![];
        for (i, (_, dir)) in apps.iter().enumerate() {
            let active = std::fs::read(dir.join("app.log")).unwrap_or_default();
            let arch = std::fs::read(dir.join("app.log.0")).ok();
            out.push(format!(
                "{}:{}:{}",
                calls[i].load(Ordering::SeqCst),
                enc_bytes(&active),
                arch.map(|a| enc_bytes(&a)).unwrap_or_else(|| "-".to_owned())
            ));
        }
        drop(apps);
        enc_list(",", &out)
    }));
    set_amplifier(0);
    drop(scratch);
    r.unwrap_or_else(|_| "PANIC".to_owned())
}

pub fn exec(fields: &[&str]) -> String {
    match fields.first() {
        Some(&"conc2") => exec_conc2(&fields[1..]),
        Some(&"once") => exec_once(&fields[1..]),
        _ => c05::exec(fields),
    }
}

// ---------------------------------------------------------------------------------------------
// generator
// ---------------------------------------------------------------------------------------------
fn bin(id: u64, sizes: Vec<u64>) -> String {
    RecSpec::Bin { id, sizes }.render()
}

/// pre-existing size of the log file: around min_size, and well above it
fn gen_pre_size(rng: &mut Rng, min: u64, few_ops: bool) -> Option<u64> {
    let m = if min > 100_000 { 40 } else { min };
    match rng.below(14) {
        0 => None,
        1 => Some(0),
        2 => Some(m.saturating_sub(1)),
        3 => Some(m),
        4 => Some(m + 1),
        5 => Some(m + 2),
        6 => Some(*rng.pick(&[1023u64, 1024, 1025])),
        7 => Some(10 * m + 3),
        8 => Some(m + rng.range(2, 300)),
        9 => {
            let big = few_ops && rng.chance(1, 3);
            Some(if big { 65536 } else { 2 * m + 7 })
        }
        10 => Some(rng.range(0, m + 3)),
        11 => Some(m + 2 + rng.below(40)),
        12 => Some(3 * m + 1),
        _ => Some(m + 5000),
    }
}

/// roller and pre-existing window (dense, gapped, with bystanders below and above the window)
fn gen_window(rng: &mut Rng, allow_compress: bool) -> (RollSpec, Vec<(u32, u64)>) {
    if rng.chance(1, 7) {
        return (RollSpec::Delete, vec![]);
    }
    let base = *rng.pick(&[0u32, 1, 3]);
    let count = *rng.pick(&[0u32, 1, 2, 3, 3, 5]);
    let pat = if rng.chance(1, 2) || !allow_compress { *rng.pick(&[0u32, 1, 4]) } else { rng.below(5) as u32 };
    let mut pre_arch = vec![];
    match rng.below(4) {
        0 => {}
        1 => {
            // dense from base
            let k = rng.range(0, count as u64) as u32;
            for j in 0..k {
                pre_arch.push((base + j, rng.range(0, 30)));
            }
        }
        2 => {
            // full window
            for j in 0..count {
                pre_arch.push((base + j, rng.range(1, 30)));
            }
        }
        _ => {
            // gaps
            for j in 0..count {
                if rng.chance(1, 2) {
                    pre_arch.push((base + j, rng.range(0, 30)));
                }
            }
        }
    }
    if rng.chance(1, 3) {
        pre_arch.push((base + count + rng.below(2) as u32, rng.range(1, 20)));
    }
    if base > 0 && rng.chance(1, 4) {
        pre_arch.push((base - 1, rng.range(1, 20)));
    }
    (RollSpec::Fw { base, count, pat }, pre_arch)
}

fn gen_small_record(rng: &mut Rng, id: u64, min: u64) -> RecSpec {
    let m = if min > 5000 { 7 } else { min };
    match rng.below(12) {
        0 => RecSpec::Bin { id, sizes: vec![0] },
        1 => RecSpec::Bin { id, sizes: vec![m.max(1)] },
        2 => RecSpec::Bin { id, sizes: vec![*rng.pick(&[1023u64, 1024, 1025])] },
        3 => RecSpec::Bin { id, sizes: vec![rng.range(0, 9), rng.range(0, 9)] },
        4 => RecSpec::Text { id, text: (*rng.pick(&["é", "héllo wörld", "日本語", "😀😀", "€"])).to_owned() },
        5 => RecSpec::Bin { id, sizes: vec![m + 1] },
        _ => RecSpec::Bin { id, sizes: vec![rng.range(1, 14)] },
    }
}

/// a sequential history for the on-start-up trigger
fn gen_seq17(rng: &mut Rng, thorough: bool) -> String {
    let n_ops = if rng.chance(1, 14) { 0 } else { rng.range(1, if thorough { 30 } else { 14 }) as usize };
    let min = match rng.below(10) {
        0 => *rng.pick(&[(1u64 << 63) - 1, 1 << 63, u64::MAX]),
        _ => *rng.pick(&[0u64, 1, 5, 5, 100, 1024, 4096]),
    };
    let (roll, pre_arch) = gen_window(rng, true);
    let pre_active = gen_pre_size(rng, min, n_ops <= 4);
    let case = Case {
        append: rng.chance(3, 5),
        pre_active,
        pre_arch,
        trig: TrigSpec::Startup(min),
        roll: roll.clone(),
        clock0: 1_700_000_000 + rng.below(200) as i64,
    };
    let (count, compress) = match &roll {
        RollSpec::Fw { count, pat, .. } => (*count as u64, *pat == 2 || *pat == 3),
        RollSpec::Delete => (0, false),
    };
    let mut ops = vec![];
    let mut first = true;
    for i in 0..n_ops {
        let k = rng.below(16);
        if k == 0 {
            ops.push("r".to_owned());
            first = true;
            if rng.chance(1, 3) {
                ops.push("r".to_owned());
            }
        } else if k == 1 {
            ops.push(format!("c{}", rng.below(100)));
        } else {
            let rec = gen_small_record(rng, i as u64 + 1, min);
            let r = rec.render();
            let is_bin = r.starts_with('b');
            let nchunks = r.split_once(':').map(|(_, b)| if b.is_empty() { 0 } else { b.split('+').count() }).unwrap_or(0) as u64;
            let special = if first { rng.below(10) } else { rng.below(40) };
            if special == 0 || special == 1 {
                // a step of the rotation fails; with a compressing pattern index `count` is the extra
                // hook point inside the compressing copy (C08's territory), so it is skipped
                let mut kk = rng.range(0, count + 1);
                if compress && kk == count {
                    kk = count + 1;
                }
                ops.push(format!("f{}!{}", kk, r));
            } else if special == 2 {
                ops.push(format!("g!{}", r));
            } else if (special == 3 || special == 4) && is_bin {
                ops.push(format!("e{}!{}", rng.range(0, nchunks), r));
            } else {
                ops.push(r);
            }
            first = false;
        }
    }
    format!("seq\t{}\t{}", case.render(), enc_list(",", &ops))
}

fn gen_conc2(rng: &mut Rng, thorough: bool) -> String {
    let min = *rng.pick(&[0u64, 1, 5, 100, 4096, u64::MAX]);
    let (roll, pre_arch) = gen_window(rng, true);
    let case = Case {
        append: rng.chance(3, 4),
        pre_active: gen_pre_size(rng, min, false).map(|n| n.min(6000)),
        pre_arch,
        trig: TrigSpec::Startup(min),
        roll,
        clock0: 1_700_000_000,
    };
    let nthreads = *rng.pick(&[2u64, 3, 4, 8, 8, 12, 16]);
    let nrounds = rng.range(1, if thorough { 4 } else { 3 });
    let mut lates = vec![];
    let mut rounds = vec![];
    for k in 0..nrounds {
        if rng.chance(1, 3) {
            lates.push(k.to_string());
        }
        let nth = if rng.chance(1, 5) { rng.range(1, nthreads) } else { nthreads };
        let mut threads = vec![];
        for t in 0..nth {
            let lo = if rng.chance(1, 6) { 0 } else { 1 };
            let nrecs = rng.range(lo, 3);
            let mut recs = vec![];
            for s in 0..nrecs {
                let id = (k * 32 + t + 1) * 65536 + s;
                let sizes = match rng.below(8) {
                    0 => vec![0],
                    1 => vec![8],
                    2 => vec![rng.range(1000, 1040)],
                    3 => vec![rng.range(8, 100), rng.range(8, 300)],
                    _ => vec![rng.range(8, 60)],
                };
                let r = bin(id, sizes.clone());
                if rng.chance(1, 7) {
                    recs.push(format!("e{}!{}", rng.range(0, sizes.len() as u64), r));
                } else {
                    recs.push(r);
                }
            }
            threads.push(enc_list(",", &recs));
        }
        rounds.push(threads.join("|"));
    }
    format!("conc2\t{}\t{}\t{}\t{}", case.render(), rng.below(3), enc_list(",", &lates), rounds.join(";"))
}

fn gen_once(rng: &mut Rng) -> String {
    let min = *rng.pick(&[0u64, 1, 5, 100]);
    let n = rng.range(2, 8);
    let mode = rng.below(3);
    let sizes: Vec<String> = (0..n)
        .map(|_| {
            let big = match mode {
                0 => true,
                1 => false,
                _ => rng.chance(1, 2),
            };
            if big || min == 0 { min + rng.below(4) } else { rng.range(0, min - 1) }.to_string()
        })
        .collect();
    format!("once\t{}\t{}\t{}", min, sizes.join(","), if rng.chance(1, 12) { 0 } else { rng.range(1, 3) })
}

pub fn gen(rng: &mut Rng, n: usize, thorough: bool, emit: &mut dyn FnMut(String)) {
    // deterministic block: min × {absent, 0, min-1, min, min+1, min+2, 10·min+3} × mode × roller
    for &min in MINS {
        let mut pres = vec![None, Some(0), Some(min), Some(min + 1), Some(min + 2), Some(10 * min + 3)];
        if min > 0 {
            pres.push(Some(min - 1));
        }
        for pre in pres {
            for append in [true, false] {
                for roll in [RollSpec::Delete, RollSpec::Fw { base: 1, count: 2, pat: 0 }, RollSpec::Fw { base: 0, count: 3, pat: 2 }] {
                    let pre_arch = match &roll {
                        RollSpec::Fw { base, .. } => vec![(*base, 3u64), (*base + 1, 4u64)],
                        RollSpec::Delete => vec![],
                    };
                    let case = Case {
                        append,
                        pre_active: pre,
                        pre_arch,
                        trig: TrigSpec::Startup(min),
                        roll: roll.clone(),
                        clock0: 1_700_000_000,
                    };
                    let ops = vec![
                        bin(1, vec![6]),
                        bin(2, vec![min.max(1)]),
                        bin(3, vec![0]),
                        "r".to_owned(),
                        bin(4, vec![2, 3]),
                        bin(5, vec![1]),
                        "r".to_owned(),
                        "r".to_owned(),
                        RecSpec::Text { id: 6, text: "héllo".to_owned() }.render(),
                    ];
                    emit(format!("seq\t{}\t{}", case.render(), enc_list(",", &ops)));
                    // the first records arrive simultaneously from 8 threads
                    let threads: Vec<String> = (0..8u64)
                        .map(|t| (0..2u64).map(|s| bin((t + 1) * 65536 + s, vec![8 + t, s * 1020])).collect::<Vec<_>>().join(","))
                        .collect();
                    emit(format!("conc\t{}\t{}\t{}", case.render(), (min + pre.unwrap_or(0)) % 3, threads.join("|")));
                }
            }
        }
    }
    // min_size in the upper half of the u64 range: a small file is never big enough
    for min in [(1u64 << 63) - 1, 1 << 63, (1 << 63) + 1, u64::MAX] {
        for pre in [None, Some(0u64), Some(1), Some(32)] {
            for append in [true, false] {
                let case = Case {
                    append,
                    pre_active: pre,
                    pre_arch: vec![(1, 3), (2, 4)],
                    trig: TrigSpec::Startup(min),
                    roll: RollSpec::Fw { base: 1, count: 2, pat: 0 },
                    clock0: 1_700_000_000,
                };
                let ops = vec![bin(1, vec![6]), bin(2, vec![1]), "r".to_owned(), bin(3, vec![2])];
                emit(format!("seq\t{}\t{}", case.render(), enc_list(",", &ops)));
            }
        }
    }
    // the first (and/or second) record's encoder fails: the policy is consulted before the encoder,
    // so the start-up rotation belongs to the first record that ARRIVES
    for &min in &[0u64, 1, 5, 4096] {
        let mut pres = vec![None, Some(0u64), Some(min), Some(min + 1)];
        if min > 0 {
            pres.push(Some(min - 1));
        }
        for pre in pres {
            for append in [true, false] {
                for roll in [RollSpec::Delete, RollSpec::Fw { base: 1, count: 2, pat: 0 }] {
                    let pre_arch = match &roll {
                        RollSpec::Fw { base, .. } => vec![(*base, 3u64)],
                        RollSpec::Delete => vec![],
                    };
                    let case = Case {
                        append,
                        pre_active: pre,
                        pre_arch,
                        trig: TrigSpec::Startup(min),
                        roll: roll.clone(),
                        clock0: 1_700_000_000,
                    };
                    for ops in [
                        vec![format!("e0!{}", bin(1, vec![4])), bin(2, vec![3]), bin(3, vec![1])],
                        vec![
                            format!("e1!{}", bin(1, vec![2, 2])),
                            format!("e0!{}", bin(2, vec![3])),
                            bin(3, vec![1]),
                            "r".to_owned(),
                            format!("e1!{}", bin(4, vec![2])),
                            bin(5, vec![1]),
                        ],
                        vec![bin(1, vec![4]), format!("e0!{}", bin(2, vec![3])), bin(3, vec![1])],
                    ] {
                        emit(format!("seq\t{}\t{}", case.render(), enc_list(",", &ops)));
                    }
                }
            }
        }
    }
    // the one rotation request: the roller does its work and reports Err on the first record
    for &min in &[0u64, 1, 5] {
        for append in [true, false] {
            for roll in [RollSpec::Delete, RollSpec::Fw { base: 1, count: 2, pat: 0 }, RollSpec::Fw { base: 0, count: 3, pat: 2 }] {
                let pre_arch = match &roll {
                    RollSpec::Fw { base, .. } => vec![(*base, 3u64), (*base + 1, 4u64)],
                    RollSpec::Delete => vec![],
                };
                let case = Case {
                    append,
                    pre_active: Some(6),
                    pre_arch,
                    trig: TrigSpec::Startup(min),
                    roll: roll.clone(),
                    clock0: 1_700_000_000,
                };
                let ops = vec![
                    format!("g!{}", bin(1, vec![6])),
                    bin(2, vec![2]),
                    format!("g!{}", bin(3, vec![1])),
                    "r".to_owned(),
                    format!("g!{}", bin(4, vec![2, 3])),
                    bin(5, vec![1]),
                ];
                emit(format!("seq\t{}\t{}", case.render(), enc_list(",", &ops)));
            }
        }
    }
    // round 4: the rotation requested by the first record stops at step k (every k of every window
    // shape), then the request must never be repeated; windows dense, full and with gaps
    for (count, pat) in [(1u32, 0u32), (2, 0), (3, 0), (3, 1), (3, 2)] {
        for k in 0..=count as u64 {
            if pat == 2 && k == count as u64 {
                continue;
            }
            for shape in 0..4u32 {
                let base = 1u32;
                let pre_arch: Vec<(u32, u64)> = match shape {
                    0 => vec![],
                    1 => (0..count).map(|j| (base + j, 3 + j as u64)).collect(),
                    2 => (0..count).filter(|j| j % 2 == 0).map(|j| (base + j, 3 + j as u64)).collect(),
                    _ => (0..count).filter(|j| j % 2 == 1).map(|j| (base + j, 3 + j as u64)).chain([(base + count, 9u64), (0, 2)]).collect(),
                };
                for append in [true, false] {
                    let case = Case {
                        append,
                        pre_active: Some(7),
                        pre_arch: pre_arch.clone(),
                        trig: TrigSpec::Startup(5),
                        roll: RollSpec::Fw { base, count, pat },
                        clock0: 1_700_000_000,
                    };
                    let ops = vec![
                        format!("f{}!{}", k, bin(1, vec![4])),
                        bin(2, vec![3]),
                        bin(3, vec![1]),
                        "r".to_owned(),
                        bin(4, vec![2]),
                        "r".to_owned(),
                        format!("f{}!{}", if pat == 2 && (k + 1) % (count as u64 + 1) == count as u64 { 0 } else { (k + 1) % (count as u64 + 1) }, bin(5, vec![2])),
                        bin(6, vec![1]),
                    ];
                    emit(format!("seq\t{}\t{}", case.render(), enc_list(",", &ops)));
                }
            }
        }
    }
    // round 4: windows with gaps, fault-free, three appenders in a row
    for count in [2u32, 3, 5] {
        for mask in 0..(1u32 << count.min(3)) {
            let pre_arch: Vec<(u32, u64)> = (0..count.min(3)).filter(|j| mask & (1 << j) != 0).map(|j| (j, 2 + j as u64)).collect();
            for append in [true, false] {
                let case = Case {
                    append,
                    pre_active: Some(3),
                    pre_arch: pre_arch.clone(),
                    trig: TrigSpec::Startup(1),
                    roll: RollSpec::Fw { base: 0, count, pat: 0 },
                    clock0: 1_700_000_000,
                };
                let ops = vec![bin(1, vec![4]), "r".to_owned(), bin(2, vec![3]), bin(3, vec![1]), "r".to_owned(), bin(4, vec![2])];
                emit(format!("seq\t{}\t{}", case.render(), enc_list(",", &ops)));
            }
        }
    }
    for _ in 0..n {
        emit(gen_seq17(rng, thorough));
    }
    for _ in 0..(n / 6).max(6) {
        emit(c05::gen_seq_case(rng, thorough, c05::TrigChoice::Startup));
    }
    for _ in 0..(if thorough { n / 5 } else { n / 10 }).max(6) {
        emit(gen_conc2(rng, thorough));
    }
    for _ in 0..(if thorough { n / 20 } else { n / 30 }).max(4) {
        emit(c05::gen_conc_case(rng, thorough, c05::TrigChoice::Startup));
    }
    for _ in 0..(if thorough { n / 10 } else { n / 15 }).max(6) {
        emit(gen_once(rng));
    }
}

/// child-process entry point (`verif-harness child c17 …`); not needed by this property
pub fn child(_args: &[String]) -> i32 {
    2
}
