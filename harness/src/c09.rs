//! C09 — pattern encoder output equals the pattern's meaning. Patterns are generated from the AST of
//! the documented grammar; the case carries the AST (prefix token list) and the pattern string the
//! harness printed from it (the Lean driver prints the AST with its own `showPats` and refuses the
//! case when the two strings differ). Execution and observation are those of C11 (`c11::run_case`).
//!
//! case line (after the id):  ast-tokens  pattern  level message target module? file? line? thread? mdc
//! tokens, joined by `,`:
//!   L<hex>:<p|d|b>                      literal character, plain / doubled / backslash
//!   s~ | s<fill hex|->:<-|l|r>:<min digits|->:<max digits|->    format spec (follows every formatter token)
//!   F<kind>:<long>  spec                formatter without arguments
//!   D<long>:<0|1|2>:<utc>  spec  [ lits ]        date: no args / format / format + zone
//!   X<long>:<hasdefault>  spec  [ key ]  [ default ]?
//!   G<a|h|d|r>:<long>  spec  ( pats )   unnamed / highlight / debug / release group
use crate::c11::{self, Case};
use crate::proto::*;
use crate::rng::Rng;

#[derive(Clone, Copy, PartialEq)]
pub enum Esc {
    P,
    D,
    B,
}

#[derive(Clone)]
pub struct Lit {
    c: char,
    esc: Esc,
}

#[derive(Clone, Default)]
pub struct Spec {
    fill: Option<char>,
    align: Option<bool>,
    min: Option<String>,
    max: Option<String>,
}

#[derive(Clone)]
pub enum Pat {
    Lit(Lit),
    Leaf(usize, bool, Option<Spec>),
    Date(bool, Option<(Vec<Lit>, Option<bool>)>, Option<Spec>),
    Mdc(bool, Vec<Lit>, Option<Vec<Lit>>, Option<Spec>),
    Group(char, bool, Vec<Pat>, Option<Spec>),
}

const LEAVES: &[(&str, &str, &str)] = &[
    ("level", "l", "level"),
    ("message", "m", "message"),
    ("module", "M", "module"),
    ("file", "f", "file"),
    ("line", "L", "line"),
    ("thread", "T", "thread"),
    ("threadId", "I", "thread_id"),
    ("pid", "P", "pid"),
    ("tid", "i", "tid"),
    ("target", "t", "target"),
    ("newline", "n", "n"),
];
const THREAD_ID: usize = 6;

fn is_special(c: char) -> bool {
    "{}()\\".contains(c)
}

fn show_lit(l: &Lit, out: &mut String) {
    match l.esc {
        Esc::P => out.push(l.c),
        Esc::D => {
            out.push(l.c);
            out.push(l.c)
        }
        Esc::B => {
            out.push('\\');
            out.push(l.c)
        }
    }
}

fn show_spec(s: &Option<Spec>, out: &mut String) {
    if let Some(s) = s {
        out.push(':');
        if let Some(f) = s.fill {
            out.push(f);
        }
        match s.align {
            Some(true) => out.push('>'),
            Some(false) => out.push('<'),
            None => {}
        }
        if let Some(m) = &s.min {
            out.push_str(m);
        }
        if let Some(m) = &s.max {
            out.push('.');
            out.push_str(m);
        }
    }
}

fn show_lits(ls: &[Lit], out: &mut String) {
    out.push('(');
    for l in ls {
        show_lit(l, out);
    }
    out.push(')');
}

pub fn show(ps: &[Pat], out: &mut String) {
    for p in ps {
        match p {
            Pat::Lit(l) => show_lit(l, out),
            Pat::Leaf(k, long, spec) => {
                out.push('{');
                out.push_str(if *long { LEAVES[*k].2 } else { LEAVES[*k].1 });
                show_spec(spec, out);
                out.push('}');
            }
            Pat::Date(long, args, spec) => {
                out.push('{');
                out.push_str(if *long { "date" } else { "d" });
                if let Some((f, z)) = args {
                    show_lits(f, out);
                    if let Some(z) = z {
                        out.push_str(if *z { "(utc)" } else { "(local)" });
                    }
                }
                show_spec(spec, out);
                out.push('}');
            }
            Pat::Mdc(long, key, dflt, spec) => {
                out.push('{');
                out.push_str(if *long { "mdc" } else { "X" });
                show_lits(key, out);
                if let Some(d) = dflt {
                    show_lits(d, out);
                }
                show_spec(spec, out);
                out.push('}');
            }
            Pat::Group(k, long, body, spec) => {
                out.push('{');
                out.push_str(match (k, long) {
                    ('a', _) => "",
                    ('h', false) => "h",
                    ('h', true) => "highlight",
                    ('d', false) => "D",
                    ('d', true) => "debug",
                    ('r', false) => "R",
                    (_, _) => "release",
                });
                out.push('(');
                show(body, out);
                out.push(')');
                show_spec(spec, out);
                out.push('}');
            }
        }
    }
}

fn tok_lit(l: &Lit) -> String {
    format!("L{:x}:{}", l.c as u32, match l.esc {
        Esc::P => 'p',
        Esc::D => 'd',
        Esc::B => 'b',
    })
}

fn tok_spec(s: &Option<Spec>) -> String {
    match s {
        None => "s~".to_owned(),
        Some(s) => format!(
            "s{}:{}:{}:{}",
            enc_opt(s.fill, |c| format!("{:x}", c as u32)),
            match s.align {
                None => "-",
                Some(false) => "l",
                Some(true) => "r",
            },
            s.min.clone().unwrap_or_else(|| "-".to_owned()),
            s.max.clone().unwrap_or_else(|| "-".to_owned())
        ),
    }
}

fn tok_lits(ls: &[Lit], out: &mut Vec<String>) {
    out.push("[".to_owned());
    for l in ls {
        out.push(tok_lit(l));
    }
    out.push("]".to_owned());
}

pub fn tokens(ps: &[Pat], out: &mut Vec<String>) {
    for p in ps {
        match p {
            Pat::Lit(l) => out.push(tok_lit(l)),
            Pat::Leaf(k, long, spec) => {
                out.push(format!("F{}:{}", LEAVES[*k].0, enc_bool(*long)));
                out.push(tok_spec(spec));
            }
            Pat::Date(long, args, spec) => {
                let (mode, utc) = match args {
                    None => (0, false),
                    Some((_, None)) => (1, false),
                    Some((_, Some(z))) => (2, *z),
                };
                out.push(format!("D{}:{}:{}", enc_bool(*long), mode, enc_bool(utc)));
                out.push(tok_spec(spec));
                if let Some((f, _)) = args {
                    tok_lits(f, out);
                }
            }
            Pat::Mdc(long, key, dflt, spec) => {
                out.push(format!("X{}:{}", enc_bool(*long), enc_bool(dflt.is_some())));
                out.push(tok_spec(spec));
                tok_lits(key, out);
                if let Some(d) = dflt {
                    tok_lits(d, out);
                }
            }
            Pat::Group(k, long, body, spec) => {
                out.push(format!("G{}:{}", k, enc_bool(*long)));
                out.push(tok_spec(spec));
                out.push("(".to_owned());
                tokens(body, out);
                out.push(")".to_owned());
            }
        }
    }
}

// ------------------------------------------------------------------------------------------------
// generator
// ------------------------------------------------------------------------------------------------
const PLAIN: &[char] = &[
    'a', 'b', 'Z', 'm', 'd', ' ', ' ', '-', ':', '.', '<', '>', '9', '0', '%', '_', '~', '\t', '\u{e9}', '\u{4e2d}',
    '\u{1f600}', '\u{663}', '\u{301}', '\u{a0}', '\u{ff5b}',
];
const SPECIALS: &[char] = &['{', '}', '(', ')', '\\'];
const FILLS: &[char] = &[' ', '*', '0', '9', '}', '{', '(', ')', '\\', '<', '>', ':', '.', '\u{e9}', '\u{4e2d}', '\u{1f600}'];
/// formats that show the zone: emitted side by side under (utc), (local) and without a zone
const ZONE_FMTS: &[&str] = &["%H%z", "%H:%M %:z", "%Z", "%Y-%m-%dT%H:%M:%S%z", "%s %z", "%H", "%+", "%H:%M:%S%.f %z", "%f%z"];
const DATE_FMTS: &[&str] = &["%H%z", "%d %H:%M %:z","%Y-%m-%d", "%H:%M", "%Y", "%%", "", "at %e %b", "%Y-%m-%dT%H:%M:%S%z", "%s", "%A", "wk %U"];
const KEYS: &[&str] = &["k", "user_id", "cl\u{e9}", "nokey", "a b", "9", ":", "a{b", "x)y", "b\\s", "({})", "k{", "k}", "k(", "k)", "k\\"];

fn lit_of(c: char, rng: &mut Rng, in_arg: bool) -> Lit {
    if is_special(c) {
        let _ = in_arg; // since 185a57e `))` is an escape inside arguments too
        let esc = if rng.chance(1, 2) {
            Esc::D
        } else {
            Esc::B
        };
        Lit { c, esc }
    } else {
        Lit { c, esc: Esc::P }
    }
}

fn plain_lits(s: &str) -> Vec<Lit> {
    s.chars().map(|c| Lit { c, esc: Esc::P }).collect()
}

/// the text of `s` as literals inside an argument: specials escaped (either style; `)` by backslash)
fn escaped_lits(rng: &mut Rng, s: &str) -> Vec<Lit> {
    s.chars().map(|c| lit_of(c, rng, true)).collect()
}

fn gen_text_lits(rng: &mut Rng, in_arg: bool, s: &str) -> Vec<Lit> {
    // the text of `s`, with specials sprinkled in
    // (never right after a `%`: that would make a different — possibly invalid — strftime directive)
    let mut v: Vec<Lit> = vec![];
    let mut pct = false; // an unfinished `%` directive
    for c in s.chars() {
        if !pct && rng.chance(1, 6) {
            v.push(lit_of(*rng.pick(SPECIALS), rng, in_arg));
        }
        v.push(lit_of(c, rng, in_arg));
        pct = c == '%' && !pct;
    }
    if !pct && rng.chance(1, 4) {
        v.push(lit_of(*rng.pick(SPECIALS), rng, in_arg));
    }
    v
}

fn gen_spec(rng: &mut Rng) -> Option<Spec> {
    if rng.chance(1, 2) {
        return None;
    }
    loop {
        let align = if rng.chance(1, 2) { Some(rng.chance(1, 2)) } else { None };
        let fill = if align.is_some() && rng.chance(1, 2) { Some(*rng.pick(FILLS)) } else { None };
        let num = |rng: &mut Rng| -> u32 { *rng.pick(&[0u32, 1, 2, 3, 4, 5, 7, 10, 12, 20, 33]) };
        let mut min = if rng.chance(2, 3) { Some(num(rng)) } else { None };
        let mut max = if rng.chance(1, 2) { Some(num(rng)) } else { None };
        if let (Some(a), Some(b)) = (min, max) {
            if a > b {
                min = Some(b);
                max = Some(a);
            }
        }
        if align.is_none() && min.is_none() && max.is_none() {
            continue;
        }
        let digits = |rng: &mut Rng, n: u32| -> String {
            if rng.chance(1, 8) {
                format!("0{}", n)
            } else {
                n.to_string()
            }
        };
        return Some(Spec { fill, align, min: min.map(|n| digits(rng, n)), max: max.map(|n| digits(rng, n)) });
    }
}

fn gen_pat(rng: &mut Rng, depth: u32, in_arg: bool) -> Pat {
    match rng.below(20) {
        0..=3 => Pat::Lit(lit_of(*rng.pick(PLAIN), rng, in_arg)),
        4..=6 => Pat::Lit(lit_of(*rng.pick(SPECIALS), rng, in_arg)),
        7..=11 => {
            let k = rng.below(LEAVES.len() as u64) as usize;
            let long = rng.chance(1, 2);
            Pat::Leaf(k, long, gen_spec(rng))
        }
        12 | 13 => {
            let f: &str = *rng.pick(DATE_FMTS);
            let args = match rng.below(4) {
                0 => None,
                1 => Some((gen_text_lits(rng, true, f), None)),
                _ => Some((gen_text_lits(rng, true, f), Some(rng.chance(1, 2)))),
            };
            Pat::Date(rng.chance(1, 2), args, gen_spec(rng))
        }
        14 | 15 => {
            let k: &str = *rng.pick(KEYS);
            let key = escaped_lits(rng, k);
            let d: &str = *rng.pick(&["none", "d", "n/a", "\u{4e2d}", "- -", "{}", "(d)", "\\"]);
            let dflt = if rng.chance(1, 2) { Some(escaped_lits(rng, d)) } else { None };
            Pat::Mdc(rng.chance(1, 2), key, dflt, gen_spec(rng))
        }
        _ => {
            let k = *rng.pick(&['a', 'a', 'h', 'h', 'd', 'r']);
            let body = if depth == 0 { vec![Pat::Lit(Lit { c: 'x', esc: Esc::P })] } else { gen_pats(rng, depth - 1, true) };
            Pat::Group(k, rng.chance(1, 2), body, gen_spec(rng))
        }
    }
}

pub fn gen_pats(rng: &mut Rng, depth: u32, in_arg: bool) -> Vec<Pat> {
    let n = if in_arg { rng.range(0, 4) } else { rng.range(1, 7) };
    (0..n).map(|_| gen_pat(rng, depth, in_arg)).collect()
}

pub fn case_line(ps: &[Pat], rec: &Case) -> String {
    let mut pattern = String::new();
    show(ps, &mut pattern);
    let mut toks = vec![];
    tokens(ps, &mut toks);
    let mut rec = rec.clone();
    rec.pattern = pattern;
    format!("{}\t{}", enc_list(",", &toks), rec.line())
}

fn lit(c: char, esc: Esc) -> Pat {
    Pat::Lit(Lit { c, esc })
}

fn leaf(name: &str) -> Pat {
    for (i, l) in LEAVES.iter().enumerate() {
        if l.1 == name {
            return Pat::Leaf(i, false, None);
        }
        if l.2 == name {
            return Pat::Leaf(i, true, None);
        }
    }
    unreachable!()
}

fn spec(fill: Option<char>, align: Option<bool>, min: Option<&str>, max: Option<&str>) -> Option<Spec> {
    Some(Spec { fill, align, min: min.map(|s| s.to_owned()), max: max.map(|s| s.to_owned()) })
}

pub fn gen(rng: &mut Rng, n: usize, thorough: bool, emit: &mut dyn FnMut(String)) {
    let base = Case::simple("");
    let mut full = Case::simple("");
    full.file = Some("src/m\u{e9}.rs".into());
    full.thread = Some("w\u{f6}rker".into());
    full.mdc = vec![("k".into(), "v\u{4e2d}".into()), ("user_id".into(), "42".into())];
    for c in SPECIALS {
        full.mdc.push((format!("k{}", c), format!("value-of-{}", c)));
    }
    let mut bare = Case::simple("");
    bare.module = None;
    bare.file = None;
    bare.line = None;
    // 1. every formatter and alias, bare and under a few specs, on three records and every level
    let specs = [
        None,
        spec(None, None, Some("8"), None),
        spec(None, Some(true), Some("8"), None),
        spec(Some('*'), Some(false), Some("6"), Some("6")),
        spec(None, None, None, Some("2")),
        spec(Some('}'), Some(true), Some("5"), Some("9")),
        spec(Some('\u{1f600}'), Some(true), Some("04"), None),
    ];
    for (k, _) in LEAVES.iter().enumerate() {
        for long in [false, true] {
            for sp in specs.iter() {
                for rec in [&base, &full, &bare] {
                    let p = vec![lit('[', Esc::P), Pat::Leaf(k, long, sp.clone()), lit(']', Esc::P)];
                    emit(case_line(&p, rec));
                }
            }
        }
    }
    for level in 1..=5u8 {
        let mut r = full.clone();
        r.level = level;
        for long in [false, true] {
            for k in ['h', 'a', 'd', 'r'] {
                let body = vec![leaf("l"), lit(' ', Esc::P), leaf("m")];
                for sp in specs.iter() {
                    emit(case_line(&[lit('<', Esc::P), Pat::Group(k, long, body.clone(), sp.clone()), lit('>', Esc::P)], &r));
                }
            }
        }
    }
    // 2. every special character in both escape styles: top level, inside an argument, adjacent
    //    to formatters and to each other
    for &c in SPECIALS {
        for esc in [Esc::D, Esc::B] {
            let l = lit(c, esc);
            emit(case_line(&[l.clone()], &base));
            emit(case_line(&[leaf("m"), l.clone(), leaf("l")], &base));
            emit(case_line(&[l.clone(), leaf("m"), l.clone(), l.clone()], &base));
            emit(case_line(&[lit('a', Esc::P), l.clone(), lit('b', Esc::P)], &base));
            for &c2 in SPECIALS {
                for esc2 in [Esc::D, Esc::B] {
                    emit(case_line(&[l.clone(), lit(c2, esc2)], &base));
                    emit(case_line(&[Pat::Group('a', false, vec![l.clone(), lit(c2, esc2), leaf("m")], None)], &base));
                }
            }
            // inside an argument (`))` is F6: the driver's spec decides)
            emit(case_line(&[Pat::Group('a', false, vec![lit('a', Esc::P), l.clone(), lit('b', Esc::P)], None)], &base));
            emit(case_line(&[Pat::Group('h', false, vec![l.clone(), leaf("m"), l.clone()], spec(None, Some(true), Some("9"), None))], &base));
            emit(case_line(&[Pat::Date(false, Some((vec![Lit { c, esc }, Lit { c: '%', esc: Esc::P }, Lit { c: 'Y', esc: Esc::P }, Lit { c, esc }], None)), None)], &base));
            emit(case_line(&[Pat::Mdc(false, vec![Lit { c: 'k', esc: Esc::P }, Lit { c, esc }], None, None)], &full));
            emit(case_line(&[Pat::Mdc(false, plain_lits("zz"), Some(vec![Lit { c: 'd', esc: Esc::P }, Lit { c, esc }]), None)], &full));
        }
    }
    // 3. nesting depth 1..=6 of every group kind
    for depth in 1..=6 {
        for kinds in [['a', 'h'], ['h', 'd'], ['d', 'a'], ['r', 'h']] {
            let mut p = vec![leaf("l"), lit('-', Esc::P), leaf("message")];
            for d in 0..depth {
                let k = kinds[d % 2];
                let sp = if d % 2 == 0 { spec(None, Some(d % 4 == 0), Some("12"), Some("30")) } else { None };
                p = vec![lit('(', Esc::D), Pat::Group(k, d % 3 == 0, p, sp), lit(')', Esc::B)];
            }
            emit(case_line(&p, &full));
        }
    }
    // 3b. `)` inside arguments in both escape styles: in the middle, last before the closer, runs
    //     of 1..=5, in every kind of argument (group body, date format, MDC key and default)
    for run in 1..=5usize {
        for style in 0..3 {
            let lits: Vec<Lit> = (0..run)
                .map(|i| Lit { c: ')', esc: match style { 0 => Esc::D, 1 => Esc::B, _ => if i % 2 == 0 { Esc::D } else { Esc::B } } })
                .collect();
            let pats: Vec<Pat> = lits.iter().cloned().map(Pat::Lit).collect();
            for pos in 0..3 {
                // 0: run last before the closer, 1: run in the middle, 2: run first
                let mut body = vec![];
                if pos != 2 {
                    body.push(lit('a', Esc::P));
                }
                body.extend(pats.iter().cloned());
                if pos != 0 {
                    body.push(leaf("m"));
                }
                for k in ['a', 'h'] {
                    emit(case_line(&[lit('<', Esc::P), Pat::Group(k, false, body.clone(), None), lit('>', Esc::P)], &full));
                    emit(case_line(&[Pat::Group(k, true, vec![Pat::Group('a', false, body.clone(), spec(None, Some(true), Some("9"), None))], None)], &full));
                }
                let mut txt: Vec<Lit> = vec![];
                if pos != 2 {
                    txt.push(Lit { c: 'k', esc: Esc::P });
                }
                txt.extend(lits.iter().cloned());
                if pos != 0 {
                    txt.push(Lit { c: 'z', esc: Esc::P });
                }
                let mut rec = full.clone();
                let key: String = txt.iter().map(|l| l.c).collect();
                rec.mdc.retain(|kv| kv.0 != key);
                rec.mdc.push((key, "hit".into()));
                emit(case_line(&[Pat::Mdc(false, txt.clone(), None, None)], &rec));
                emit(case_line(&[Pat::Mdc(true, plain_lits("nokey"), Some(txt.clone()), None)], &rec));
                emit(case_line(&[Pat::Date(false, Some((txt.clone(), Some(true))), None)], &base));
            }
        }
    }
    // 4. MDC hit / miss / default, date with and without zone
    for key in KEYS {
        for dflt in [None, Some("dflt"), Some("\u{4e2d} x"), Some("{(\\)}")] {
            for long in [false, true] {
                let k = escaped_lits(rng, key);
                let d = dflt.map(|d| escaped_lits(rng, d));
                emit(case_line(&[Pat::Mdc(long, k.clone(), d.clone(), None)], &full));
                emit(case_line(&[Pat::Mdc(long, k, d, spec(None, Some(true), Some("7"), None))], &base));
            }
        }
    }
    for f in DATE_FMTS {
        for z in [None, Some(true), Some(false)] {
            for long in [false, true] {
                emit(case_line(&[lit('[', Esc::P), Pat::Date(long, Some((plain_lits(f), z)), None), lit(']', Esc::P)], &base));
            }
        }
        emit(case_line(&[Pat::Date(false, Some((plain_lits(f), None)), spec(Some('.'), Some(true), Some("25"), None))], &base));
    }
    emit(case_line(&[Pat::Date(false, None, None)], &base));
    emit(case_line(&[Pat::Date(true, None, spec(None, None, Some("40"), None))], &base));
    // 4b. the SAME format text under (utc), (local) and without a zone argument in one pattern
    //     (one encode, one thread, one second): each date formatter renders its own zone
    for f in ZONE_FMTS {
        let d = |z: Option<bool>, long: bool| Pat::Date(long, Some((plain_lits(f), z)), None);
        let sep = || lit('|', Esc::P);
        emit(case_line(&[d(Some(true), false), sep(), d(Some(false), false)], &base));
        emit(case_line(&[d(Some(false), true), sep(), d(Some(true), false), sep(), d(None, false)], &base));
        emit(case_line(&[d(None, false), sep(), d(Some(true), true), sep(), d(Some(true), false), sep(), d(Some(false), false)], &full));
        emit(case_line(&[Pat::Group('h', false, vec![d(Some(true), false)], None), Pat::Group('a', false, vec![d(Some(false), false)], spec(None, Some(true), Some("30"), None))], &full));
    }
    // 4c. fork family: the pid formatter in a process that forked after its first encode
    for long in [false, true] {
        let mut main = base.clone();
        main.thread = Some("main".into());
        let p = Pat::Leaf(7, long, None); // pid
        emit(format!("{}\tfork", case_line(&[p.clone()], &main)));
        emit(format!("{}\tfork", case_line(&[lit('[', Esc::P), p.clone(), lit(']', Esc::P), leaf("m")], &main)));
        emit(format!("{}\tfork", case_line(&[Pat::Group('h', false, vec![Pat::Leaf(7, long, spec(None, Some(true), Some("9"), None))], None), leaf("l")], &main)));
    }
    // 5. {thread_id} (F5, repaired): the alias next to text and under a spec
    emit(case_line(&[Pat::Leaf(THREAD_ID, true, None)], &base));
    emit(case_line(&[lit('a', Esc::P), Pat::Leaf(THREAD_ID, true, None), lit('b', Esc::P)], &base));
    // 6. random trees
    let depth = if thorough { 5 } else { 4 };
    for i in 0..n {
        let mut ps = gen_pats(rng, depth, false);
        if i % 50 == 0 {
            ps.push(Pat::Leaf(THREAD_ID, true, None));
        }
        if i % 50 == 1 {
            ps.push(Pat::Group('a', false, vec![lit(')', Esc::D), leaf("m"), lit(')', Esc::D), lit(')', Esc::D)], None));
        }
        if i % 50 == 2 {
            ps.push(Pat::Mdc(false, vec![Lit { c: 'k', esc: Esc::P }, Lit { c: '{', esc: Esc::D }], None, None));
        }
        let mut rec = c11::random_record(rng, "");
        for k in KEYS {
            if rng.chance(1, 3) {
                rec.mdc.push(((*k).to_owned(), (*rng.pick(c11::TEXTS)).to_owned()));
            }
        }
        let mut seen: Vec<String> = vec![];
        rec.mdc.retain(|kv| {
            if seen.contains(&kv.0) {
                false
            } else {
                seen.push(kv.0.clone());
                true
            }
        });
        emit(case_line(&ps, &rec));
    }
}

pub fn exec(fields: &[&str]) -> String {
    if fields.len() == 11 && fields[10] == "fork" {
        return c11::exec_fork(&fields[1..10]);
    }
    if fields.len() != 10 {
        return "bad-case".to_owned();
    }
    c11::exec(&fields[1..])
}
