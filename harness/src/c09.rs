//! C09 — pattern encoder output equals the pattern's meaning. Patterns are generated from the AST of
//! the documented grammar; the case carries the AST (prefix token list) and the pattern string the
//! harness printed from it (the Lean driver prints the AST with its own `showPats` and refuses the
//! case when the two strings differ). Execution and observation are those of C11 (`c11::run_case`).
//!
//! case line (after the id):  ast-tokens  pattern  level message target module? file? line? thread? mdc
//! tokens, joined by `,`:
//!   L<hex>:<p|d|b>                      literal character, plain / doubled / backslash
//!   s~ | s<fill hex|->:<-|l|r>:<min digits|->:<max digits|->    format spec (follows every formatter token)
//!   F<kind>:<long>  spec                formatter without arguments
//!   D<long>:<0|1|2>:<utc>  spec  [ lits ]        date: no args / format / format + zone
//!   X<long>:<hasdefault>  spec  [ key ]  [ default ]?
//!   G<a|h|d|r>:<long>  spec  ( pats )   unnamed / highlight / debug / release group
use crate::c11::{self, Case};
use crate::proto::*;
use crate::rng::Rng;

#[derive(Clone, Copy, PartialEq)]
pub enum Esc {
    P,
    D,
    B,
}

#[derive(Clone)]
pub struct Lit {
    c: char,
    esc: Esc,
}

#[derive(Clone, Default)]
pub struct Spec {
    fill: Option<char>,
    align: Option<bool>,
    min: Option<String>,
    max: Option<String>,
}

#[derive(Clone)]
pub enum Pat {
    Lit(Lit),
    Leaf(usize, bool, Option<Spec>),
    Date(bool, Option<(Vec<Lit>, Option<bool>)>, Option<Spec>),
    Mdc(bool, Vec<Lit>, Option<Vec<Lit>>, Option<Spec>),
    Group(char, bool, Vec<Pat>, Option<Spec>),
}

const LEAVES: &[(&str, &str, &str)] = &[
    ("level", "l", "level"),
    ("message", "m", "message"),
    ("module", "M", "module"),
    ("file", "f", "file"),
    ("line", "L", "line"),
    ("thread", "T", "thread"),
    ("threadId", "I", "thread_id"),
    ("pid", "P", "pid"),
    ("tid", "i", "tid"),
    ("target", "t", "target"),
    ("newline", "n", "n"),
];
const THREAD_ID: usize = 6;

fn is_special(c: char) -> bool {
    "{}()\\".contains(c)
}

fn show_lit(l: &Lit, out: &mut String) {
    match l.esc {
        Esc::P => out.push(l.c),
        Esc::D => {
            out.push(l.c);
            out.push(l.c)
        }
        Esc::B => {
            out.push('\\');
            out.push(l.c)
        }
    }
}

fn show_spec(s: &Option<Spec>, out: &mut String) {
    if let Some(s) = s {
        out.push(':');
        if let Some(f) = s.fill {
            out.push(f);
        }
        match s.align {
            Some(true) => out.push('>'),
            Some(false) => out.push('<'),
            None => {}
        }
        if let Some(m) = &s.min {
            out.push_str(m);
        }
        if let Some(m) = &s.max {
            out.push('.');
            out.push_str(m);
        }
    }
}

fn show_lits(ls: &[Lit], out: &mut String) {
    out.push('(');
    for l in ls {
        show_lit(l, out);
    }
    out.push(')');
}

pub fn show(ps: &[Pat], out: &mut String) {
    for p in ps {
        match p {
            Pat::Lit(l) => show_lit(l, out),
            Pat::Leaf(k, long, spec) => {
                out.push('{');
                out.push_str(if *long { LEAVES[*k].2 } else { LEAVES[*k].1 });
                show_spec(spec, out);
                out.push('}');
            }
            Pat::Date(long, args, spec) => {
                out.push('{');
                out.push_str(if *long { "date" } else { "d" });
                if let Some((f, z)) = args {
                    show_lits(f, out);
                    if let Some(z) = z {
                        out.push_str(if *z { "(utc)" } else { "(local)" });
                    }
                }
                show_spec(spec, out);
                out.push('}');
            }
            Pat::Mdc(long, key, dflt, spec) => {
                out.push('{');
                out.push_str(if *long { "mdc" } else { "X" });
                show_lits(key, out);
                if let Some(d) = dflt {
                    show_lits(d, out);
                }
                show_spec(spec, out);
                out.push('}');
            }
            Pat::Group(k, long, body, spec) => {
                out.push('{');
                out.push_str(match (k, long) {
                    ('a', _) => "",
                    ('h', false) => "h",
                    ('h', true) => "highlight",
                    ('d', false) => "D",
                    ('d', true) => "debug",
                    ('r', false) => "R",
                    (_, _) => "release",
                });
                out.push('(');
                show(body, out);
                out.push(')');
                show_spec(spec, out);
                out.push('}');
            }
        }
    }
}

fn tok_lit(l: &Lit) -> String {
    format!("L{:x}:{}", l.c as u32, match l.esc {
        Esc::P => 'p',
        Esc::D => 'd',
        Esc::B => 'b',
    })
}

fn tok_spec(s: &Option<Spec>) -> String {
    match s {
        None => "s~".to_owned(),
        Some(s) => format!(
            "s{}:{}:{}:{}",
            enc_opt(s.fill, |c| format!("{:x}", c as u32)),
            match s.align {
                None => "-",
                Some(false) => "l",
                Some(true) => "r",
            },
            s.min.clone().unwrap_or_else(|| "-".to_owned()),
            s.max.clone().unwrap_or_else(|| "-".to_owned())
        ),
    }
}

fn tok_lits(ls: &[Lit], out: &mut Vec<String>) {
    out.push("[".to_owned());
    for l in ls {
        out.push(tok_lit(l));
    }
    out.push("]".to_owned());
}

pub fn tokens(ps: &[Pat], out: &mut Vec<String>) {
    for p in ps {
        match p {
            Pat::Lit(l) => out.push(tok_lit(l)),
            Pat::Leaf(k, long, spec) => {
                out.push(format!("F{}:{}", LEAVES[*k].0, enc_bool(*long)));
                out.push(tok_spec(spec));
            }
            Pat::Date(long, args, spec) => {
                let (mode, utc) = match args {
                    None => (0, false),
                    Some((_, None)) => (1, false),
                    Some((_, Some(z))) => (2, *z),
                };
                out.push(format!("D{}:{}:{}", enc_bool(*long), mode, enc_bool(utc)));
                out.push(tok_spec(spec));
                if let Some((f, _)) = args {
                    tok_lits(f, out);
                }
            }
            Pat::Mdc(long, key, dflt, spec) => {
                out.push(format!("X{}:{}", enc_bool(*long), enc_bool(dflt.is_some())));
                out.push(tok_spec(spec));
                tok_lits(key, out);
                if let Some(d) = dflt {
                    tok_lits(d, out);
                }
            }
            Pat::Group(k, long, body, spec) => {
                out.push(format!("G{}:{}", k, enc_bool(*long)));
                out.push(tok_spec(spec));
                out.push("(".to_owned());
                tokens(body, out);
                out.push(")".to_owned());
            }
        }
    }
}

// ------------------------------------------------------------------------------------------------
// generator
// ------------------------------------------------------------------------------------------------
const PLAIN: &[char] = &[
    'a', 'b', 'Z', 'm', 'd', ' ', ' ', '-', ':', '.', '<', '>', '9', '0', '%', '_', '~', '\t', '\u{e9}', '\u{4e2d}',
    '\u{1f600}', '\u{663}', '\u{301}', '\u{a0}', '\u{ff5b}',
];
const SPECIALS: &[char] = &['{', '}', '(', ')', '\\'];
const FILLS: &[char] = &[' ', '*', '0', '9', '}', '{', '(', ')', '\\', '<', '>', ':', '.', '\u{e9}', '\u{4e2d}', '\u{1f600}'];
/// formats that show the zone: emitted side by side under (utc), (local) and without a zone
const ZONE_FMTS: &[&str] = &["%H%z", "%H:%M %:z", "%Z", "%Y-%m-%dT%H:%M:%S%z", "%s %z", "%H", "%+", "%H:%M:%S%.f %z", "%f%z"];
const DATE_FMTS: &[&str] = &["%H%z", "%d %H:%M %:z","%Y-%m-%d", "%H:%M", "%Y", "%%", "", "at %e %b", "%Y-%m-%dT%H:%M:%S%z", "%s", "%A", "wk %U"];
const KEYS: &[&str] = &["k", "user_id", "cl\u{e9}", "nokey", "a b", "9", ":", "a{b", "x)y", "b\\s", "({})", "k{", "k}", "k(", "k)", "k\\"];

fn lit_of(c: char, rng: &mut Rng, in_arg: bool) -> Lit {
    if is_special(c) {
        let _ = in_arg; // since 185a57e `))` is an escape inside arguments too
        let esc = if rng.chance(1, 2) {
            Esc::D
        } else {
            Esc::B
        };
        Lit { c, esc }
    } else {
        Lit { c, esc: Esc::P }
    }
}

fn plain_lits(s: &str) -> Vec<Lit> {
    s.chars().map(|c| Lit { c, esc: Esc::P }).collect()
}

/// the text of `s` as literals inside an argument: specials escaped (either style; `)` by backslash)
fn escaped_lits(rng: &mut Rng, s: &str) -> Vec<Lit> {
    s.chars().map(|c| lit_of(c, rng, true)).collect()
}

fn gen_text_lits(rng: &mut Rng, in_arg: bool, s: &str) -> Vec<Lit> {
    // the text of `s`, with specials sprinkled in
    // (never right after a `%`: that would make a different — possibly invalid — strftime directive)
    let mut v: Vec<Lit> = vec![];
    let mut pct = false; // an unfinished `%` directive
    for c in s.chars() {
        if !pct && rng.chance(1, 6) {
            v.push(lit_of(*rng.pick(SPECIALS), rng, in_arg));
        }
        v.push(lit_of(c, rng, in_arg));
        pct = c == '%' && !pct;
    }
    if !pct && rng.chance(1, 4) {
        v.push(lit_of(*rng.pick(SPECIALS), rng, in_arg));
    }
    v
}

fn gen_spec(rng: &mut Rng) -> Option<Spec> {
    if rng.chance(1, 2) {
        return None;
    }
    loop {
        let align = if rng.chance(1, 2) { Some(rng.chance(1, 2)) } else { None };
        let fill = if align.is_some() && rng.chance(1, 2) { Some(*rng.pick(FILLS)) } else { None };
        let num = |rng: &mut Rng| -> u32 { *rng.pick(&[0u32, 1, 2, 3, 4, 5, 7, 10, 12, 20, 33]) };
        let mut min = if rng.chance(2, 3) { Some(num(rng)) } else { None };
        let mut max = if rng.chance(1, 2) { Some(num(rng)) } else { None };
        if let (Some(a), Some(b)) = (min, max) {
            if a > b {
                min = Some(b);
                max = Some(a);
            }
        }
        if align.is_none() && min.is_none() && max.is_none() {
            continue;
        }
        let digits = |rng: &mut Rng, n: u32| -> String {
            if rng.chance(1, 8) {
                format!("0{}", n)
            } else {
                n.to_string()
            }
        };
        return Some(Spec { fill, align, min: min.map(|n| digits(rng, n)), max: max.map(|n| digits(rng, n)) });
    }
}

fn gen_pat(rng: &mut Rng, depth: u32, in_arg: bool) -> Pat {
    match rng.below(20) {
        0..=3 => Pat::Lit(lit_of(*rng.pick(PLAIN), rng, in_arg)),
        4..=6 => Pat::Lit(lit_of(*rng.pick(SPECIALS), rng, in_arg)),
        7..=11 => {
            let k = rng.below(LEAVES.len() as u64) as usize;
            let long = rng.chance(1, 2);
            Pat::Leaf(k, long, gen_spec(rng))
        }
        12 | 13 => {
            let f: &str = *rng.pick(DATE_FMTS);
            let args = match rng.below(4) {
                0 => None,
                1 => Some((gen_text_lits(rng, true, f), None)),
                _ => Some((gen_text_lits(rng, true, f), Some(rng.chance(1, 2)))),
            };
            Pat::Date(rng.chance(1, 2), args, gen_spec(rng))
        }
        14 | 15 => {
            let k: &str = *rng.pick(KEYS);
            let key = escaped_lits(rng, k);
            let d: &str = *rng.pick(&["none", "d", "n/a", "\u{4e2d}", "- -", "{}", "(d)", "\\"]);
            let dflt = if rng.chance(1, 2) { Some(escaped_lits(rng, d)) } else { None };
            Pat::Mdc(rng.chance(1, 2), key, dflt, gen_spec(rng))
        }
        _ => {
            let k = *rng.pick(&['a', 'a', 'h', 'h', 'd', 'r']);
            let body = if depth == 0 { vec![Pat::Lit(Lit { c: 'x', esc: Esc::P })] } else { gen_pats(rng, depth - 1, true) };
            Pat::Group(k, rng.chance(1, 2), body, gen_spec(rng))
        }
    }
}

pub fn gen_pats(rng: &mut Rng, depth: u32, in_arg: bool) -> Vec<Pat> {
    let n = if in_arg { rng.range(0, 4) } else { rng.range(1, 7) };
    (0..n).map(|_| gen_pat(rng, depth, in_arg)).collect()
}

pub fn case_line(ps: &[Pat], rec: &Case) -> String {
    let mut pattern = String::new();
    show(ps, &mut pattern);
    let mut toks = vec![];
    tokens(ps, &mut toks);
    let mut rec = rec.clone();
    rec.pattern = pattern;
    format!("{}\t{}", enc_list(",", &toks), rec.line())
}

fn lit(c: char, esc: Esc) -> Pat {
    Pat::Lit(Lit { c, esc })
}

fn leaf(name: &str) -> Pat {
    for (i, l) in LEAVES.iter().enumerate() {
        if l.1 == name {
            return Pat::Leaf(i, false, None);
        }
        if l.2 == name {
            return Pat::Leaf(i, true, None);
        }
    }
    unreachable!()
}

fn spec(fill: Option<char>, align: Option<bool>, min: Option<&str>, max: Option<&str>) -> Option<Spec> {
    Some(Spec { fill, align, min: min.map(|s| s.to_owned()), max: max.map(|s| s.to_owned()) })
}

pub fn gen(rng: &mut Rng, n: usize, thorough: bool, emit: &mut dyn FnMut(String)) {
    let base = Case::simple("");
    let mut full = Case::simple("");
    full.file = Some("src/m\u{e9}.rs".into());
    full.thread = Some("w\u{f6}rker".into());
    full.mdc = vec![("k".into(), "v\u{4e2d}".into()), ("user_id".into(), "42".into())];
    for c in SPECIALS {
        full.mdc.push((format!("k{}", c), format!("value-of-{}", c)));
    }
    let mut bare = Case::simple("");
    bare.module = None;
    bare.file = None;
    bare.line = None;
    // 1. every formatter and alias, bare and under a few specs, on three records and every level
    let specs = [
        None,
        spec(None, None, Some("8"), None),
        spec(None, Some(true), Some("8"), None),
        spec(Some('*'), Some(false), Some("6"), Some("6")),
        spec(None, None, None, Some("2")),
        spec(Some('}'), Some(true), Some("5"), Some("9")),
        spec(Some('\u{1f600}'), Some(true), Some("04"), None),
    ];
    for (k, _) in LEAVES.iter().enumerate() {
        for long in [false, true] {
            for sp in specs.iter() {
                for rec in [&base, &full, &bare] {
                    let p = vec![lit('[', Esc::P), Pat::Leaf(k, long, sp.clone()), lit(']', Esc::P)];
                    emit(case_line(&p, rec));
                }
            }
        }
    }
    for level in 1..=5u8 {
        let mut r = full.clone();
        r.level = level;
        for long in [false, true] {
            for k in ['h', 'a', 'd', 'r'] {
                let body = vec![leaf("l"), lit(' ', Esc::P), leaf("m")];
                for sp in specs.iter() {
                    emit(case_line(&[lit('<', Esc::P), Pat::Group(k, long, body.clone(), sp.clone()), lit('>', Esc::P)], &r));
                }
            }
        }
    }
    // 2. every special character in both escape styles: top level, inside an argument, adjacent
    //    to formatters and to each other
    for &c in SPECIALS {
        for esc in [Esc::D, Esc::B] {
            let l = lit(c, esc);
            emit(case_line(&[l.clone()], &base));
            emit(case_line(&[leaf("m"), l.clone(), leaf("l")], &base));
            emit(case_line(&[l.clone(), leaf("m"), l.clone(), l.clone()], &base));
            emit(case_line(&[lit('a', Esc::P), l.clone(), lit('b', Esc::P)], &base));
            for &c2 in SPECIALS {
                for esc2 in [Esc::D, Esc::B] {
                    emit(case_line(&[l.clone(), lit(c2, esc2)], &base));
                    emit(case_line(&[Pat::Group('a', false, vec![l.clone(), lit(c2, esc2), leaf("m")], None)], &base));
                }
            }
            // inside an argument (`))` is F6: the driver's spec decides)
            emit(case_line(&[Pat::Group('a', false, vec![lit('a', Esc::P), l.clone(), lit('b', Esc::P)], None)], &base));
            emit(case_line(&[Pat::Group('h', false, vec![l.clone(), leaf("m"), l.clone()], spec(None, Some(true), Some("9"), None))], &base));
            emit(case_line(&[Pat::Date(false, Some((vec![Lit { c, esc }, Lit { c: '%', esc: Esc::P }, Lit { c: 'Y', esc: Esc::P }, Lit { c, esc }], None)), None)], &base));
            emit(case_line(&[Pat::Mdc(false, vec![Lit { c: 'k', esc: Esc::P }, Lit { c, esc }], None, None)], &full));
            emit(case_line(&[Pat::Mdc(false, plain_lits("zz"), Some(vec![Lit { c: 'd', esc: Esc::P }, Lit { c, esc }]), None)], &full));
        }
    }
    // 3. nesting depth 1..=6 of every group kind
    for depth in 1..=6 {
        for kinds in [['a', 'h'], ['h', 'd'], ['d', 'a'], ['r', 'h']] {
            let mut p = vec![leaf("l"), lit('-', Esc::P), leaf("message")];
            for d in 0..depth {
                let k = kinds[d % 2];
                let sp = if d % 2 == 0 { spec(None, Some(d % 4 == 0), Some("12"), Some("30")) } else { None };
                p = vec![lit('(', Esc::D), Pat::Group(k, d % 3 == 0, p, sp), lit(')', Esc::B)];
            }
            emit(case_line(&p, &full));
        }
    }
    // 3a. the nesting limit of the parser (`MAX_DEPTH = 64` open parenthesised arguments, commit
    //     c25fac2): depths 63, 64 (inside the limit: the full meaning), 65, 66 (beyond: everything
    //     before the formatter that goes too deep, then the error marker, nothing after). Every
    //     kind of argument counts: group bodies, date format / zone arguments, MDC key / default.
    for depth in [63usize, 64, 65, 66] {
        let wrap = |inner: Vec<Pat>, levels: usize, kinds: [char; 2], specs: bool| -> Pat {
            let mut p = inner;
            for d in 0..levels {
                let k = kinds[d % 2];
                let sp = if specs && d % 7 == 3 { spec(None, Some(d % 2 == 0), Some("2"), Some("40")) } else { None };
                p = vec![Pat::Group(k, d % 5 == 0, p, sp)];
            }
            p.pop().unwrap()
        };
        for (kinds, specs) in [(['a', 'a'], false), (['a', 'h'], true), (['h', 'd'], false), (['d', 'a'], true)] {
            // groups only, around `{m}`
            let g = wrap(vec![leaf("m")], depth, kinds, specs);
            emit(case_line(&[lit('[', Esc::P), leaf("l"), lit(' ', Esc::P), g.clone(), lit(']', Esc::P), lit(' ', Esc::P), leaf("t")], &full));
            // the last level is an MDC key / a date format argument
            let x = wrap(vec![Pat::Mdc(false, plain_lits("k"), None, None), leaf("m")], depth - 1, kinds, specs);
            emit(case_line(&[leaf("l"), lit('-', Esc::P), x, lit('.', Esc::P)], &full));
            let dt = wrap(vec![Pat::Date(false, Some((plain_lits("%Y"), Some(true))), None)], depth - 1, kinds, specs);
            emit(case_line(&[lit('<', Esc::P), dt, lit('>', Esc::P), leaf("m")], &base));
            // a flat tail after the deep part, and a shallow group before it
            let f = wrap(vec![lit('x', Esc::P)], depth, kinds, specs);
            emit(case_line(&[Pat::Group('h', false, vec![leaf("l")], None), lit('[', Esc::P), f, lit(']', Esc::P), lit(' ', Esc::P), leaf("l"), lit(' ', Esc::P), leaf("m")], &base));
        }
    }
    // 3c. an explicitly EMPTY MDC default / the empty MDC key (finding C09/mdc-empty-argument, repaired):
    //     `{X(k)()}` is the value or the empty string, `{X()}` looks up the key ""
    for long in [false, true] {
        for sp in [None, spec(None, Some(true), Some("4"), None)] {
            let mut with_empty = full.clone();
            with_empty.mdc.push(("".into(), "value-of-the-empty-key".into()));
            let e = || Some(Vec::<Lit>::new());
            emit(case_line(&[lit('[', Esc::P), Pat::Mdc(long, plain_lits("nokey"), e(), sp.clone()), lit(']', Esc::P)], &full));
            emit(case_line(&[lit('[', Esc::P), Pat::Mdc(long, plain_lits("k"), e(), sp.clone()), lit(']', Esc::P), leaf("m")], &full));
            emit(case_line(&[leaf("l"), Pat::Mdc(long, vec![], None, sp.clone()), lit('|', Esc::P)], &with_empty));
            emit(case_line(&[leaf("l"), Pat::Mdc(long, vec![], None, sp.clone()), lit('|', Esc::P)], &full));
            emit(case_line(&[Pat::Mdc(long, vec![], Some(plain_lits("dflt")), sp.clone()), lit('|', Esc::P), Pat::Mdc(long, vec![], e(), None)], &full));
            emit(case_line(&[Pat::Group('h', false, vec![Pat::Mdc(long, plain_lits("nokey"), e(), None), leaf("m")], sp.clone())], &with_empty));
        }
    }
    // 3b. `)` inside arguments in both escape styles: in the middle, last before the closer, runs
    //     of 1..=5, in every kind of argument (group body, date format, MDC key and default)
    for run in 1..=5usize {
        for style in 0..3 {
            let lits: Vec<Lit> = (0..run)
                .map(|i| Lit { c: ')', esc: match style { 0 => Esc::D, 1 => Esc::B, _ => if i % 2 == 0 { Esc::D } else { Esc::B } } })
                .collect();
            let pats: Vec<Pat> = lits.iter().cloned().map(Pat::Lit).collect();
            for pos in 0..3 {
                // 0: run last before the closer, 1: run in the middle, 2: run first
                let mut body = vec![];
                if pos != 2 {
                    body.push(lit('a', Esc::P));
                }
                body.extend(pats.iter().cloned());
                if pos != 0 {
                    body.push(leaf("m"));
                }
                for k in ['a', 'h'] {
                    emit(case_line(&[lit('<', Esc::P), Pat::Group(k, false, body.clone(), None), lit('>', Esc::P)], &full));
                    emit(case_line(&[Pat::Group(k, true, vec![Pat::Group('a', false, body.clone(), spec(None, Some(true), Some("9"), None))], None)], &full));
                }
                let mut txt: Vec<Lit> = vec![];
                if pos != 2 {
                    txt.push(Lit { c: 'k', esc: Esc::P });
                }
                txt.extend(lits.iter().cloned());
                if pos != 0 {
                    txt.push(Lit { c: 'z', esc: Esc::P });
                }
                let mut rec = full.clone();
                let key: String = txt.iter().map(|l| l.c).collect();
                rec.mdc.retain(|kv| kv.0 != key);
                rec.mdc.push((key, "hit".into()));
                emit(case_line(&[Pat::Mdc(false, txt.clone(), None, None)], &rec));
                emit(case_line(&[Pat::Mdc(true, plain_lits("nokey"), Some(txt.clone()), None)], &rec));
                emit(case_line(&[Pat::Date(false, Some((txt.clone(), Some(true))), None)], &base));
            }
        }
    }
    // 4. MDC hit / miss / default, date with and without zone
    for key in KEYS {
        for dflt in [None, Some("dflt"), Some("\u{4e2d} x"), Some("{(\\)}")] {
            for long in [false, true] {
                let k = escaped_lits(rng, key);
                let d = dflt.map(|d| escaped_lits(rng, d));
                emit(case_line(&[Pat::Mdc(long, k.clone(), d.clone(), None)], &full));
                emit(case_line(&[Pat::Mdc(long, k, d, spec(None, Some(true), Some("7"), None))], &base));
            }
        }
    }
    for f in DATE_FMTS {
        for z in [None, Some(true), Some(false)] {
            for long in [false, true] {
                emit(case_line(&[lit('[', Esc::P), Pat::Date(long, Some((plain_lits(f), z)), None), lit(']', Esc::P)], &base));
            }
        }
        emit(case_line(&[Pat::Date(false, Some((plain_lits(f), None)), spec(Some('.'), Some(true), Some("25"), None))], &base));
    }
    emit(case_line(&[Pat::Date(false, None, None)], &base));
    emit(case_line(&[Pat::Date(true, None, spec(None, None, Some("40"), None))], &base));
    // 4b. the SAME format text under (utc), (local) and without a zone argument in one pattern
    //     (one encode, one thread, one second): each date formatter renders its own zone
    for f in ZONE_FMTS {
        let d = |z: Option<bool>, long: bool| Pat::Date(long, Some((plain_lits(f), z)), None);
        let sep = || lit('|', Esc::P);
        emit(case_line(&[d(Some(true), false), sep(), d(Some(false), false)], &base));
        emit(case_line(&[d(Some(false), true), sep(), d(Some(true), false), sep(), d(None, false)], &base));
        emit(case_line(&[d(None, false), sep(), d(Some(true), true), sep(), d(Some(true), false), sep(), d(Some(false), false)], &full));
        emit(case_line(&[Pat::Group('h', false, vec![d(Some(true), false)], None), Pat::Group('a', false, vec![d(Some(false), false)], spec(None, Some(true), Some("30"), None))], &full));
    }
    // 4b2. every instant of the executor's clock table (`c11::INSTANTS`: nanoseconds 123456789 / 5 /
    //      0, one second before local and before UTC midnight, year end in either zone, leap day,
    //      before 1970) under the default `{d}` and the sub-second / zone / calendar formats. The
    //      executor picks the instant by a hash of pattern and message: the message is searched.
    {
        let fmts: &[Option<&str>] = &[
            None, Some("%+"), Some("%f"), Some("%.f"), Some("%.3f"), Some("%.6f"), Some("%.9f"), Some("%3f"), Some("%6f"), Some("%9f"),
            Some("%Y-%m-%d %H:%M:%S%.f %:z"), Some("%s"), Some("%j %U %a %e %b %y"), Some("%D %T %z"), Some("%I:%M %p %Z"),
        ];
        for f in fmts {
            let zones: &[Option<bool>] = if f.is_some() { &[None, Some(true), Some(false)] } else { &[None] };
            for z in zones {
                let ps = vec![lit('[', Esc::P), Pat::Date(false, f.map(|f| (plain_lits(f), *z)), None), lit(']', Esc::P), leaf("m")];
                let mut pattern = String::new();
                show(&ps, &mut pattern);
                for idx in 0..c11::INSTANTS.len() {
                    let mut rec = base.clone();
                    rec.message = (0..10_000).map(|j| format!("t{}", j)).find(|m| c11::instant_index(&pattern, m) == idx).unwrap_or_default();
                    emit(case_line(&ps, &rec));
                }
            }
        }
    }
    // 4b3. long fields: message, target, module, file and an MDC value of 600, 1025 and 5000 bytes,
    //      whole, truncated (`:.700`), padded, inside groups (the executor's bound on widths is 4096)
    for size in [600usize, 1025, 5000] {
        let text = |tag: &str| -> String {
            let mut t = String::new();
            let mut i = 0;
            while t.len() < size {
                t.push_str(&format!("{}{}.", tag, i));
                i += 1;
            }
            t.truncate(size);
            t
        };
        let mut rec = full.clone();
        rec.message = text("m");
        rec.target = text("t");
        rec.module = Some(text("M"));
        rec.file = Some(text("f"));
        rec.mdc[0].1 = text("x");
        let mut uni = full.clone();
        uni.message = "\u{e9}\u{4e2d}".repeat(size / 5);
        let x = |sp: Option<Spec>| Pat::Mdc(false, plain_lits("k"), None, sp);
        let lf = |n: &str, sp: Option<Spec>| match leaf(n) {
            Pat::Leaf(k, long, _) => Pat::Leaf(k, long, sp),
            p => p,
        };
        for sp in [None, spec(None, None, None, Some("700")), spec(Some('*'), Some(true), Some("4000"), Some("4090")), spec(None, Some(false), Some("700"), Some("700"))] {
            emit(case_line(&[lit('[', Esc::P), lf("m", sp.clone()), lit(']', Esc::P)], &rec));
            emit(case_line(&[lit('[', Esc::P), lf("t", sp.clone()), lit(']', Esc::P)], &rec));
            emit(case_line(&[lit('[', Esc::P), x(sp.clone()), lit(']', Esc::P)], &rec));
            emit(case_line(&[lf("M", sp.clone()), lit('|', Esc::P), lf("f", sp.clone())], &rec));
            emit(case_line(&[Pat::Group('a', false, vec![lf("m", None), lit('|', Esc::P), lf("t", None), x(None)], sp.clone())], &rec));
            emit(case_line(&[Pat::Group('h', false, vec![lf("l", None), lit(' ', Esc::P), lf("m", sp.clone())], None), lf("n", None)], &rec));
            emit(case_line(&[lf("m", sp.clone())], &uni));
        }
    }
    // 4c. fork family: the pid formatter in a process that forked after its first encode
    for long in [false, true] {
        let mut main = base.clone();
        main.thread = Some("main".into());
        let p = Pat::Leaf(7, long, None); // pid
        emit(format!("{}\tfork", case_line(&[p.clone()], &main)));
        emit(format!("{}\tfork", case_line(&[lit('[', Esc::P), p.clone(), lit(']', Esc::P), leaf("m")], &main)));
        emit(format!("{}\tfork", case_line(&[Pat::Group('h', false, vec![Pat::Leaf(7, long, spec(None, Some(true), Some("9"), None))], None), leaf("l")], &main)));
    }
    // 5. {thread_id} (F5, repaired): the alias next to text and under a spec
    emit(case_line(&[Pat::Leaf(THREAD_ID, true, None)], &base));
    emit(case_line(&[lit('a', Esc::P), Pat::Leaf(THREAD_ID, true, None), lit('b', Esc::P)], &base));
    // ---- ITEM 3 families (begin) ----------------------------------------------------------------
    gen_nodebug_block(&full, &base, emit);
    gen_threads_block(rng, &full, thorough, emit);
    gen_tz_block(&full, &base, thorough, emit);
    // ---- ITEM 3 families (end) ------------------------------------------------------------------
    // 6. random trees
    let depth = if thorough { 5 } else { 4 };
    for i in 0..n {
        let mut ps = gen_pats(rng, depth, false);
        if i % 50 == 0 {
            ps.push(Pat::Leaf(THREAD_ID, true, None));
        }
        if i % 50 == 1 {
            ps.push(Pat::Group('a', false, vec![lit(')', Esc::D), leaf("m"), lit(')', Esc::D), lit(')', Esc::D)], None));
        }
        if i % 50 == 2 {
            ps.push(Pat::Mdc(false, vec![Lit { c: 'k', esc: Esc::P }, Lit { c: '{', esc: Esc::D }], None, None));
        }
        let mut rec = c11::random_record(rng, "");
        for k in KEYS {
            if rng.chance(1, 3) {
                rec.mdc.push(((*k).to_owned(), (*rng.pick(c11::TEXTS)).to_owned()));
            }
        }
        let mut seen: Vec<String> = vec![];
        rec.mdc.retain(|kv| {
            if seen.contains(&kv.0) {
                false
            } else {
                seen.push(kv.0.clone());
                true
            }
        });
        // nodebug family: ~5 % of the trees with a D/R group run in the build without debug assertions
        if i % 20 == 7 && has_profile_group(&ps) {
            emit(format!("{}\t@nodebug", case_line(&ps, &rec)));
            continue;
        }
        emit(case_line(&ps, &rec));
    }
}

pub fn exec(fields: &[&str]) -> String {
    // ---- ITEM 3 families (begin) ----------------------------------------------------------------
    // nodebug family: a trailing `@nodebug` only routes the case (./check hands it to the binary built
    // without debug assertions); the observation's debug-profile fact says which binary really ran it
    let fields: &[&str] = if fields.last() == Some(&"@nodebug") { &fields[..fields.len() - 1] } else { fields };
    if fields.len() == 14 && fields[10] == "threads" {
        return exec_threads(fields);
    }
    if fields.len() == 11 && fields[10].starts_with("tz:") {
        return exec_tz(fields);
    }
    if fields.len() == 11 && fields[10].starts_with("tzrun:") {
        return run_tz(fields);
    }
    // ---- ITEM 3 families (end) ------------------------------------------------------------------
    if fields.len() == 11 && fields[10] == "fork" {
        return c11::exec_fork(&fields[1..10]);
    }
    if fields.len() != 10 {
        return "bad-case".to_owned();
    }
    c11::exec(&fields[1..])
}

// ================================================================================================
// ITEM 3 families (reviewer blind spots M2 / M6 / M4): `threads`, `tz-change`, `nodebug`
//
// threads   case = ordinary ten fields (the record and environment of the process's MAIN thread, thread name
//           `main`) + `threads` + names(`,`; `-` unnamed) + messages(`,`) + MDCs (`|` between threads, each `k;v,…`)
//           ONE encoder behind an Arc; main thread + k >= 2 spawned threads, all alive from the first encode
//           to the last; two rounds, in each round main, t1, t2, … encode one after the other (turn counter)
//           observation: `threads <debug> <pid> <k+1>` then per participant (main first) `name? tid ops ops`
// tz-change case = ordinary ten fields + `tz:<zone 1>:<zone 2>:<t|s>` (zones as protocol strings); run in a CHILD
//           process (this binary, `exec C09`, marker `tzrun:…`): TZ=zone 1, construct, encode; TZ=zone 2, encode
//           again with the same encoder — `t`: on a fresh thread (chrono's `Local` caches the zone per thread and
//           re-reads TZ at most once a second), `s`: on the same thread after sleeping 1.1 s
//           observation: `tz <debug> <pid>` then per encode `tid offset(%z of Local::now(), taken by the harness right
//           after the encode) ops dates(fmt;utc;text,…)`
// nodebug   any case + trailing `@nodebug`: executed by the alt build without debug assertions (props.d/C09.json)
// ================================================================================================
use crate::c11::{Cap, Item};
use log4rs::encode::{pattern::PatternEncoder, Encode};
use std::panic::AssertUnwindSafe;
use std::sync::{Arc, Barrier, Condvar, Mutex};

fn has_profile_group(ps: &[Pat]) -> bool {
    ps.iter().any(|p| match p {
        Pat::Group(k, _, body, _) => *k == 'd' || *k == 'r' || has_profile_group(body),
        _ => false,
    })
}

fn strip_dates(ps: Vec<Pat>) -> Vec<Pat> {
    ps.into_iter()
        .map(|p| match p {
            Pat::Date(..) => lit('d', Esc::P),
            Pat::Group(k, l, body, sp) => Pat::Group(k, l, strip_dates(body), sp),
            p => p,
        })
        .collect()
}

fn leaf_k(k: usize, long: bool) -> Pat {
    Pat::Leaf(k, long, None)
}

fn gen_nodebug_block(full: &Case, base: &Case, emit: &mut dyn FnMut(String)) {
    let sp = || lit(' ', Esc::P);
    let lm = || vec![leaf("l"), sp(), leaf("m")];
    let mut err = full.clone();
    err.level = 1;
    for long in [false, true] {
        let r = |body: Vec<Pat>, s: Option<Spec>| Pat::Group('r', long, body, s);
        let d = |body: Vec<Pat>, s: Option<Spec>| Pat::Group('d', long, body, s);
        let h = |body: Vec<Pat>| Pat::Group('h', long, body, None);
        let pats: Vec<Vec<Pat>> = vec![
            // several children, in order
            vec![r(lm(), None), d(lm(), None)],
            vec![d(lm(), None), r(lm(), None)],
            vec![
                lit('<', Esc::P),
                r(vec![leaf("l"), lit('-', Esc::P), leaf("m"), lit('-', Esc::P), leaf("t")], None),
                lit('|', Esc::P),
                d(vec![leaf("t"), lit('-', Esc::P), leaf("m"), lit('-', Esc::P), leaf("l")], None),
                lit('>', Esc::P),
            ],
            vec![r(vec![lit('1', Esc::P), lit('2', Esc::P), lit('3', Esc::P)], None), d(vec![lit('4', Esc::P), lit('5', Esc::P), lit('6', Esc::P)], None)],
            vec![r(vec![Pat::Mdc(false, plain_lits("k"), None, None), sp(), leaf("m"), sp(), leaf("T"), sp(), leaf("M")], None)],
            // nested in each other
            vec![r(vec![lit('a', Esc::P), r(lm(), None), lit('b', Esc::P), d(vec![lit('x', Esc::P), leaf("m")], None), lit('c', Esc::P)], None)],
            vec![d(vec![lit('a', Esc::P), r(lm(), None), lit('b', Esc::P), d(lm(), None), lit('c', Esc::P)], None)],
            vec![r(vec![r(vec![r(lm(), None), sp(), leaf("t")], None), sp(), leaf("M")], None), d(vec![d(vec![d(lm(), None), sp(), leaf("t")], None)], None)],
            vec![Pat::Group('a', false, vec![r(lm(), None), lit('/', Esc::P), d(lm(), None)], spec(Some('.'), Some(true), Some("24"), None))],
            // with specs
            vec![r(lm(), spec(None, Some(true), Some("12"), None)), lit('|', Esc::P), d(lm(), spec(None, Some(true), Some("12"), None))],
            vec![r(lm(), spec(None, None, None, Some("3"))), lit('|', Esc::P), d(lm(), spec(None, None, None, Some("3")))],
            vec![r(lm(), spec(Some('*'), Some(false), Some("10"), Some("10"))), d(lm(), spec(Some('*'), Some(false), Some("10"), Some("10")))],
            vec![r(vec![Pat::Leaf(0, false, spec(None, Some(true), Some("7"), None)), Pat::Leaf(1, true, spec(None, None, None, Some("2")))], spec(Some('_'), Some(false), Some("11"), None))],
            vec![r(vec![r(lm(), spec(None, Some(true), Some("9"), Some("9"))), leaf("m")], spec(None, None, None, Some("11"))), d(vec![], None)],
            // with highlight inside (and outside)
            vec![r(vec![h(vec![leaf("l")]), sp(), leaf("m")], None), d(vec![h(vec![leaf("l")]), sp(), leaf("m")], None)],
            vec![r(vec![h(lm())], None), d(vec![h(lm())], None)],
            vec![h(vec![r(lm(), None), lit('+', Esc::P), d(lm(), None)])],
            vec![r(vec![leaf("t"), h(vec![leaf("l"), r(vec![leaf("m"), sp(), leaf("t")], None)]), leaf("M")], spec(None, Some(true), Some("20"), None))],
            vec![d(vec![leaf("t"), h(vec![leaf("l"), d(vec![leaf("m"), sp(), leaf("t")], None)]), leaf("M")], spec(None, Some(true), Some("20"), None))],
        ];
        for p in &pats {
            for rec in [&err, base] {
                let line = case_line(p, rec);
                emit(line.clone());
                emit(format!("{}\t@nodebug", line));
            }
        }
    }
}

const THREAD_NAMES: &[Option<&str>] = &[Some("w\u{f6}rker"), Some("t-1"), Some("x y"), Some("pool-3"), Some("\u{4e2d}"), None];

fn threads_line(ps: &[Pat], main: &Case, others: &[(Option<String>, String, Vec<(String, String)>)]) -> String {
    let names: Vec<String> = others.iter().map(|o| enc_opt(o.0.as_ref(), |s| enc_str(s))).collect();
    let msgs: Vec<String> = others.iter().map(|o| enc_str(&o.1)).collect();
    let mdcs: Vec<String> = others
        .iter()
        .map(|o| {
            let kv: Vec<String> = o.2.iter().map(|(k, v)| format!("{};{}", enc_str(k), enc_str(v))).collect();
            enc_list(",", &kv)
        })
        .collect();
    format!("{}\tthreads\t{}\t{}\t{}", case_line(ps, main), enc_list(",", &names), enc_list(",", &msgs), mdcs.join("|"))
}

fn gen_threads_block(rng: &mut Rng, full: &Case, thorough: bool, emit: &mut dyn FnMut(String)) {
    let bar = || lit('|', Esc::P);
    // the formatters whose text belongs to the encoding thread: T I i P X(k) m
    let required = |rng: &mut Rng| -> Vec<Pat> {
        let mut v = vec![];
        for k in [5usize, THREAD_ID, 8, 7] {
            v.push(bar());
            v.push(leaf_k(k, rng.chance(1, 2)));
        }
        v.push(bar());
        v.push(Pat::Mdc(rng.chance(1, 2), plain_lits("k"), if rng.chance(1, 3) { Some(plain_lits("none")) } else { None }, None));
        v.push(bar());
        v.push(leaf_k(1, rng.chance(1, 2)));
        v
    };
    let n = if thorough { 600 } else { 120 };
    for i in 0..n {
        let mut ps = if i < 4 { vec![] } else { strip_dates(gen_pats(rng, 3, false)) };
        let req = required(rng);
        match i % 4 {
            0 => ps.extend(req),
            1 => ps.push(Pat::Group('a', false, req, spec(None, Some(i % 8 == 1), Some("90"), None))),
            2 => ps.push(Pat::Group(
                'a',
                true,
                vec![lit('<', Esc::P), Pat::Group('h', i % 8 == 2, req, spec(Some('.'), Some(false), Some("70"), Some("80"))), lit('>', Esc::P)],
                spec(None, Some(true), Some("85"), None),
            )),
            _ => {
                // both profile groups carry the same children: one of them is active in either build
                ps.push(Pat::Group('d', false, req.clone(), None));
                ps.push(Pat::Group('r', true, req, spec(None, None, Some("3"), None)));
            }
        }
        let mut main = if i < 4 { full.clone() } else { c11::random_record(rng, "") };
        main.thread = Some("main".into());
        main.message = format!("main says {}", *rng.pick(c11::TEXTS));
        let k = if i % 3 == 0 { 3 } else { 2 };
        let mut names: Vec<Option<&str>> = THREAD_NAMES.to_vec();
        rng.shuffle(&mut names);
        let own_mdc = |rng: &mut Rng, who: &str| -> Vec<(String, String)> {
            let mut m: Vec<(String, String)> = vec![];
            if rng.chance(3, 4) {
                m.push(("k".into(), format!("k-of-{}", who)));
            }
            for key in KEYS.iter().skip(1) {
                if rng.chance(1, 4) {
                    m.push(((*key).to_owned(), format!("{}@{}", *rng.pick(c11::TEXTS), who)));
                }
            }
            m
        };
        main.mdc = own_mdc(rng, "main");
        let others: Vec<(Option<String>, String, Vec<(String, String)>)> = (0..k)
            .map(|j| {
                let who = format!("t{}", j + 1);
                (names[j].map(|s| s.to_owned()), format!("{} says {}", who, *rng.pick(c11::TEXTS)), own_mdc(rng, &who))
            })
            .collect();
        let line = threads_line(&ps, &main, &others);
        if i % 16 == 3 {
            emit(format!("{}\t@nodebug", line));
        } else {
            emit(line);
        }
    }
}

const TZ_PAIRS: &[(&str, &str)] = &[("XST5:45", "YST-3"), ("UTC0", "XST5:45"), ("YST-3", "ZST12")];

fn tz_line(ps: &[Pat], rec: &Case, z1: &str, z2: &str, mode: char) -> String {
    format!("{}\ttz:{}:{}:{}", case_line(ps, rec), enc_str(z1), enc_str(z2), mode)
}

fn gen_tz_block(full: &Case, base: &Case, thorough: bool, emit: &mut dyn FnMut(String)) {
    let d = |f: &str, z: Option<bool>, long: bool, sp: Option<Spec>| Pat::Date(long, Some((plain_lits(f), z)), sp);
    let sp = || lit(' ', Esc::P);
    let pats: Vec<Vec<Pat>> = vec![
        vec![d("%z", None, false, None)],
        vec![d("%:z", None, false, None)],
        vec![d("%z", Some(true), false, None)],
        vec![d("%z", Some(false), true, None)],
        vec![lit('[', Esc::P), d("%z", None, false, None), lit('|', Esc::P), d("%z", Some(true), false, None), lit('|', Esc::P), d("%:z", Some(false), true, None), lit(']', Esc::P)],
        vec![Pat::Group('a', false, vec![d("%z", None, false, None)], spec(None, Some(true), Some("12"), None))],
        vec![Pat::Group('h', false, vec![leaf("l"), sp(), d("%:z", None, true, None)], None), sp(), leaf("m")],
        vec![Pat::Group('d', false, vec![d("%z", None, false, None)], None), Pat::Group('r', false, vec![d("%z", Some(false), false, None)], None)],
        vec![leaf("l"), sp(), d("%z", None, false, None), sp(), leaf("m"), sp(), leaf("T"), sp(), Pat::Mdc(false, plain_lits("k"), None, None)],
        vec![d("%z", None, false, spec(Some('.'), Some(true), Some("9"), None)), lit('|', Esc::P), d("%:z", Some(false), false, spec(None, None, None, Some("3")))],
        vec![d("UTC%z", None, false, None), sp(), d("off=%:z %%", Some(false), true, None), sp(), d("%:z", Some(true), true, None)],
        vec![Pat::Group('a', true, vec![Pat::Group('h', true, vec![d("%:z", Some(false), false, spec(None, Some(false), Some("8"), None))], None), leaf("m")], spec(Some('*'), Some(true), Some("20"), Some("20")))],
    ];
    for (pi, &(z1, z2)) in TZ_PAIRS.iter().enumerate() {
        for (i, p) in pats.iter().enumerate() {
            let rec = if i % 2 == 0 { base } else { full };
            emit(tz_line(p, rec, z1, z2, 't'));
        }
        // the same thread keeps logging across the change (1.1 s per case: one case, every pair when thorough)
        if pi == 0 || thorough {
            emit(tz_line(&pats[4], full, z1, z2, 's'));
        }
    }
    emit(format!("{}\t@nodebug", tz_line(&pats[7], full, "XST5:45", "YST-3", 't')));
}

fn level_of9(l: u8) -> log::Level {
    match l {
        1 => log::Level::Error,
        2 => log::Level::Warn,
        3 => log::Level::Info,
        4 => log::Level::Debug,
        _ => log::Level::Trace,
    }
}

/// the operation stream of one capture, rendered like `c11::render_items` (never masked)
fn render_cap(items: &[Item]) -> String {
    let mut out: Vec<String> = vec![];
    for it in items {
        match it {
            Item::Data(d) => {
                if d.is_empty() {
                    continue;
                }
                match std::str::from_utf8(d) {
                    Ok(s) => out.push(format!("T{}", enc_str(s))),
                    Err(_) => out.push(format!("BADUTF8{}", enc_bytes(d))),
                }
            }
            Item::Style(t, b, i) => out.push(format!(
                "S{}/{}/{}",
                enc_opt(*t, |x| x.to_string()),
                enc_opt(*b, |x| x.to_string()),
                enc_opt(*i, |x| enc_bool(x).to_owned())
            )),
        }
    }
    enc_list(",", &out)
}

/// one encode of the record of `c` with message `msg` on the calling thread: `ops` | `err` | `PANIC`
fn encode_ops(encoder: &PatternEncoder, c: &Case, msg: &str) -> String {
    let mut cap = Cap::default();
    let r = guarded(AssertUnwindSafe(|| {
        encoder
            .encode(
                &mut cap,
                &log::Record::builder()
                    .level(level_of9(c.level))
                    .target(&c.target)
                    .module_path(c.module.as_deref())
                    .file(c.file.as_deref())
                    .line(c.line)
                    .args(format_args!("{}", msg))
                    .build(),
            )
            .is_ok()
    }));
    match r {
        Ok(true) => render_cap(&cap.items),
        Ok(false) => "err".to_owned(),
        Err(_) => "PANIC".to_owned(),
    }
}

fn set_mdc(mdc: &[(String, String)]) {
    log_mdc::clear();
    for (k, v) in mdc {
        log_mdc::insert(k.clone(), v.clone());
    }
}

const THREAD_ROUNDS: usize = 2;

/// one participant of a `threads` case; runs on its own thread (participant 0: the process's main thread)
fn thread_participant(
    j: usize,
    p: usize,
    encoder: &PatternEncoder,
    c: &Case,
    msg: &str,
    mdc: &[(String, String)],
    start: &Barrier,
    turn: &(Mutex<usize>, Condvar),
    end: &Barrier,
) -> String {
    set_mdc(mdc);
    let name = std::thread::current().name().map(|s| s.to_owned());
    let tid = thread_id::get();
    // every participant is alive before the first encode …
    start.wait();
    let mut ops: Vec<String> = vec![];
    for r in 0..THREAD_ROUNDS {
        let slot = r * p + j;
        let mut t = turn.0.lock().unwrap_or_else(|e| e.into_inner());
        while *t != slot {
            t = turn.1.wait(t).unwrap_or_else(|e| e.into_inner());
        }
        ops.push(encode_ops(encoder, c, msg));
        *t += 1;
        turn.1.notify_all();
    }
    // … and until after the last one
    end.wait();
    log_mdc::clear();
    format!("{} {} {}", enc_opt(name.as_ref(), |s| enc_str(s)), tid, ops.join(" "))
}

fn exec_threads(fields: &[&str]) -> String {
    c11::process_init();
    let c = match Case::parse(&fields[1..10]) {
        Some(c) => c,
        None => return "bad-case".to_owned(),
    };
    let names = dec_list(',', fields[11]);
    let msgs = dec_list(',', fields[12]);
    let mdcs: Vec<&str> = fields[13].split('|').collect();
    let k = names.len();
    if !(2..=8).contains(&k) || msgs.len() != k || mdcs.len() != k {
        return "bad-case".to_owned();
    }
    let mut others: Vec<(Option<String>, String, Vec<(String, String)>)> = vec![];
    for j in 0..k {
        let name = if names[j] == "-" {
            None
        } else {
            match dec_str(&names[j]) {
                Some(n) if !n.contains('\0') => Some(n),
                _ => return "bad-case".to_owned(),
            }
        };
        let msg = match dec_str(&msgs[j]) {
            Some(m) => m,
            None => return "bad-case".to_owned(),
        };
        let mut mdc = vec![];
        for kv in dec_list(',', mdcs[j]) {
            match kv.split_once(';').and_then(|(a, b)| Some((dec_str(a)?, dec_str(b)?))) {
                Some(e) => mdc.push(e),
                None => return "bad-case".to_owned(),
            }
        }
        others.push((name, msg, mdc));
    }
    let debug = cfg!(debug_assertions);
    let pid = std::process::id();
    let encoder = match guarded(AssertUnwindSafe(|| PatternEncoder::new(&c.pattern))) {
        Ok(e) => Arc::new(e),
        Err(_) => return format!("threads {} {} PANIC:new", enc_bool(debug), pid),
    };
    let p = k + 1;
    let start = Arc::new(Barrier::new(p));
    let end = Arc::new(Barrier::new(p));
    let turn = Arc::new((Mutex::new(0usize), Condvar::new()));
    let c = Arc::new(c);
    let mut handles = vec![];
    for (j, (name, msg, mdc)) in others.into_iter().enumerate() {
        let (encoder, c, start, end, turn) = (encoder.clone(), c.clone(), start.clone(), end.clone(), turn.clone());
        let b = std::thread::Builder::new();
        let b = match name {
            Some(n) => b.name(n),
            None => b,
        };
        match b.spawn(move || thread_participant(j + 1, p, &encoder, &c, &msg, &mdc, &start, &turn, &end)) {
            Ok(h) => handles.push(h),
            // the barriers would never open: nothing sensible is left to do in this process
            Err(_) => std::process::exit(3),
        }
    }
    let mine = thread_participant(0, p, &encoder, &c, &c.message, &c.mdc, &start, &turn, &end);
    let mut out = format!("threads {} {} {} {}", enc_bool(debug), pid, p, mine);
    for h in handles {
        out.push(' ');
        out.push_str(&h.join().unwrap_or_else(|_| "- 0 PANIC PANIC".to_owned()));
    }
    out
}

/// parent side of a `tz-change` case: the zone is process-global, the case runs in a child process
fn exec_tz(fields: &[&str]) -> String {
    use std::io::Write as _;
    use std::process::{Command, Stdio};
    let marker = fields[10].replacen("tz:", "tzrun:", 1);
    let line = format!("C09\t{}\t{}\n", fields[..10].join("\t"), marker);
    let exe = match std::env::current_exe() {
        Ok(e) => e,
        Err(_) => return "bad-case".to_owned(),
    };
    let mut child = match Command::new(exe).args(["exec", "C09"]).stdin(Stdio::piped()).stdout(Stdio::piped()).stderr(Stdio::null()).spawn() {
        Ok(c) => c,
        Err(_) => return "bad-case".to_owned(),
    };
    if let Some(mut stdin) = child.stdin.take() {
        let _ = stdin.write_all(line.as_bytes());
    }
    let out = match child.wait_with_output() {
        Ok(o) => o,
        Err(_) => return "bad-case".to_owned(),
    };
    let text = String::from_utf8_lossy(&out.stdout);
    let first = text.lines().next().unwrap_or("");
    if !out.status.success() || first.is_empty() {
        return format!("tz ABORT:rc{}", out.status.code().unwrap_or(-1));
    }
    first.to_owned()
}

/// child side of a `tz-change` case (the only case this process runs)
fn run_tz(fields: &[&str]) -> String {
    let parts: Vec<&str> = fields[10].split(':').collect();
    if parts.len() != 4 || !(parts[3] == "t" || parts[3] == "s") {
        return "bad-case".to_owned();
    }
    let (z1, z2) = match (dec_str(parts[1]), dec_str(parts[2])) {
        (Some(a), Some(b)) if !a.contains('\0') && !b.contains('\0') && !a.is_empty() && !b.is_empty() => (a, b),
        _ => return "bad-case".to_owned(),
    };
    let c = match Case::parse(&fields[1..10]) {
        Some(c) => c,
        None => return "bad-case".to_owned(),
    };
    // zone 1 is in force before the first `Local` call of this process (no `process_init`: it sets the harness zone)
    std::env::set_var("TZ", &z1);
    let debug = cfg!(debug_assertions);
    let pid = std::process::id();
    let encoder = match guarded(AssertUnwindSafe(|| PatternEncoder::new(&c.pattern))) {
        Ok(e) => e,
        Err(_) => return format!("tz {} {} PANIC:new", enc_bool(debug), pid),
    };
    let fmts = c11::date_formats(&c.pattern);
    // one encode and, right after it on the same thread, what chrono says the local offset and the date texts are
    let one = || -> String {
        set_mdc(&c.mdc);
        let ops = encode_ops(&encoder, &c, &c.message);
        let off = guarded(|| chrono::Local::now().format("%z").to_string()).unwrap_or_else(|_| "PANIC".to_owned());
        let mut ds: Vec<String> = vec![];
        for f in &fmts {
            for utc in [false, true] {
                let t = guarded(AssertUnwindSafe(|| {
                    if utc {
                        chrono::Utc::now().format(f).to_string()
                    } else {
                        chrono::Local::now().format(f).to_string()
                    }
                }))
                .unwrap_or_else(|_| "PANIC".to_owned());
                ds.push(format!("{};{};{}", enc_str(f), enc_bool(utc), enc_str(&t)));
            }
        }
        log_mdc::clear();
        format!("{} {} {} {}", thread_id::get(), off, ops, enc_list(",", &ds))
    };
    let named = || {
        let b = std::thread::Builder::new();
        match &c.thread {
            Some(n) => b.name(n.clone()),
            None => b,
        }
    };
    let same_thread = parts[3] == "s";
    let res = std::thread::scope(|s| -> Option<(String, String)> {
        if same_thread {
            let h = named()
                .spawn_scoped(s, || {
                    let a = one();
                    std::env::set_var("TZ", &z2);
                    std::thread::sleep(std::time::Duration::from_millis(1100));
                    (a, one())
                })
                .ok()?;
            h.join().ok()
        } else {
            let a = named().spawn_scoped(s, &one).ok()?.join().ok()?;
            std::env::set_var("TZ", &z2);
            let b = named().spawn_scoped(s, &one).ok()?.join().ok()?;
            Some((a, b))
        }
    });
    std::env::set_var("TZ", c11::HARNESS_TZ);
    match res {
        Some((a, b)) => format!("tz {} {} {} {}", enc_bool(debug), pid, a, b),
        None => "bad-case".to_owned(),
    }
}
