//! C05 — rolling appender never loses, duplicates, reorders or splits records.
//! Real code: `RollingFileAppender` + `CompoundPolicy` with the real size / on-start-up / time
//! triggers (clock hook) or a harness-defined scripted trigger, and the real delete / fixed-window
//! rollers. This module is also the shared executor and generator for C06 and C17 (same case format).
use crate::c04::{gen_bytes, parse_fail_rec, random_sizes, read_from_other_thread, set_amplifier, RecSpec, Scratch, ScriptEncoder};
use crate::proto::*;
use crate::rng::Rng;
use log4rs::append::rolling_file::policy::compound::roll::delete::DeleteRoller;
use log4rs::append::rolling_file::policy::compound::roll::fixed_window::FixedWindowRoller;
use log4rs::append::rolling_file::policy::compound::roll::Roll;
use log4rs::append::rolling_file::policy::compound::trigger::onstartup::OnStartUpTrigger;
use log4rs::append::rolling_file::policy::compound::trigger::size::SizeTrigger;
use log4rs::append::rolling_file::policy::compound::trigger::time::{TimeTrigger, TimeTriggerInterval};
use log4rs::append::rolling_file::policy::compound::trigger::Trigger;
use log4rs::append::rolling_file::policy::compound::CompoundPolicy;
use log4rs::append::rolling_file::policy::Policy;
use log4rs::append::rolling_file::{LogFile, RollingFileAppender};
use std::collections::VecDeque;
use std::io::{Read, Write};
use std::path::{Path, PathBuf};
use std::sync::atomic::{AtomicBool, AtomicI64, AtomicU64, Ordering};
use std::sync::{Arc, Barrier, Mutex};

#[derive(Clone, Debug)]
pub enum TrigSpec {
    Size(u64),
    Startup(u64),
    Time { unit: char, n: u64, modulate: bool },
    Scripted { pre: bool, answers: String },
}

#[derive(Clone, Debug)]
pub enum RollSpec {
    Delete,
    Fw { base: u32, count: u32, pat: u32 },
}

#[derive(Clone, Debug)]
pub struct Case {
    pub append: bool,
    pub pre_active: Option<u64>,
    pub pre_arch: Vec<(u32, u64)>,
    pub trig: TrigSpec,
    pub roll: RollSpec,
    pub clock0: i64,
}

pub fn pattern(pat: u32) -> &'static str {
    match pat {
        0 => "app.log.{}",
        1 => "arch/app.{}.log",
        2 => "app.log.{}.gz",
        3 => "arch/{}/app.log.zst",
        _ => "app.{}.{}.log",
    }
}

impl TrigSpec {
    pub fn parse(s: &str) -> Option<TrigSpec> {
        let f: Vec<&str> = s.split(':').collect();
        match f.as_slice() {
            ["size", n] => Some(TrigSpec::Size(n.parse().ok()?)),
            ["startup", m] => Some(TrigSpec::Startup(m.parse().ok()?)),
            ["time", u, n, m] => Some(TrigSpec::Time {
                unit: match *u {
                    "s" => 's',
                    "m" => 'm',
                    _ => return None,
                },
                n: n.parse().ok()?,
                modulate: match *m {
                    "1" => true,
                    "0" => false,
                    _ => return None,
                },
            }),
            ["spre", a] | ["spost", a] => {
                let answers = if *a == "-" { String::new() } else { a.to_string() };
                if !answers.chars().all(|c| "yne".contains(c)) {
                    return None;
                }
                Some(TrigSpec::Scripted { pre: f[0] == "spre", answers })
            }
            _ => None,
        }
    }
    pub fn render(&self) -> String {
        match self {
            TrigSpec::Size(n) => format!("size:{}", n),
            TrigSpec::Startup(m) => format!("startup:{}", m),
            TrigSpec::Time { unit, n, modulate } => format!("time:{}:{}:{}", unit, n, enc_bool(*modulate)),
            TrigSpec::Scripted { pre, answers } => {
                format!("{}:{}", if *pre { "spre" } else { "spost" }, if answers.is_empty() { "-" } else { answers })
            }
        }
    }
}

impl RollSpec {
    pub fn parse(s: &str) -> Option<RollSpec> {
        let f: Vec<&str> = s.split(':').collect();
        match f.as_slice() {
            ["delete"] => Some(RollSpec::Delete),
            ["fw", b, c, p] => {
                let pat: u32 = p.parse().ok()?;
                if pat > 4 {
                    return None;
                }
                Some(RollSpec::Fw { base: b.parse().ok()?, count: c.parse().ok()?, pat })
            }
            _ => None,
        }
    }
    pub fn render(&self) -> String {
        match self {
            RollSpec::Delete => "delete".to_owned(),
            RollSpec::Fw { base, count, pat } => format!("fw:{}:{}:{}", base, count, pat),
        }
    }
    pub fn has_hook(&self) -> bool {
        matches!(self, RollSpec::Fw { count, .. } if *count > 0)
    }
    fn pat(&self) -> u32 {
        match self {
            RollSpec::Delete => 0,
            RollSpec::Fw { pat, .. } => *pat,
        }
    }
}

impl Case {
    pub fn parse(f: &[&str]) -> Option<Case> {
        if f.len() != 6 {
            return None;
        }
        let append = match f[0] {
            "a" => true,
            "t" => false,
            _ => return None,
        };
        let pre_active = if f[1] == "-" { None } else { Some(f[1].parse().ok()?) };
        let mut pre_arch = vec![];
        for e in dec_list(',', f[2]) {
            let (i, n) = e.split_once(':')?;
            pre_arch.push((i.parse().ok()?, n.parse().ok()?));
        }
        Some(Case {
            append,
            pre_active,
            pre_arch,
            trig: TrigSpec::parse(f[3])?,
            roll: RollSpec::parse(f[4])?,
            clock0: f[5].parse().ok()?,
        })
    }
    pub fn render(&self) -> String {
        format!(
            "{}\t{}\t{}\t{}\t{}\t{}",
            if self.append { "a" } else { "t" },
            enc_opt(self.pre_active, |n| n.to_string()),
            enc_list(",", &self.pre_arch.iter().map(|(i, n)| format!("{}:{}", i, n)).collect::<Vec<_>>()),
            self.trig.render(),
            self.roll.render(),
            self.clock0
        )
    }
}

fn compress_for(name: &str, data: &[u8]) -> Vec<u8> {
    if name.ends_with(".gz") {
        let mut e = flate2::write::GzEncoder::new(Vec::new(), flate2::Compression::default());
        e.write_all(data).unwrap();
        e.finish().unwrap()
    } else if name.ends_with(".zst") {
        zstd::encode_all(data, 3).unwrap()
    } else {
        data.to_vec()
    }
}

fn decompress_for(name: &str, data: Vec<u8>) -> Result<Vec<u8>, ()> {
    if name.ends_with(".gz") {
        let mut out = vec![];
        flate2::read::GzDecoder::new(&data[..]).read_to_end(&mut out).map_err(|_| ())?;
        Ok(out)
    } else if name.ends_with(".zst") {
        zstd::decode_all(&data[..]).map_err(|_| ())
    } else {
        Ok(data)
    }
}

fn walk(root: &Path, dir: &Path, out: &mut Vec<(String, Vec<u8>)>) {
    let mut entries: Vec<_> = match std::fs::read_dir(dir) {
        Ok(rd) => rd.filter_map(|e| e.ok()).collect(),
        Err(_) => return,
    };
    entries.sort_by_key(|e| e.file_name());
    for e in entries {
        let p = e.path();
        if p.is_dir() {
            walk(root, &p, out);
        } else {
            let name = p.strip_prefix(root).unwrap().to_string_lossy().into_owned();
            let raw = std::fs::read(&p).unwrap_or_default();
            match decompress_for(&name, raw) {
                Ok(b) => out.push((name, b)),
                Err(()) => out.push((format!("{}#corrupt", name), vec![])),
            }
        }
    }
}

/// full recursive snapshot, names relative to the scratch directory, archives decompressed, sorted
pub fn snapshot(root: &Path) -> String {
    let mut v = vec![];
    walk(root, root, &mut v);
    v.sort_by(|a, b| a.0.cmp(&b.0));
    enc_list(";", &v.iter().map(|(n, b)| format!("{}={}", n, enc_bytes(b))).collect::<Vec<_>>())
}

#[derive(Debug)]
struct ScriptedTrigger {
    pre: bool,
    script: Arc<Mutex<VecDeque<char>>>,
}

impl Trigger for ScriptedTrigger {
    fn trigger(&self, _file: &LogFile) -> anyhow::Result<bool> {
        match self.script.lock().unwrap().pop_front() {
            Some('y') => Ok(true),
            Some('e') => anyhow::bail!("scripted trigger error"),
            _ => Ok(false),
        }
    }
    fn is_pre_process(&self) -> bool {
        self.pre
    }
}

/// fault step meaning "do the work, then report Err" (mirror of `Driver.C05.LATE`)
pub const LATE: u64 = 1_000_000;

/// wraps the real roller: counts `Roll::roll` invocations (rotation requests); can report `Err`
/// once after the real roller has done its work (`late_fail`), can fail before calling a roller
/// that has no `rotate_point` hook (`early_fail`: delete roller / count 0, the model's fault 0 =
/// `remove_file` fails), and arms faults by the ordinal of the call (concurrent cases)
#[derive(Debug)]
struct CountingRoller {
    inner: Box<dyn Roll>,
    has_hook: bool,
    calls: Arc<AtomicU64>,
    total_calls: Arc<AtomicU64>,
    late_fail: Arc<AtomicBool>,
    early_fail: Arc<AtomicBool>,
    ordinal_faults: Arc<Mutex<Vec<(u64, u64)>>>,
    fault_at: Arc<AtomicI64>,
    fault_ctr: Arc<AtomicU64>,
}

impl Roll for CountingRoller {
    fn roll(&self, file: &Path) -> anyhow::Result<()> {
        self.calls.fetch_add(1, Ordering::SeqCst);
        let ord = self.total_calls.fetch_add(1, Ordering::SeqCst);
        let by_ordinal = self.ordinal_faults.lock().unwrap().iter().find(|(o, _)| *o == ord).map(|(_, k)| *k);
        if let Some(k) = by_ordinal {
            if k == LATE {
                self.late_fail.store(true, Ordering::SeqCst);
            } else if self.has_hook {
                self.fault_ctr.store(0, Ordering::SeqCst);
                self.fault_at.store(k as i64, Ordering::SeqCst);
            } else if k == 0 {
                self.early_fail.store(true, Ordering::SeqCst);
            }
        }
        if self.early_fail.swap(false, Ordering::SeqCst) {
            anyhow::bail!("injected: remove_file fails");
        }
        let r = self.inner.roll(file);
        if by_ordinal.is_some() {
            self.fault_at.store(-1, Ordering::SeqCst);
        }
        if self.late_fail.swap(false, Ordering::SeqCst) && r.is_ok() {
            anyhow::bail!("roller reports a failure after doing its work");
        }
        r
    }
}

/// wraps the real policy; records what the policy is shown against the true size on disk
#[derive(Debug)]
struct ProbePolicy {
    inner: CompoundPolicy,
    probe: Arc<Mutex<Option<(u64, u64)>>>,
}

impl Policy for ProbePolicy {
    fn process(&self, log: &mut LogFile) -> anyhow::Result<()> {
        let shown = log.len_estimate();
        let actual = std::fs::metadata(log.path()).map(|m| m.len()).unwrap_or(u64::MAX);
        *self.probe.lock().unwrap() = Some((shown, actual));
        self.inner.process(log)
    }
    fn is_pre_process(&self) -> bool {
        self.inner.is_pre_process()
    }
}

pub struct Env {
    pub case: Case,
    pub scratch: Scratch,
    pub path: PathBuf,
    script: Arc<Mutex<VecDeque<char>>>,
    pub probe: Arc<Mutex<Option<(u64, u64)>>>,
    pub clock: Arc<AtomicI64>,
    fault_at: Arc<AtomicI64>,
    fault_ctr: Arc<AtomicU64>,
    pub roll_calls: Arc<AtomicU64>,
    pub late_fail: Arc<AtomicBool>,
    early_fail: Arc<AtomicBool>,
    pub total_calls: Arc<AtomicU64>,
    pub ordinal_faults: Arc<Mutex<Vec<(u64, u64)>>>,
}

impl Env {
    pub fn new(case: Case, tag: &str) -> Env {
        std::env::set_var("TZ", "UTC");
        let scratch = Scratch::new(tag);
        let path = scratch.path().join("app.log");
        let pat = pattern(case.roll.pat());
        for (i, n) in &case.pre_arch {
            let name = pat.replace("{}", &i.to_string());
            let p = scratch.path().join(&name);
            std::fs::create_dir_all(p.parent().unwrap()).unwrap();
            std::fs::write(&p, compress_for(&name, &gen_bytes(998000 + *i as u64, *n))).unwrap();
        }
        if let Some(n) = case.pre_active {
            std::fs::write(&path, gen_bytes(999000, n)).unwrap();
        }
        let script = match &case.trig {
            TrigSpec::Scripted { answers, .. } => answers.chars().collect(),
            _ => VecDeque::new(),
        };
        let clock = Arc::new(AtomicI64::new(case.clock0));
        let c2 = clock.clone();
        log4rs::verif_hooks::set_now(Some(Arc::new(move || Some((c2.load(Ordering::SeqCst), 0)))));
        let fault_at = Arc::new(AtomicI64::new(-1));
        let fault_ctr = Arc::new(AtomicU64::new(0));
        let (fa, fc) = (fault_at.clone(), fault_ctr.clone());
        log4rs::verif_hooks::set_rotate_point(Some(Arc::new(move |_step: u32| {
            let k = fc.fetch_add(1, Ordering::SeqCst) as i64;
            if k == DISK_FULL_AT.load(Ordering::SeqCst) {
                // from this step on every write to a regular file fails with EFBIG (a full disk):
                // the step itself is not refused, the filesystem refuses the codec's writes
                disk_full(true);
                return Ok(());
            }
            if k == fa.load(Ordering::SeqCst) {
                Err(std::io::Error::new(std::io::ErrorKind::Other, "injected"))
            } else {
                Ok(())
            }
        })));
        Env {
            case,
            scratch,
            path,
            script: Arc::new(Mutex::new(script)),
            probe: Arc::new(Mutex::new(None)),
            clock,
            fault_at,
            fault_ctr,
            roll_calls: Arc::new(AtomicU64::new(0)),
            late_fail: Arc::new(AtomicBool::new(false)),
            early_fail: Arc::new(AtomicBool::new(false)),
            total_calls: Arc::new(AtomicU64::new(0)),
            ordinal_faults: Arc::new(Mutex::new(vec![])),
        }
    }

    /// build a new appender on the path: new trigger and roller objects (the script is shared)
    pub fn build(&self) -> RollingFileAppender {
        let trigger: Box<dyn Trigger> = match &self.case.trig {
            TrigSpec::Size(n) => Box::new(SizeTrigger::new(*n)),
            TrigSpec::Startup(m) => Box::new(OnStartUpTrigger::new(*m)),
            TrigSpec::Time { unit, n, modulate } => {
                let iv = if *unit == 's' {
                    TimeTriggerInterval::Second(*n as i64)
                } else {
                    TimeTriggerInterval::Minute(*n as i64)
                };
                Box::new(TimeTrigger::new(TimeTrigger::verif_config(iv, *modulate, 0)))
            }
            TrigSpec::Scripted { pre, .. } => Box::new(ScriptedTrigger { pre: *pre, script: self.script.clone() }),
        };
        let roller: Box<dyn Roll> = match &self.case.roll {
            RollSpec::Delete => Box::new(DeleteRoller::new()),
            RollSpec::Fw { base, count, pat } => {
                let p = format!("{}/{}", self.scratch.path().display(), pattern(*pat));
                Box::new(FixedWindowRoller::builder().base(*base).build(&p, *count).unwrap())
            }
        };
        let roller: Box<dyn Roll> = Box::new(CountingRoller {
            inner: roller,
            has_hook: self.case.roll.has_hook(),
            calls: self.roll_calls.clone(),
            total_calls: self.total_calls.clone(),
            late_fail: self.late_fail.clone(),
            early_fail: self.early_fail.clone(),
            ordinal_faults: self.ordinal_faults.clone(),
            fault_at: self.fault_at.clone(),
            fault_ctr: self.fault_ctr.clone(),
        });
        let policy = ProbePolicy { inner: CompoundPolicy::new(trigger, roller), probe: self.probe.clone() };
        RollingFileAppender::builder()
            .append(self.case.append)
            .encoder(Box::new(ScriptEncoder::new()))
            .build(&self.path, Box::new(policy))
            .unwrap()
    }

    /// step `k` of the rotation of the coming append fails; a roller without `rotate_point` hook
    /// (delete, count 0) has one step: its `remove_file`
    pub fn arm_fault(&self, k: Option<u64>) {
        self.fault_ctr.store(0, Ordering::SeqCst);
        self.early_fail.store(false, Ordering::SeqCst);
        if self.case.roll.has_hook() {
            self.fault_at.store(k.map(|k| k as i64).unwrap_or(-1), Ordering::SeqCst);
        } else {
            self.fault_at.store(-1, Ordering::SeqCst);
            if k == Some(0) {
                self.early_fail.store(true, Ordering::SeqCst);
            }
        }
    }

    pub fn snapshot(&self) -> String {
        snapshot(self.scratch.path())
    }
}

impl Drop for Env {
    fn drop(&mut self) {
        log4rs::verif_hooks::set_now(None);
        log4rs::verif_hooks::set_rotate_point(None);
    }
}

/// rotation step from which the disk is "full" for the current append (-1: never), see `disk_full`
static DISK_FULL_AT: AtomicI64 = AtomicI64::new(-1);
static OLD_FSIZE: AtomicU64 = AtomicU64::new(u64::MAX);
static FULL_ON: AtomicBool = AtomicBool::new(false);

/// A real write failure instead of an injected `Err`: RLIMIT_FSIZE = 0 makes every write that would
/// extend a regular file fail with EFBIG (SIGXFSZ ignored), which is how a full disk looks to the
/// codecs of a compressing rotation, final flush included.
fn disk_full(on: bool) {
    unsafe {
        let mut lim = libc::rlimit { rlim_cur: 0, rlim_max: 0 };
        libc::getrlimit(libc::RLIMIT_FSIZE, &mut lim);
        if on {
            libc::signal(libc::SIGXFSZ, libc::SIG_IGN);
            FULL_ON.store(true, Ordering::SeqCst);
            OLD_FSIZE.store(lim.rlim_cur as u64, Ordering::SeqCst);
            lim.rlim_cur = 0;
        } else {
            lim.rlim_cur = OLD_FSIZE.load(Ordering::SeqCst) as libc::rlim_t;
        }
        libc::setrlimit(libc::RLIMIT_FSIZE, &lim);
    }
}

/// one append during which the disk is full from rotation step `k` on
pub fn append_disk_full(env: &Env, app: &RollingFileAppender, r: &RecSpec, k: u64) -> anyhow::Result<()> {
    env.arm_fault(None);
    DISK_FULL_AT.store(k as i64, Ordering::SeqCst);
    let res = r.append_to(app);
    DISK_FULL_AT.store(-1, Ordering::SeqCst);
    if FULL_ON.swap(false, Ordering::SeqCst) {
        disk_full(false);
    }
    res
}

pub enum OpSpec {
    /// record, injected rotation-step fault, late roller error, encoder failure after n slices
    Append(RecSpec, Option<u64>),
    /// record; from rotation step k on the disk is full (`F<k>!`): the model's fault at step k when k
    /// is the compressing final step of a window of at least two slots
    AppendDiskFull(RecSpec, u64),
    AppendLate(RecSpec),
    AppendEncFail(RecSpec, u64),
    Restart,
    Tick(i64),
}

pub fn parse_op(s: &str) -> Option<OpSpec> {
    if s == "r" {
        return Some(OpSpec::Restart);
    }
    if let Some(d) = s.strip_prefix('c') {
        return Some(OpSpec::Tick(d.parse().ok()?));
    }
    if let Some(rest) = s.strip_prefix('f') {
        let (k, r) = rest.split_once('!')?;
        return Some(OpSpec::Append(RecSpec::parse(r)?, Some(k.parse().ok()?)));
    }
    if let Some(rest) = s.strip_prefix('F') {
        let (k, r) = rest.split_once('!')?;
        return Some(OpSpec::AppendDiskFull(RecSpec::parse(r)?, k.parse().ok()?));
    }
    if let Some(r) = s.strip_prefix("g!") {
        return Some(OpSpec::AppendLate(RecSpec::parse(r)?));
    }
    if s.starts_with('e') {
        let (r, n) = parse_fail_rec(s)?;
        return Some(OpSpec::AppendEncFail(r, n?));
    }
    Some(OpSpec::Append(RecSpec::parse(s)?, None))
}

pub fn exec_seq(f: &[&str]) -> String {
    // a trailing `@bg`: this binary was built with `background_rotation`; every observation is
    // taken at quiescence (all rotation threads finished)
    let bg = f.len() == 8 && f[7] == "@bg";
    if f.len() != 7 && !bg {
        return "bad-case".to_owned();
    }
    let case = match Case::parse(&f[..6]) {
        Some(c) => c,
        None => return "bad-case".to_owned(),
    };
    let mut ops = vec![];
    for o in dec_list(',', f[6]) {
        match parse_op(&o) {
            Some(o) => ops.push(o),
            None => return "bad-case".to_owned(),
        }
    }
    let env = Env::new(case, "c05");
    let baseline = crate::c07::n_threads();
    let r = guarded(std::panic::AssertUnwindSafe(|| {
        let mut out = vec![];
        let mut app = Some(env.build());
        out.push(format!("-!-!0!{}", env.snapshot()));
        for op in &ops {
            *env.probe.lock().unwrap() = None;
            env.roll_calls.store(0, Ordering::SeqCst);
            let res = match op {
                OpSpec::Restart => {
                    drop(app.take());
                    app = Some(env.build());
                    "-"
                }
                OpSpec::Tick(dt) => {
                    env.clock.fetch_add(*dt, Ordering::SeqCst);
                    "-"
                }
                OpSpec::Append(r, fault) => {
                    env.arm_fault(*fault);
                    let res = r.append_to(app.as_ref().unwrap());
                    env.arm_fault(None);
                    if res.is_ok() {
                        "ok"
                    } else {
                        "err"
                    }
                }
                OpSpec::AppendDiskFull(r, k) => {
                    let res = append_disk_full(&env, app.as_ref().unwrap(), r, *k);
                    if res.is_ok() {
                        "ok"
                    } else {
                        "err"
                    }
                }
                OpSpec::AppendLate(r) => {
                    env.late_fail.store(true, Ordering::SeqCst);
                    let res = r.append_to(app.as_ref().unwrap());
                    env.late_fail.store(false, Ordering::SeqCst);
                    if res.is_ok() {
                        "ok"
                    } else {
                        "err"
                    }
                }
                OpSpec::AppendEncFail(r, n) => {
                    let res = r.append_failing(app.as_ref().unwrap(), Some(*n));
                    if res.is_ok() {
                        "ok"
                    } else {
                        "err"
                    }
                }
            };
            let consult = match *env.probe.lock().unwrap() {
                Some((a, b)) => format!("{}={}", a, b),
                None => "-".to_owned(),
            };
            if bg && !crate::c07::wait_quiescent(baseline) {
                return "TIMEOUT-waiting-for-rotation-threads".to_owned();
            }
            out.push(format!("{}!{}!{}!{}", res, consult, env.roll_calls.load(Ordering::SeqCst), env.snapshot()));
        }
        drop(app);
        out.join(",")
    }));
    drop(env);
    r.unwrap_or_else(|_| "PANIC".to_owned())
}

pub fn exec_conc(f: &[&str]) -> String {
    if f.len() != 8 {
        return "bad-case".to_owned();
    }
    let case = match Case::parse(&f[..6]) {
        Some(c) => c,
        None => return "bad-case".to_owned(),
    };
    let amp: u64 = match f[6].parse() {
        Ok(a) => a,
        Err(_) => return "bad-case".to_owned(),
    };
    let mut progs: Vec<Vec<RecSpec>> = vec![];
    for t in dec_list('|', f[7]) {
        let mut v = vec![];
        for r in dec_list(',', &t) {
            match RecSpec::parse(&r) {
                Some(r) => v.push(r),
                None => return "bad-case".to_owned(),
            }
        }
        progs.push(v);
    }
    let env = Env::new(case, "c05c");
    set_amplifier(amp);
    let r = guarded(std::panic::AssertUnwindSafe(|| {
        let app = Arc::new(env.build());
        let barrier = Arc::new(Barrier::new(progs.len()));
        let handles: Vec<_> = progs
            .iter()
            .cloned()
            .map(|prog| {
                let app = app.clone();
                let barrier = barrier.clone();
                std::thread::spawn(move || {
                    barrier.wait();
                    let mut acked = vec![];
                    for r in prog {
                        if r.append_to(&*app).is_ok() {
                            acked.push(r.id().to_string());
                        }
                    }
                    acked
                })
            })
            .collect();
        let acks: Vec<String> = handles.into_iter().map(|h| enc_list(",", &h.join().unwrap())).collect();
        let _ = read_from_other_thread(&env.path);
        format!("{}!{}!{}", acks.join("|"), env.roll_calls.load(Ordering::SeqCst), env.snapshot())
    }));
    set_amplifier(0);
    drop(env);
    r.unwrap_or_else(|_| "PANIC!0!~".to_owned())
}

/// `par <case 6 fields> <amp> <faults> <phases>`: concurrent writers in phases separated by a
/// restart of the appender. faults = `,`-joined `ordinal:step` (the ordinal-th `Roll::roll` call of
/// the whole case fails at `step`; step 1000000 = after doing its work), `~` none. phases are
/// `/`-joined, threads `|`-joined, a thread is a `,`-joined list of `record` or `e<n>!record`.
/// Observation: `<events>!<total roller calls>!<final snapshot>`; events mirror the phases, one
/// entry `id.start.ack` per append with global tickets taken right before the call and right after
/// it returned (`x` instead of the ack ticket when it returned `Err`).
pub fn exec_par(f: &[&str]) -> String {
    if f.len() != 9 {
        return "bad-case".to_owned();
    }
    let case = match Case::parse(&f[..6]) {
        Some(c) => c,
        None => return "bad-case".to_owned(),
    };
    let amp: u64 = match f[6].parse() {
        Ok(a) => a,
        Err(_) => return "bad-case".to_owned(),
    };
    let mut faults: Vec<(u64, u64)> = vec![];
    for e in dec_list(',', f[7]) {
        match e.split_once(':').and_then(|(a, b)| Some((a.parse().ok()?, b.parse().ok()?))) {
            Some(x) => faults.push(x),
            None => return "bad-case".to_owned(),
        }
    }
    let mut phases: Vec<Vec<Vec<(RecSpec, Option<u64>)>>> = vec![];
    for ph in f[8].split('/') {
        let mut threads = vec![];
        for t in dec_list('|', ph) {
            let mut v = vec![];
            for r in dec_list(',', &t) {
                match parse_fail_rec(&r) {
                    Some(x) => v.push(x),
                    None => return "bad-case".to_owned(),
                }
            }
            threads.push(v);
        }
        phases.push(threads);
    }
    let env = Env::new(case, "c05p");
    *env.ordinal_faults.lock().unwrap() = faults;
    set_amplifier(amp);
    let r = guarded(std::panic::AssertUnwindSafe(|| {
        let ticket = Arc::new(AtomicU64::new(0));
        let mut all_events: Vec<String> = vec![];
        let mut app = Some(Arc::new(env.build()));
        for (pi, threads) in phases.iter().enumerate() {
            if pi > 0 {
                // restart: every writer has joined; drop the appender, build a new one
                drop(app.take());
                app = Some(Arc::new(env.build()));
            }
            let a = app.as_ref().unwrap().clone();
            let barrier = Arc::new(Barrier::new(threads.len().max(1)));
            let handles: Vec<_> = threads
                .iter()
                .cloned()
                .map(|prog| {
                    let app = a.clone();
                    let barrier = barrier.clone();
                    let ticket = ticket.clone();
                    std::thread::spawn(move || {
                        barrier.wait();
                        let mut ev = vec![];
                        for (r, fail) in prog {
                            let start = ticket.fetch_add(1, Ordering::SeqCst);
                            let res = r.append_failing(&*app, fail);
                            if res.is_ok() {
                                let ack = ticket.fetch_add(1, Ordering::SeqCst);
                                ev.push(format!("{}.{}.{}", r.id(), start, ack));
                            } else {
                                ev.push(format!("{}.{}.x", r.id(), start));
                            }
                        }
                        ev
                    })
                })
                .collect();
            drop(a);
            let evs: Vec<String> = handles.into_iter().map(|h| enc_list(",", &h.join().unwrap())).collect();
            all_events.push(evs.join("|"));
        }
        let _ = read_from_other_thread(&env.path);
        format!("{}!{}!{}", all_events.join("/"), env.total_calls.load(Ordering::SeqCst), env.snapshot())
    }));
    set_amplifier(0);
    drop(env);
    r.unwrap_or_else(|_| "PANIC!0!~".to_owned())
}

/// `seqx <mode a|t> <pre> <ops> [<pre|post>]`: C04's `seq` op language (second appender `n`, foreign
/// `O_APPEND` writer `x…`, external truncation `T`, restarts, failing / panicking encoders) on REAL
/// `RollingFileAppender`s whose policy never rotates: the real `CompoundPolicy` with a trigger that
/// always answers `false` (the scripted trigger with an empty script, consulted before or after the
/// write) and the real `DeleteRoller`. While nothing rotates the appender must be the file appender:
/// the observation is C04's (the file as another thread reads it after every op).
pub fn exec_seqx(f: &[&str]) -> String {
    let (mode, pre, ops, pre_process) = match f {
        [mode, pre, ops] => (mode, pre, ops, false),
        [mode, pre, ops, "post"] => (mode, pre, ops, false),
        [mode, pre, ops, "pre"] => (mode, pre, ops, true),
        _ => return "bad-case".to_owned(),
    };
    if *mode != "a" && *mode != "t" {
        return "bad-case".to_owned();
    }
    crate::c04::exec_seq_with(mode, pre, ops, "c05x", &move |path, append| {
        let trigger = ScriptedTrigger { pre: pre_process, script: Arc::new(Mutex::new(VecDeque::new())) };
        let policy = CompoundPolicy::new(Box::new(trigger), Box::new(DeleteRoller::new()));
        Box::new(
            RollingFileAppender::builder()
                .append(append)
                .encoder(Box::new(ScriptEncoder::new()))
                .build(path, Box::new(policy))
                .unwrap(),
        )
    })
}

pub fn exec(fields: &[&str]) -> String {
    match fields.first() {
        Some(&"seq") => exec_seq(&fields[1..]),
        Some(&"conc") => exec_conc(&fields[1..]),
        Some(&"par") => exec_par(&fields[1..]),
        Some(&"seqx") => exec_seqx(&fields[1..]),
        _ => "bad-case".to_owned(),
    }
}

// ---------------------------------------------------------------------------------------------
// generator (shared with C06 / C17 through `TrigChoice`)
// ---------------------------------------------------------------------------------------------
#[derive(Clone, Copy, PartialEq)]
pub enum TrigChoice {
    Any,
    Size,
    Startup,
}

const LIMITS: &[u64] = &[0, 1, 7, 100, 1024, 1025, (1 << 63) - 1, 1 << 63, (1 << 63) + 1, u64::MAX];
const MINS: &[u64] = &[0, 1, 5, 4096, (1 << 63) - 1, 1 << 63, (1 << 63) + 1, u64::MAX];

fn around(rng: &mut Rng, x: u64) -> u64 {
    match rng.below(5) {
        0 => x.saturating_sub(1),
        1 => x,
        2 => x + 1,
        3 => 0,
        _ => rng.range(0, x + 3),
    }
}

pub fn gen_trigger(rng: &mut Rng, choice: TrigChoice, n_ops: usize) -> TrigSpec {
    let k = match choice {
        TrigChoice::Size => 0,
        TrigChoice::Startup => 1,
        TrigChoice::Any => rng.below(6),
    };
    match k {
        0 => TrigSpec::Size(*rng.pick(LIMITS)),
        1 => TrigSpec::Startup(*rng.pick(MINS)),
        2 => TrigSpec::Time {
            unit: if rng.chance(3, 4) { 's' } else { 'm' },
            n: *rng.pick(&[1u64, 1, 2, 5, 7, 60]),
            modulate: rng.chance(1, 2),
        },
        3 => TrigSpec::Time { unit: 's', n: 0, modulate: rng.chance(1, 2) },
        _ => {
            let len = rng.range(0, n_ops as u64 + 2);
            let answers: String = (0..len)
                .map(|_| match rng.below(10) {
                    0..=3 => 'y',
                    4 => 'e',
                    _ => 'n',
                })
                .collect();
            TrigSpec::Scripted { pre: k == 4, answers }
        }
    }
}

pub fn gen_roller(rng: &mut Rng) -> RollSpec {
    if rng.chance(1, 6) {
        RollSpec::Delete
    } else {
        RollSpec::Fw {
            base: *rng.pick(&[0u32, 1, 3]),
            count: *rng.pick(&[0u32, 1, 2, 3, 5]),
            pat: if rng.chance(1, 2) { 0 } else { rng.below(5) as u32 },
        }
    }
}

/// record sizes relative to the limit and to the 1 KiB buffer
fn gen_record(rng: &mut Rng, id: u64, pivot: u64, budget: &mut u64) -> RecSpec {
    let r = match rng.below(12) {
        0 => RecSpec::Bin { id, sizes: vec![pivot.saturating_sub(1)] },
        1 => RecSpec::Bin { id, sizes: vec![pivot] },
        2 => RecSpec::Bin { id, sizes: vec![pivot + 1] },
        3 => RecSpec::Bin { id, sizes: vec![*rng.pick(&[0u64, 1, 1023, 1024, 1025, 3000])] },
        4 => RecSpec::Bin { id, sizes: random_sizes(rng) },
        5 => RecSpec::Text { id, text: (*rng.pick(&["", "é", "héllo wörld", "日本語", "😀😀", "naïve café\n", "€"])).to_owned() },
        6 => {
            // split the pivot size over several slices
            let a = rng.range(0, pivot);
            RecSpec::Bin { id, sizes: vec![a, pivot - a, rng.below(2)] }
        }
        _ => RecSpec::Bin { id, sizes: vec![rng.range(0, 12)] },
    };
    let sz = r.bytes().len() as u64;
    if sz > *budget {
        RecSpec::Bin { id, sizes: vec![rng.range(0, 6)] }
    } else {
        *budget -= sz;
        r
    }
}

pub fn gen_seq_case(rng: &mut Rng, thorough: bool, choice: TrigChoice) -> String {
    let n_ops = if rng.chance(1, 12) { 0 } else { rng.range(1, if thorough { 60 } else { 24 }) as usize };
    let trig = gen_trigger(rng, choice, n_ops);
    let roll = gen_roller(rng);
    let append = rng.chance(3, 5);
    let pivot = match &trig {
        TrigSpec::Size(n) => *n,
        TrigSpec::Startup(m) => *m,
        _ => *rng.pick(&[7u64, 100, 1024]),
    };
    // thresholds in the upper half of the u64 range: sizes stay small, nothing may ever roll
    let pivot = if pivot > 5000 { *rng.pick(&[0u64, 3, 40]) } else { pivot };
    let pre_active = match rng.below(4) {
        0 => None,
        _ => Some(around(rng, pivot).min(5000)),
    };
    let mut pre_arch = vec![];
    if let RollSpec::Fw { base, count, .. } = &roll {
        let dense = choice == TrigChoice::Startup || rng.chance(1, 2);
        let k = rng.range(0, *count as u64 + 1) as u32;
        for j in 0..k.min(*count) {
            if dense || rng.chance(2, 3) {
                pre_arch.push((base + j, rng.range(0, 30)));
            }
        }
        // bystanders above the window
        if rng.chance(1, 4) {
            pre_arch.push((base + count + rng.below(2) as u32, rng.range(1, 20)));
        }
    }
    let is_time = matches!(trig, TrigSpec::Time { .. });
    let faults_ok = (roll.has_hook() || choice == TrigChoice::Any) && choice != TrigChoice::Startup;
    // fault steps: 0 .. count-1 are the rotation's steps, `count` is the `remove_file(src)` sub-step of a
    // compressing rotation; delete roller / count 0: the one step 0
    let max_step: u64 = match (&roll, choice) {
        (RollSpec::Fw { count, .. }, TrigChoice::Any) if *count > 0 => *count as u64,
        (_, TrigChoice::Any) => 1,
        _ => 3,
    };
    // a full disk from the compressing final step on (real EFBIG on the codec's writes): post-process
    // triggers only (the record is on disk before the rotation starts), windows of at least two slots
    // (slot `base` is vacant when the codec creates it)
    let (disk_full_ok, full_step) = match (&roll, &trig) {
        (RollSpec::Fw { count, pat, .. }, TrigSpec::Size(_)) | (RollSpec::Fw { count, pat, .. }, TrigSpec::Scripted { pre: false, .. })
            if *count >= 2 && (*pat == 2 || *pat == 3) && choice != TrigChoice::Startup =>
        {
            (true, *count as u64 - 1)
        }
        _ => (false, 0),
    };
    let case = Case { append, pre_active, pre_arch, trig, roll, clock0: 1_700_000_000 + rng.below(200) as i64 };
    let mut budget: u64 = if thorough { 14000 } else { 7000 };
    let mut ops = vec![];
    for i in 0..n_ops {
        let k = rng.below(20);
        if k == 0 || (k == 1 && choice != TrigChoice::Any) {
            ops.push("r".to_owned());
        } else if is_time && k < 6 {
            ops.push(format!("c{}", *rng.pick(&[0i64, 1, 1, 2, 5, 59, 60, 61, 3600])));
        } else if k == 2 && !is_time {
            ops.push(format!("c{}", rng.below(100)));
        } else {
            let r = gen_record(rng, i as u64 + 1, pivot, &mut budget).render();
            if disk_full_ok && rng.chance(1, 8) {
                ops.push(format!("F{}!{}", full_step, r));
            } else if faults_ok && rng.chance(1, 10) {
                ops.push(format!("f{}!{}", rng.range(0, max_step), r));
            } else if rng.chance(1, 12) {
                // the roller does its work and then reports Err (first op of C17 histories more often)
                ops.push(format!("g!{}", r));
            } else if choice == TrigChoice::Any && r.starts_with('b') && rng.chance(1, 10) {
                let nchunks = r.split_once(':').map(|(_, b)| if b.is_empty() { 0 } else { b.split('+').count() }).unwrap_or(0);
                ops.push(format!("e{}!{}", rng.range(0, nchunks as u64), r));
            } else if choice == TrigChoice::Startup && i < 2 && r.starts_with('b') && rng.chance(1, 4) {
                // the first / second record's encoder fails
                let nchunks = r.split_once(':').map(|(_, b)| if b.is_empty() { 0 } else { b.split('+').count() }).unwrap_or(0);
                ops.push(format!("e{}!{}", rng.range(0, nchunks as u64), r));
            } else if choice == TrigChoice::Startup && i == 0 && rng.chance(1, 4) {
                ops.push(format!("g!{}", r));
            } else {
                ops.push(r);
            }
        }
    }
    // background rotation (second harness build): fault-free histories, observed at quiescence
    if choice == TrigChoice::Any && rng.chance(1, 8) && !ops.iter().any(|o| o.starts_with('f') || o.starts_with('F') || o.starts_with('g')) {
        return format!("seq\t{}\t{}\t@bg", case.render(), enc_list(",", &ops));
    }
    format!("seq\t{}\t{}", case.render(), enc_list(",", &ops))
}

pub fn gen_conc_case(rng: &mut Rng, thorough: bool, choice: TrigChoice) -> String {
    let nthreads = if choice == TrigChoice::Startup { 8 } else { rng.range(2, if thorough { 6 } else { 4 }) };
    let nrecs = if choice == TrigChoice::Startup {
        rng.range(1, 6)
    } else {
        rng.range(10, if thorough { 120 } else { 40 })
    };
    let trig = match choice {
        TrigChoice::Startup => TrigSpec::Startup(*rng.pick(MINS)),
        TrigChoice::Size => TrigSpec::Size(*rng.pick(&[100u64, 1024, 4096])),
        TrigChoice::Any => match rng.below(4) {
            0 => TrigSpec::Size(*rng.pick(&[100u64, 1024, 4096, 20000])),
            1 => TrigSpec::Startup(*rng.pick(MINS)),
            2 => TrigSpec::Scripted {
                pre: rng.chance(1, 2),
                answers: (0..nthreads * nrecs).map(|_| if rng.chance(1, 8) { 'y' } else { 'n' }).collect(),
            },
            _ => TrigSpec::Time { unit: 's', n: 0, modulate: false },
        },
    };
    let roll = if rng.chance(1, 8) {
        RollSpec::Delete
    } else {
        RollSpec::Fw { base: *rng.pick(&[0u32, 1]), count: *rng.pick(&[1u32, 3, 5, 500]), pat: *rng.pick(&[0u32, 0, 1, 2, 3]) }
    };
    let pivot = match &trig {
        TrigSpec::Startup(m) => *m,
        _ => 20,
    };
    let pivot = if pivot > 5000 { 30 } else { pivot };
    let case = Case {
        append: rng.chance(3, 4),
        pre_active: if rng.chance(1, 4) { None } else { Some(around(rng, pivot).min(5000)) },
        pre_arch: vec![],
        trig,
        roll,
        clock0: 1_700_000_000,
    };
    let mut threads = vec![];
    for t in 0..nthreads {
        let mut recs = vec![];
        for s in 0..nrecs {
            let sizes = match rng.below(8) {
                0 => vec![0],
                1 => vec![8],
                2 => vec![rng.range(1000, 1040)],
                3 => vec![rng.range(8, 100), rng.range(8, 300)],
                4 => vec![1024],
                _ => vec![rng.range(8, 120)],
            };
            recs.push(RecSpec::Bin { id: (t + 1) * 65536 + s, sizes }.render());
        }
        threads.push(recs.join(","));
    }
    format!("conc\t{}\t{}\t{}", case.render(), rng.below(3), threads.join("|"))
}

/// concurrent writers in phases (restart in between), roller faults by call ordinal, failing
/// encoders (with post-process triggers, where a failed encode touches nothing)
pub fn gen_par_case(rng: &mut Rng, thorough: bool) -> String {
    let nphases = *rng.pick(&[1u64, 1, 2, 3]);
    let nthreads = rng.range(2, if thorough { 6 } else { 4 });
    let nrecs = rng.range(4, if thorough { 60 } else { 25 });
    let total = nphases * nthreads * nrecs;
    let with_empties = rng.chance(1, 5);
    let trig = match rng.below(6) {
        0 | 1 => TrigSpec::Size(*rng.pick(&[0u64, 100, 1024, 4096, 20000])),
        2 => TrigSpec::Startup(*rng.pick(&[0u64, 1, 5, 4096])),
        3 => TrigSpec::Scripted { pre: false, answers: (0..total).map(|_| if rng.chance(1, 6) { 'y' } else { 'n' }).collect() },
        4 => TrigSpec::Scripted { pre: true, answers: (0..total).map(|_| if rng.chance(1, 6) { 'y' } else { 'n' }).collect() },
        _ => TrigSpec::Time { unit: 's', n: 0, modulate: false },
    };
    let post = matches!(trig, TrigSpec::Size(_) | TrigSpec::Scripted { pre: false, .. });
    // mostly windows that cannot evict (every record must be there at the end), some that do
    let roll = match rng.below(8) {
        0 => RollSpec::Delete,
        1 | 2 => RollSpec::Fw { base: *rng.pick(&[0u32, 1]), count: *rng.pick(&[1u32, 2, 3]), pat: *rng.pick(&[0u32, 1, 2, 3]) },
        _ => RollSpec::Fw { base: *rng.pick(&[0u32, 1, 3]), count: 500, pat: *rng.pick(&[0u32, 0, 1, 2, 3, 4]) },
    };
    let mut faults = vec![];
    if rng.chance(1, 3) {
        for _ in 0..rng.range(1, 3) {
            let step = match &roll {
                RollSpec::Fw { count, pat, .. } if *count > 0 => {
                    // not the compress sub-step here (known defect, exercised by the sequential family)
                    let top = if *pat == 2 || *pat == 3 { (*count as u64).min(3) } else { (*count as u64).min(3) + 1 };
                    if rng.chance(1, 3) { LATE } else { rng.below(top.max(1)) }
                }
                _ => if rng.chance(1, 2) { LATE } else { 0 },
            };
            faults.push(format!("{}:{}", rng.below(6), step));
        }
        faults.sort();
        faults.dedup_by(|a, b| a.split(':').next() == b.split(':').next());
    }
    let case = Case {
        append: rng.chance(3, 4),
        pre_active: if rng.chance(1, 3) { None } else { Some(*rng.pick(&[0u64, 8, 40, 5000])) },
        pre_arch: vec![],
        trig,
        roll,
        clock0: 1_700_000_000,
    };
    let mut phases = vec![];
    for p in 0..nphases {
        let mut threads = vec![];
        for t in 0..nthreads {
            let mut recs = vec![];
            for k in 0..nrecs {
                let sizes = match rng.below(8) {
                    // (an empty record leaves no trace in the files: such cases are judged but not replayed)
                    0 => if with_empties { vec![0] } else { vec![9] },
                    1 => vec![8],
                    2 => vec![rng.range(1000, 1040)],
                    3 => vec![rng.range(8, 100), rng.range(8, 300)],
                    4 => vec![1024],
                    _ => vec![rng.range(8, 120)],
                };
                let r = RecSpec::Bin { id: (p * 8 + t + 1) * 65536 + k, sizes: sizes.clone() }.render();
                if post && rng.chance(1, 12) {
                    recs.push(format!("e{}!{}", rng.range(0, sizes.len() as u64), r));
                } else {
                    recs.push(r);
                }
            }
            threads.push(recs.join(","));
        }
        phases.push(threads.join("|"));
    }
    format!("par\t{}\t{}\t{}\t{}", case.render(), rng.below(3), enc_list(",", &faults), phases.join("/"))
}

pub fn gen(rng: &mut Rng, n: usize, thorough: bool, emit: &mut dyn FnMut(String)) {
    for _ in 0..n {
        emit(gen_seq_case(rng, thorough, TrigChoice::Any));
    }
    for _ in 0..(if thorough { n / 10 } else { n / 6 }).max(10) {
        emit(gen_par_case(rng, thorough));
    }
    // the rolling appender's FIRST OPEN (`get_writer`): C04's multi-handle histories on real rolling
    // appenders that never rotate; first the deterministic block (truncate mode on a shared path)
    for pre in ["-", "6f6c640a"] {
        for when in ["post", "pre"] {
            emit(format!("seqx\tt\t{}\tb1:3,x9001:13,b2:3\t{}", pre, when));
            emit(format!("seqx\tt\t{}\tb1:24,T,b2:3,b3:1030,T,b4:1\t{}", pre, when));
            emit(format!("seqx\tt\t{}\tb1:12,b2:12,n,b3:3,1>b4:3,b5:30\t{}", pre, when));
            emit(format!("seqx\ta\t{}\tb1:24,T,b2:3,n,1>b3:5,T,b4:1,x9002:4,1>b5:2\t{}", pre, when));
            emit(format!("seqx\tt\t{}\tb1:1030,n,1>b2:5,b3:2000,r,1>b4:7,x9003:9,b5:1,T,1>b6:1,b7:2\t{}", pre, when));
            emit(format!("seqx\tt\t{}\tb1:3,e1!b2:4+4,x9004:2,p1!b3:4+4,b4:2,r,b5:1,mw!b6:1025+1,T,mf!b7:5\t{}", pre, when));
        }
    }
    for _ in 0..(n / 5).max(20) {
        let when = if rng.chance(1, 3) { "pre" } else { "post" };
        // two in three with several handles on the path
        let multi_den = if rng.chance(2, 3) { 1 } else { 3 };
        emit(format!("seqx\t{}\t{}", crate::c04::random_seq_history(rng, thorough, multi_den), when));
    }
}

/// child-process entry point (`verif-harness child c05 …`); not needed by this property
pub fn child(_args: &[String]) -> i32 {
    2
}
