//! C03 — filter chains and error fan-out: scripted `Filter`s and `Append`s that write every call into
//! one shared event log, the real `ThresholdFilter`, `Logger::new_with_err_handler`.
//! case: nodeLevel TAB recordLevel TAB attached TAB appenders   (see lean/Driver/C03.lean)
use crate::proto::*;
use crate::rng::Rng;
use log::{Level, LevelFilter, Log, Record};
use log4rs::append::Append;
use log4rs::config::{Appender, Config, Root};
use log4rs::filter::threshold::ThresholdFilter;
use log4rs::filter::{Filter, Response};
use std::sync::{Arc, Mutex};

type EventLog = Arc<Mutex<Vec<String>>>;

#[derive(Clone, Copy, Debug, PartialEq)]
enum Script {
    Accept,
    Neutral,
    Reject,
    Threshold(u64),
}

#[derive(Debug)]
struct ScriptedFilter {
    app: usize,
    idx: usize,
    answer: Script,
    log: EventLog,
}

impl Filter for ScriptedFilter {
    fn filter(&self, _: &Record) -> Response {
        self.log.lock().unwrap().push(format!("f{}.{}", self.app, self.idx));
        match self.answer {
            Script::Accept => Response::Accept,
            Script::Neutral => Response::Neutral,
            Script::Reject => Response::Reject,
            Script::Threshold(_) => unreachable!(),
        }
    }
}

/// the real threshold filter, with the call recorded
#[derive(Debug)]
struct CountingThreshold {
    app: usize,
    idx: usize,
    inner: ThresholdFilter,
    log: EventLog,
}

impl Filter for CountingThreshold {
    fn filter(&self, r: &Record) -> Response {
        self.log.lock().unwrap().push(format!("f{}.{}", self.app, self.idx));
        self.inner.filter(r)
    }
}

#[derive(Debug)]
struct ScriptedAppend {
    app: usize,
    fails: bool,
    log: EventLog,
}

impl Append for ScriptedAppend {
    fn append(&self, _: &Record) -> anyhow::Result<()> {
        self.log.lock().unwrap().push(format!("a{}", self.app));
        if self.fails {
            Err(anyhow::anyhow!("fail:{}", self.app))
        } else {
            Ok(())
        }
    }
    fn flush(&self) {}
}

fn level_filter(n: u64) -> Option<LevelFilter> {
    Some(match n {
        0 => LevelFilter::Off,
        1 => LevelFilter::Error,
        2 => LevelFilter::Warn,
        3 => LevelFilter::Info,
        4 => LevelFilter::Debug,
        5 => LevelFilter::Trace,
        _ => return None,
    })
}

fn level(n: u64) -> Option<Level> {
    Some(match n {
        1 => Level::Error,
        2 => Level::Warn,
        3 => Level::Info,
        4 => Level::Debug,
        5 => Level::Trace,
        _ => return None,
    })
}

fn dec_filter(s: &str) -> Option<Script> {
    Some(match s {
        "A" => Script::Accept,
        "N" => Script::Neutral,
        "R" => Script::Reject,
        _ => {
            let k: u64 = s.strip_prefix('T')?.parse().ok()?;
            level_filter(k)?;
            Script::Threshold(k)
        }
    })
}

pub fn exec(fields: &[&str]) -> String {
    if fields.len() != 4 {
        return "bad-case".to_owned();
    }
    let parsed = (|| {
        let node_level = level_filter(fields[0].parse().ok()?)?;
        let rec_level = level(fields[1].parse().ok()?)?;
        let attached: Vec<usize> = dec_list(',', fields[2]).iter().map(|x| x.parse().ok()).collect::<Option<_>>()?;
        let mut table: Vec<(Vec<Script>, bool)> = vec![];
        for a in dec_list(',', fields[3]) {
            let p: Vec<&str> = a.split(';').collect();
            if p.len() != 2 {
                return None;
            }
            let chain: Vec<Script> = dec_list('|', p[0]).iter().map(|f| dec_filter(f)).collect::<Option<_>>()?;
            let fails = match p[1] {
                "ok" => false,
                "fail" => true,
                _ => return None,
            };
            table.push((chain, fails));
        }
        if attached.iter().any(|i| *i >= table.len()) {
            return None;
        }
        Some((node_level, rec_level, attached, table))
    })();
    let (node_level, rec_level, attached, table) = match parsed {
        Some(p) => p,
        None => return "bad-case".to_owned(),
    };
    let events: EventLog = Arc::new(Mutex::new(vec![]));
    let ev = events.clone();
    let r = guarded(std::panic::AssertUnwindSafe(move || {
        let mut b = Config::builder();
        for (i, (chain, fails)) in table.iter().enumerate() {
            let mut ab = Appender::builder();
            for (j, f) in chain.iter().enumerate() {
                let boxed: Box<dyn Filter> = match f {
                    Script::Threshold(k) => Box::new(CountingThreshold {
                        app: i,
                        idx: j,
                        inner: ThresholdFilter::new(level_filter(*k).unwrap()),
                        log: ev.clone(),
                    }),
                    other => Box::new(ScriptedFilter { app: i, idx: j, answer: *other, log: ev.clone() }),
                };
                ab = ab.filter(boxed);
            }
            b = b.appender(ab.build(i.to_string(), Box::new(ScriptedAppend { app: i, fails: *fails, log: ev.clone() })));
        }
        let root = Root::builder().appenders(attached.iter().map(|i| i.to_string())).build(node_level);
        let config = b.build(root).expect("config of the case is well-formed");
        let hlog = ev.clone();
        let logger = log4rs::Logger::new_with_err_handler(
            config,
            Box::new(move |e: &anyhow::Error| {
                let msg = e.to_string();
                let who = msg.strip_prefix("fail:").unwrap_or("?").to_owned();
                hlog.lock().unwrap().push(format!("h{}", who));
            }),
        );
        logger.log(&Record::builder().level(rec_level).target("some::target").args(format_args!("m")).build());
    }));
    match r {
        Ok(()) => enc_list(",", &events.lock().unwrap()),
        Err(_) => "PANIC".to_owned(),
    }
}

// ------------------------------------------------------------------------------------------------

fn chain_str(chain: &[&str]) -> String {
    if chain.is_empty() {
        "~".to_owned()
    } else {
        chain.join("|")
    }
}

fn all_chains(max_len: usize) -> Vec<Vec<&'static str>> {
    let mut out: Vec<Vec<&'static str>> = vec![vec![]];
    let mut layer: Vec<Vec<&'static str>> = vec![vec![]];
    for _ in 0..max_len {
        let mut next = vec![];
        for c in &layer {
            for r in ["A", "N", "R"] {
                let mut d = c.clone();
                d.push(r);
                next.push(d);
            }
        }
        out.extend(next.iter().cloned());
        layer = next;
    }
    out
}

pub fn gen(rng: &mut Rng, n: usize, thorough: bool, emit: &mut dyn FnMut(String)) {
    // 1. the real threshold filter: all 6 thresholds × 5 record levels, alone and behind/before others
    for thr in 0..=5 {
        for lvl in 1..=5 {
            emit(format!("5\t{}\t0\tT{};ok", lvl, thr));
            emit(format!("5\t{}\t0,1\tN|T{}|A;fail,T{}|R;ok", lvl, thr, thr));
        }
    }
    // 2. every chain of length ≤ 5 over {A,N,R}, for a succeeding and a failing appender, with a
    //    healthy neighbour on each side
    let chains = all_chains(5);
    for c in &chains {
        for res in ["ok", "fail"] {
            emit(format!("5\t3\t0\t{};{}", chain_str(c), res));
            emit(format!("5\t3\t0,1,2\tN;ok,{};{},~;ok", chain_str(c), res));
        }
    }
    // 3. every assignment of ≤ 4 appenders × {ok,fail} × chain outcome (accepting, rejecting,
    //    all-neutral, empty chain)
    let outcomes = ["N|A|R", "N|R|A", "N|N", "~"];
    let max_apps = 4;
    for k in 1..=max_apps {
        let combos = (outcomes.len() * 2usize).pow(k as u32);
        for code in 0..combos {
            let mut c = code;
            let mut apps = vec![];
            for _ in 0..k {
                let o = c % (outcomes.len() * 2);
                c /= outcomes.len() * 2;
                apps.push(format!("{};{}", outcomes[o / 2], if o % 2 == 0 { "ok" } else { "fail" }));
            }
            let attached: Vec<String> = (0..k).map(|i| i.to_string()).collect();
            emit(format!("5\t2\t{}\t{}", attached.join(","), apps.join(",")));
        }
    }
    // 4. node level × record level gate around a failing appender
    for nl in 0..=5 {
        for lvl in 1..=5 {
            emit(format!("{}\t{}\t0,1\tN;fail,A;ok", nl, lvl));
        }
    }
    // 5. random: long chains, thresholds mixed in, repeated and permuted attachments
    for _ in 0..n {
        let n_apps = rng.range(1, if thorough { 8 } else { 6 }) as usize;
        let mut apps = vec![];
        for _ in 0..n_apps {
            let len = match rng.below(10) {
                0 => 0,
                1..=6 => rng.range(1, 6),
                7..=8 => rng.range(7, 20),
                _ => rng.range(21, 40),
            };
            let neutral_bias = rng.range(1, 9);
            let chain: Vec<String> = (0..len)
                .map(|_| {
                    if rng.below(10) < neutral_bias {
                        if rng.chance(1, 4) {
                            format!("T{}", rng.range(0, 5))
                        } else {
                            "N".to_owned()
                        }
                    } else {
                        match rng.below(5) {
                            0..=1 => "A".to_owned(),
                            2..=3 => "R".to_owned(),
                            _ => format!("T{}", rng.range(0, 5)),
                        }
                    }
                })
                .collect();
            let cs: Vec<&str> = chain.iter().map(|s| s.as_str()).collect();
            apps.push(format!("{};{}", chain_str(&cs), if rng.chance(2, 5) { "fail" } else { "ok" }));
        }
        let attached: Vec<String> = match rng.below(4) {
            0 => (0..n_apps).map(|i| i.to_string()).collect(),
            1 => {
                let mut v: Vec<usize> = (0..n_apps).collect();
                rng.shuffle(&mut v);
                v.iter().map(|i| i.to_string()).collect()
            }
            _ => {
                let k = rng.range(0, n_apps as u64 + 2);
                (0..k).map(|_| rng.below(n_apps as u64).to_string()).collect()
            }
        };
        let nl = if rng.chance(4, 5) { 5 } else { rng.range(0, 5) };
        emit(format!("{}\t{}\t{}\t{}", nl, rng.range(1, 5), enc_list(",", &attached), apps.join(",")));
    }
}

/// child-process entry point (unused by this property)
pub fn child(_args: &[String]) -> i32 {
    2
}
