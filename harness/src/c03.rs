//! C03 — filter chains and error fan-out: scripted `Filter`s and `Append`s that write every call into
//! one shared event log, the real `ThresholdFilter`, `Logger::new_with_err_handler`.
//! case: nodeLevel TAB recordLevel TAB attached TAB appenders [TAB path]   (see lean/Driver/C03.lean)
//! Filters: A N R = scripted answers; T<k> = the real `ThresholdFilter` inside a wrapper that records
//! the consultation; t<k> = the real `ThresholdFilter` object itself, bare (its consultation is not
//! observable). path: `builder` (default) = `Appender::builder()`; `config-yaml` = the same chain
//! rendered as a YAML file under $VERIF_SCRATCH and loaded with `load_config_file`; `config-json` =
//! rendered as JSON, parsed into `RawConfig`, then `appenders_lossy` + `Config::builder()…build_lossy`
//! exactly as `config::file::deserialize` does. The scripted kinds are registered in `Deserializers`.
use crate::proto::*;
use crate::rng::Rng;
use log::{Level, LevelFilter, Log, Record};
use log4rs::append::Append;
use log4rs::config::{load_config_file, Appender, Config, Deserialize, Deserializers, RawConfig, Root};
use log4rs::filter::threshold::ThresholdFilter;
use log4rs::filter::{Filter, Response};
use std::sync::{Arc, Mutex};

type EventLog = Arc<Mutex<Vec<String>>>;

#[derive(Clone, Copy, Debug, PartialEq)]
enum Script {
    Accept,
    Neutral,
    Reject,
    Threshold(u64),
    Bare(u64),
}

#[derive(Debug)]
struct ScriptedFilter {
    app: usize,
    idx: usize,
    answer: Script,
    log: EventLog,
}

impl Filter for ScriptedFilter {
    fn filter(&self, _: &Record) -> Response {
        self.log.lock().unwrap().push(format!("f{}.{}", self.app, self.idx));
        match self.answer {
            Script::Accept => Response::Accept,
            Script::Neutral => Response::Neutral,
            Script::Reject => Response::Reject,
            Script::Threshold(_) | Script::Bare(_) => unreachable!(),
        }
    }
}

/// the real threshold filter, with the call recorded
#[derive(Debug)]
struct CountingThreshold {
    app: usize,
    idx: usize,
    inner: ThresholdFilter,
    log: EventLog,
}

impl Filter for CountingThreshold {
    fn filter(&self, r: &Record) -> Response {
        self.log.lock().unwrap().push(format!("f{}.{}", self.app, self.idx));
        self.inner.filter(r)
    }
}

#[derive(Debug)]
struct ScriptedAppend {
    app: usize,
    fails: bool,
    log: EventLog,
}

impl Append for ScriptedAppend {
    fn append(&self, _: &Record) -> anyhow::Result<()> {
        self.log.lock().unwrap().push(format!("a{}", self.app));
        if self.fails {
            Err(anyhow::anyhow!("fail:{}", self.app))
        } else {
            Ok(())
        }
    }
    fn flush(&self) {}
}

fn level_filter(n: u64) -> Option<LevelFilter> {
    Some(match n {
        0 => LevelFilter::Off,
        1 => LevelFilter::Error,
        2 => LevelFilter::Warn,
        3 => LevelFilter::Info,
        4 => LevelFilter::Debug,
        5 => LevelFilter::Trace,
        _ => return None,
    })
}

fn level(n: u64) -> Option<Level> {
    Some(match n {
        1 => Level::Error,
        2 => Level::Warn,
        3 => Level::Info,
        4 => Level::Debug,
        5 => Level::Trace,
        _ => return None,
    })
}

fn dec_filter(s: &str) -> Option<Script> {
    Some(match s {
        "A" => Script::Accept,
        "N" => Script::Neutral,
        "R" => Script::Reject,
        _ => {
            if let Some(k) = s.strip_prefix('T') {
                let k: u64 = k.parse().ok()?;
                level_filter(k)?;
                Script::Threshold(k)
            } else {
                let k: u64 = s.strip_prefix('t')?.parse().ok()?;
                level_filter(k)?;
                Script::Bare(k)
            }
        }
    })
}

#[derive(Clone, Copy, PartialEq)]
enum Path {
    Builder,
    ConfigYaml,
    ConfigJson,
}

fn boxed_filter(app: usize, idx: usize, f: Script, log: &EventLog) -> Box<dyn Filter> {
    match f {
        Script::Threshold(k) => Box::new(CountingThreshold {
            app,
            idx,
            inner: ThresholdFilter::new(level_filter(k).unwrap()),
            log: log.clone(),
        }),
        Script::Bare(k) => Box::new(ThresholdFilter::new(level_filter(k).unwrap())),
        other => Box::new(ScriptedFilter { app, idx, answer: other, log: log.clone() }),
    }
}

/// path `builder`: the chain is attached filter by filter through `Appender::builder()`
fn config_via_builder(table: &[(Vec<Script>, bool)], attached: &[usize], node_level: LevelFilter, ev: &EventLog) -> Config {
    let mut b = Config::builder();
    for (i, (chain, fails)) in table.iter().enumerate() {
        let mut ab = Appender::builder();
        for (j, f) in chain.iter().enumerate() {
            ab = ab.filter(boxed_filter(i, j, *f, ev));
        }
        b = b.appender(ab.build(i.to_string(), Box::new(ScriptedAppend { app: i, fails: *fails, log: ev.clone() })));
    }
    let root = Root::builder().appenders(attached.iter().map(|i| i.to_string())).build(node_level);
    b.build(root).expect("config of the case is well-formed")
}

// ---- the scripted kinds as configuration-file components --------------------------------------

#[derive(serde::Deserialize)]
struct ScriptedFilterCfg {
    app: usize,
    idx: usize,
    answer: String,
}

struct ScriptedFilterDe(EventLog);

impl Deserialize for ScriptedFilterDe {
    type Trait = dyn Filter;
    type Config = ScriptedFilterCfg;
    fn deserialize(&self, c: ScriptedFilterCfg, _: &Deserializers) -> anyhow::Result<Box<dyn Filter>> {
        let answer = match c.answer.as_str() {
            "A" => Script::Accept,
            "N" => Script::Neutral,
            "R" => Script::Reject,
            other => anyhow::bail!("unknown scripted answer {}", other),
        };
        Ok(Box::new(ScriptedFilter { app: c.app, idx: c.idx, answer, log: self.0.clone() }))
    }
}

#[derive(serde::Deserialize)]
struct CountedThresholdCfg {
    app: usize,
    idx: usize,
    level: u64,
}

struct CountedThresholdDe(EventLog);

impl Deserialize for CountedThresholdDe {
    type Trait = dyn Filter;
    type Config = CountedThresholdCfg;
    fn deserialize(&self, c: CountedThresholdCfg, _: &Deserializers) -> anyhow::Result<Box<dyn Filter>> {
        let level = level_filter(c.level).ok_or_else(|| anyhow::anyhow!("level"))?;
        Ok(Box::new(CountingThreshold { app: c.app, idx: c.idx, inner: ThresholdFilter::new(level), log: self.0.clone() }))
    }
}

#[derive(serde::Deserialize)]
struct ScriptedAppendCfg {
    app: usize,
    fails: bool,
}

struct ScriptedAppendDe(EventLog);

impl Deserialize for ScriptedAppendDe {
    type Trait = dyn Append;
    type Config = ScriptedAppendCfg;
    fn deserialize(&self, c: ScriptedAppendCfg, _: &Deserializers) -> anyhow::Result<Box<dyn Append>> {
        Ok(Box::new(ScriptedAppend { app: c.app, fails: c.fails, log: self.0.clone() }))
    }
}

fn level_word(k: u64) -> &'static str {
    ["off", "error", "warn", "info", "debug", "trace"][k as usize]
}

/// the case as a configuration document; every chain in declaration order
fn document(table: &[(Vec<Script>, bool)], attached: &[usize], node_level: u64) -> serde_json::Value {
    use serde_json::json;
    let mut appenders = serde_json::Map::new();
    for (i, (chain, fails)) in table.iter().enumerate() {
        let filters: Vec<serde_json::Value> = chain
            .iter()
            .enumerate()
            .map(|(j, f)| match f {
                Script::Accept => json!({"kind": "scripted", "app": i, "idx": j, "answer": "A"}),
                Script::Neutral => json!({"kind": "scripted", "app": i, "idx": j, "answer": "N"}),
                Script::Reject => json!({"kind": "scripted", "app": i, "idx": j, "answer": "R"}),
                Script::Threshold(k) => json!({"kind": "counted_threshold", "app": i, "idx": j, "level": k}),
                // the shipped kind, resolved by the default deserializer map
                Script::Bare(k) => json!({"kind": "threshold", "level": level_word(*k)}),
            })
            .collect();
        let mut entry = serde_json::Map::new();
        entry.insert("kind".to_owned(), json!("scripted_append"));
        entry.insert("app".to_owned(), json!(i));
        entry.insert("fails".to_owned(), json!(fails));
        // an appender without filters is declared without the key now and then
        if !(filters.is_empty() && i % 2 == 0) {
            entry.insert("filters".to_owned(), serde_json::Value::Array(filters));
        }
        appenders.insert(i.to_string(), serde_json::Value::Object(entry));
    }
    let names: Vec<String> = attached.iter().map(|i| i.to_string()).collect();
    json!({
        "appenders": appenders,
        "root": { "level": level_word(node_level), "appenders": names },
    })
}

fn deserializers(ev: &EventLog) -> Deserializers {
    let mut d = Deserializers::default();
    d.insert("scripted", ScriptedFilterDe(ev.clone()));
    d.insert("counted_threshold", CountedThresholdDe(ev.clone()));
    d.insert("scripted_append", ScriptedAppendDe(ev.clone()));
    d
}

static FILE_NO: std::sync::atomic::AtomicUsize = std::sync::atomic::AtomicUsize::new(0);

/// path `config-yaml`: a file on disk through the public `load_config_file`
fn config_via_yaml_file(doc: &serde_json::Value, ev: &EventLog) -> Result<Config, String> {
    let dir = std::env::var("VERIF_SCRATCH").unwrap_or_else(|_| std::env::temp_dir().to_string_lossy().into_owned());
    let n = FILE_NO.fetch_add(1, std::sync::atomic::Ordering::SeqCst);
    let path = std::path::Path::new(&dir).join(format!("c03_{}_{}.yml", std::process::id(), n));
    let text = serde_yaml::to_string(doc).map_err(|e| e.to_string())?;
    std::fs::create_dir_all(&dir).map_err(|e| e.to_string())?;
    std::fs::write(&path, text).map_err(|e| e.to_string())?;
    let r = load_config_file(&path, deserializers(ev)).map_err(|e| e.to_string());
    let _ = std::fs::remove_file(&path);
    r
}

/// path `config-json`: `RawConfig` in memory, then the steps of `config::file::deserialize`
fn config_via_raw_json(doc: &serde_json::Value, ev: &EventLog) -> Result<Config, String> {
    let text = serde_json::to_string(doc).map_err(|e| e.to_string())?;
    let raw: RawConfig = serde_json::from_str(&text).map_err(|e| e.to_string())?;
    let (appenders, errors) = raw.appenders_lossy(&deserializers(ev));
    if !errors.is_empty() {
        return Err(format!("{:?}", errors));
    }
    let (config, errors) = Config::builder().appenders(appenders).loggers(raw.loggers()).build_lossy(raw.root());
    if !errors.is_empty() {
        return Err(format!("{:?}", errors));
    }
    Ok(config)
}

pub fn exec(fields: &[&str]) -> String {
    if fields.len() != 4 && fields.len() != 5 {
        return "bad-case".to_owned();
    }
    let parsed = (|| {
        let node_num: u64 = fields[0].parse().ok()?;
        let node_level = level_filter(node_num)?;
        let rec_level = level(fields[1].parse().ok()?)?;
        let attached: Vec<usize> = dec_list(',', fields[2]).iter().map(|x| x.parse().ok()).collect::<Option<_>>()?;
        let mut table: Vec<(Vec<Script>, bool)> = vec![];
        for a in dec_list(',', fields[3]) {
            let p: Vec<&str> = a.split(';').collect();
            if p.len() != 2 {
                return None;
            }
            let chain: Vec<Script> = dec_list('|', p[0]).iter().map(|f| dec_filter(f)).collect::<Option<_>>()?;
            let fails = match p[1] {
                "ok" => false,
                "fail" => true,
                _ => return None,
            };
            table.push((chain, fails));
        }
        if attached.iter().any(|i| *i >= table.len()) {
            return None;
        }
        let path = match fields.get(4).copied() {
            None | Some("builder") => Path::Builder,
            Some("config-yaml") => Path::ConfigYaml,
            Some("config-json") => Path::ConfigJson,
            _ => return None,
        };
        Some((node_num, node_level, rec_level, attached, table, path))
    })();
    let (node_num, node_level, rec_level, attached, table, path) = match parsed {
        Some(p) => p,
        None => return "bad-case".to_owned(),
    };
    let events: EventLog = Arc::new(Mutex::new(vec![]));
    let ev = events.clone();
    let r = guarded(std::panic::AssertUnwindSafe(move || -> Result<(), String> {
        let config = match path {
            Path::Builder => config_via_builder(&table, &attached, node_level, &ev),
            Path::ConfigYaml => config_via_yaml_file(&document(&table, &attached, node_num), &ev)?,
            Path::ConfigJson => config_via_raw_json(&document(&table, &attached, node_num), &ev)?,
        };
        let hlog = ev.clone();
        let logger = log4rs::Logger::new_with_err_handler(
            config,
            Box::new(move |e: &anyhow::Error| {
                let msg = e.to_string();
                let who = msg.strip_prefix("fail:").unwrap_or("?").to_owned();
                hlog.lock().unwrap().push(format!("h{}", who));
            }),
        );
        logger.log(&Record::builder().level(rec_level).target("some::target").args(format_args!("m")).build());
        Ok(())
    }));
    match r {
        Ok(Ok(())) => enc_list(",", &events.lock().unwrap()),
        Ok(Err(_)) => "CONFIG-ERROR".to_owned(),
        Err(_) => "PANIC".to_owned(),
    }
}

// ------------------------------------------------------------------------------------------------

fn chain_str(chain: &[&str]) -> String {
    if chain.is_empty() {
        "~".to_owned()
    } else {
        chain.join("|")
    }
}

fn all_chains(max_len: usize) -> Vec<Vec<&'static str>> {
    let mut out: Vec<Vec<&'static str>> = vec![vec![]];
    let mut layer: Vec<Vec<&'static str>> = vec![vec![]];
    for _ in 0..max_len {
        let mut next = vec![];
        for c in &layer {
            for r in ["A", "N", "R"] {
                let mut d = c.clone();
                d.push(r);
                next.push(d);
            }
        }
        out.extend(next.iter().cloned());
        layer = next;
    }
    out
}

pub fn gen(rng: &mut Rng, n: usize, thorough: bool, emit: &mut dyn FnMut(String)) {
    // 1. the real threshold filter: all 6 thresholds × 5 record levels, alone and behind/before others
    for thr in 0..=5 {
        for lvl in 1..=5 {
            emit(format!("5\t{}\t0\tT{};ok", lvl, thr));
            emit(format!("5\t{}\t0,1\tN|T{}|A;fail,T{}|R;ok", lvl, thr, thr));
        }
    }
    // 2. every chain of length ≤ 5 over {A,N,R}, for a succeeding and a failing appender, with a
    //    healthy neighbour on each side
    let chains = all_chains(5);
    for c in &chains {
        for res in ["ok", "fail"] {
            emit(format!("5\t3\t0\t{};{}", chain_str(c), res));
            emit(format!("5\t3\t0,1,2\tN;ok,{};{},~;ok", chain_str(c), res));
        }
    }
    // 3. every assignment of ≤ 4 appenders × {ok,fail} × chain outcome (accepting, rejecting,
    //    all-neutral, empty chain)
    let outcomes = ["N|A|R", "N|R|A", "N|N", "~"];
    let max_apps = 4;
    for k in 1..=max_apps {
        let combos = (outcomes.len() * 2usize).pow(k as u32);
        for code in 0..combos {
            let mut c = code;
            let mut apps = vec![];
            for _ in 0..k {
                let o = c % (outcomes.len() * 2);
                c /= outcomes.len() * 2;
                apps.push(format!("{};{}", outcomes[o / 2], if o % 2 == 0 { "ok" } else { "fail" }));
            }
            let attached: Vec<String> = (0..k).map(|i| i.to_string()).collect();
            emit(format!("5\t2\t{}\t{}", attached.join(","), apps.join(",")));
        }
    }
    // 4. node level × record level gate around a failing appender
    for nl in 0..=5 {
        for lvl in 1..=5 {
            emit(format!("{}\t{}\t0,1\tN;fail,A;ok", nl, lvl));
        }
    }
    // 5. the real `ThresholdFilter` object, any number of them at any position, mixed with
    //    scripted filters, through all three construction paths, all 5 record levels.
    //    thorough: every chain of length ≤ 3 over {A,N,R,t0..t5}; quick: every chain of length ≤ 2
    //    over that alphabet and every chain of length 3 over {A,N,R,t1,t3}.
    let full: Vec<String> = ["A", "N", "R", "t0", "t1", "t2", "t3", "t4", "t5"].iter().map(|s| s.to_string()).collect();
    let small: Vec<String> = ["A", "N", "R", "t1", "t3"].iter().map(|s| s.to_string()).collect();
    let mut mixed: Vec<Vec<String>> = vec![vec![]];
    for a in &full {
        mixed.push(vec![a.clone()]);
        for b in &full {
            mixed.push(vec![a.clone(), b.clone()]);
        }
    }
    let third = if thorough { &full } else { &small };
    for a in third {
        for b in third {
            for c in third {
                mixed.push(vec![a.clone(), b.clone(), c.clone()]);
            }
        }
    }
    for (k, chain) in mixed.iter().enumerate() {
        let cs: Vec<&str> = chain.iter().map(|s| s.as_str()).collect();
        for lvl in 1..=5u64 {
            let res = if (k as u64 + lvl) % 3 == 0 { "fail" } else { "ok" };
            for path in ["builder", "config-yaml", "config-json"] {
                emit(format!("5\t{}\t0\t{};{}\t{}", lvl, chain_str(&cs), res, path));
            }
        }
    }
    // 6. the earlier exhaustive scripted chains (length ≤ 4) once more through the file path, with
    //    a counted threshold between neighbours
    for c in all_chains(4).iter() {
        emit(format!("5\t3\t0,1,2\tT2|N;ok,{};fail,~;ok\tconfig-yaml", chain_str(c)));
    }
    // 7. random: long chains, thresholds (counted and bare) mixed in, repeated and permuted
    //    attachments, any construction path
    for _ in 0..n {
        let n_apps = rng.range(1, if thorough { 8 } else { 6 }) as usize;
        let mut apps = vec![];
        for _ in 0..n_apps {
            let len = match rng.below(10) {
                0 => 0,
                1..=6 => rng.range(1, 6),
                7..=8 => rng.range(7, 20),
                _ => rng.range(21, 40),
            };
            let neutral_bias = rng.range(1, 9);
            let chain: Vec<String> = (0..len)
                .map(|_| {
                    if rng.below(10) < neutral_bias {
                        if rng.chance(1, 4) {
                            format!("{}{}", if rng.chance(1, 2) { "T" } else { "t" }, rng.range(0, 5))
                        } else {
                            "N".to_owned()
                        }
                    } else {
                        match rng.below(5) {
                            0..=1 => "A".to_owned(),
                            2..=3 => "R".to_owned(),
                            _ => format!("{}{}", if rng.chance(1, 2) { "T" } else { "t" }, rng.range(0, 5)),
                        }
                    }
                })
                .collect();
            let cs: Vec<&str> = chain.iter().map(|s| s.as_str()).collect();
            apps.push(format!("{};{}", chain_str(&cs), if rng.chance(2, 5) { "fail" } else { "ok" }));
        }
        let attached: Vec<String> = match rng.below(4) {
            0 => (0..n_apps).map(|i| i.to_string()).collect(),
            1 => {
                let mut v: Vec<usize> = (0..n_apps).collect();
                rng.shuffle(&mut v);
                v.iter().map(|i| i.to_string()).collect()
            }
            _ => {
                let k = rng.range(0, n_apps as u64 + 2);
                (0..k).map(|_| rng.below(n_apps as u64).to_string()).collect()
            }
        };
        let nl = if rng.chance(4, 5) { 5 } else { rng.range(0, 5) };
        let path = match rng.below(4) {
            0..=1 => "builder",
            2 => "config-yaml",
            _ => "config-json",
        };
        emit(format!("{}\t{}\t{}\t{}\t{}", nl, rng.range(1, 5), enc_list(",", &attached), apps.join(","), path));
    }
}

/// child-process entry point (unused by this property)
pub fn child(_args: &[String]) -> i32 {
    2
}
