//! C03 — filter chains and error fan-out: scripted `Filter`s and `Append`s that write every call into
//! one shared event log, the real `ThresholdFilter`, configured and default error handlers,
//! `Handle::set_config`, named loggers, five construction paths.
//! case (fields 5–8 optional): rootLevel TAB recordLevel TAB attached TAB appenders [TAB path [TAB history
//! [TAB loggers [TAB target]]]]   — see lean/Driver/C03.lean for the grammar.
//! Filters: A N R = scripted answers; T<k> = the real `ThresholdFilter` inside a wrapper that records
//! the consultation; t<k> = the real `ThresholdFilter` object itself, bare (its consultation is not
//! observable); B = an entry that does not deserialize, `!` = `filters:` is not a sequence (both on
//! configuration paths only). Results: ok | fail | p<bits> (per call) | panic.
//! Paths: `builder` = `Appender::builder().filter(..)`; `builder-many` = first filter through `.filter`,
//! the others through one `.filters(iter)`; `config-yaml` / `config-toml` = the case rendered as a file
//! under $VERIF_SCRATCH and loaded with `load_config_file`; `config-json` = rendered as JSON, parsed
//! into `RawConfig`, then `appenders_lossy` + `Config::builder()…build_lossy` exactly as
//! `config::file::deserialize` does. The scripted kinds are registered in `Deserializers`.
use crate::proto::*;
use crate::rng::Rng;
use log::{Level, LevelFilter, Log, Record};
use log4rs::append::Append;
use log4rs::config::{load_config_file, Appender, Config, Deserialize, Deserializers, Logger as LoggerCfg, RawConfig, Root};
use log4rs::filter::threshold::ThresholdFilter;
use log4rs::filter::{Filter, Response};
use std::sync::atomic::{AtomicUsize, Ordering};
use std::sync::{Arc, Mutex};

type EventLog = Arc<Mutex<Vec<String>>>;

#[derive(Clone, Copy, Debug, PartialEq)]
enum Script {
    Accept,
    Neutral,
    Reject,
    Threshold(u64),
    Bare(u64),
    Bad,
}

#[derive(Debug)]
struct ScriptedFilter {
    app: usize,
    idx: usize,
    answer: Script,
    log: EventLog,
}

impl Filter for ScriptedFilter {
    fn filter(&self, _: &Record) -> Response {
        self.log.lock().unwrap().push(format!("f{}.{}", self.app, self.idx));
        match self.answer {
            Script::Accept => Response::Accept,
            Script::Neutral => Response::Neutral,
            Script::Reject => Response::Reject,
            _ => unreachable!(),
        }
    }
}

/// the real threshold filter, with the call recorded
#[derive(Debug)]
struct CountingThreshold {
    app: usize,
    idx: usize,
    inner: ThresholdFilter,
    log: EventLog,
}

impl Filter for CountingThreshold {
    fn filter(&self, r: &Record) -> Response {
        self.log.lock().unwrap().push(format!("f{}.{}", self.app, self.idx));
        self.inner.filter(r)
    }
}

/// what the scripted appender's `append` does on its k-th call
#[derive(Clone, Debug, PartialEq)]
enum Res {
    Ok,
    Fail,
    Pattern(Vec<bool>),
    Panic,
}

impl Res {
    fn word(&self) -> String {
        match self {
            Res::Ok => "ok".to_owned(),
            Res::Fail => "fail".to_owned(),
            Res::Panic => "panic".to_owned(),
            Res::Pattern(b) => format!("p{}", b.iter().map(|x| if *x { '1' } else { '0' }).collect::<String>()),
        }
    }
    fn parse(s: &str) -> Option<Res> {
        Some(match s {
            "ok" => Res::Ok,
            "fail" => Res::Fail,
            "panic" => Res::Panic,
            _ => {
                let bits = s.strip_prefix('p')?;
                Res::Pattern(
                    bits.chars()
                        .map(|c| match c {
                            '1' => Some(true),
                            '0' => Some(false),
                            _ => None,
                        })
                        .collect::<Option<_>>()?,
                )
            }
        })
    }
}

#[derive(Debug)]
struct ScriptedAppend {
    app: usize,
    res: Res,
    calls: AtomicUsize,
    log: EventLog,
}

impl Append for ScriptedAppend {
    fn append(&self, _: &Record) -> anyhow::Result<()> {
        let k = self.calls.fetch_add(1, Ordering::SeqCst);
        self.log.lock().unwrap().push(format!("a{}", self.app));
        let fails = match &self.res {
            Res::Ok => false,
            Res::Fail => true,
            Res::Pattern(b) => b.get(k).copied().unwrap_or(false),
            Res::Panic => panic!("scripted appender {} panics", self.app),
        };
        if fails {
            Err(anyhow::anyhow!("fail:{}", self.app))
        } else {
            Ok(())
        }
    }
    fn flush(&self) {}
}

fn level_filter(n: u64) -> Option<LevelFilter> {
    Some(match n {
        0 => LevelFilter::Off,
        1 => LevelFilter::Error,
        2 => LevelFilter::Warn,
        3 => LevelFilter::Info,
        4 => LevelFilter::Debug,
        5 => LevelFilter::Trace,
        _ => return None,
    })
}

fn level(n: u64) -> Option<Level> {
    Some(match n {
        1 => Level::Error,
        2 => Level::Warn,
        3 => Level::Info,
        4 => Level::Debug,
        5 => Level::Trace,
        _ => return None,
    })
}

fn dec_filter(s: &str) -> Option<Script> {
    Some(match s {
        "A" => Script::Accept,
        "N" => Script::Neutral,
        "R" => Script::Reject,
        "B" => Script::Bad,
        _ => {
            if let Some(k) = s.strip_prefix('T') {
                let k: u64 = k.parse().ok()?;
                level_filter(k)?;
                Script::Threshold(k)
            } else {
                let k: u64 = s.strip_prefix('t')?.parse().ok()?;
                level_filter(k)?;
                Script::Bare(k)
            }
        }
    })
}

#[derive(Clone, Copy, PartialEq)]
enum Path {
    Builder,
    BuilderMany,
    ConfigYaml,
    ConfigJson,
    ConfigToml,
}

impl Path {
    fn is_config(self) -> bool {
        !matches!(self, Path::Builder | Path::BuilderMany)
    }
}

/// one declared appender; `chain == None`: `filters:` is not a sequence
struct Decl {
    chain: Option<Vec<Script>>,
    res: Res,
}

struct LoggerIn {
    name: String,
    level: u64,
    additive: bool,
    att: Vec<usize>,
}

struct Case {
    root_level: u64,
    rec_level: Level,
    attached: Vec<usize>,
    table: Vec<Decl>,
    path: Path,
    hist: Hist,
    loggers: Vec<LoggerIn>,
    target: String,
}

fn boxed_filter(app: usize, idx: usize, f: Script, log: &EventLog) -> Box<dyn Filter> {
    match f {
        Script::Threshold(k) => Box::new(CountingThreshold {
            app,
            idx,
            inner: ThresholdFilter::new(level_filter(k).unwrap()),
            log: log.clone(),
        }),
        Script::Bare(k) => Box::new(ThresholdFilter::new(level_filter(k).unwrap())),
        other => Box::new(ScriptedFilter { app, idx, answer: other, log: log.clone() }),
    }
}

/// paths `builder` / `builder-many`: the chain is attached through `Appender::builder()`
fn config_via_builder(c: &Case, ev: &EventLog) -> Config {
    let mut b = Config::builder();
    for (i, d) in c.table.iter().enumerate() {
        let chain = d.chain.clone().unwrap_or_default();
        let mut ab = Appender::builder();
        if c.path == Path::BuilderMany {
            let mut it = chain.iter().enumerate();
            if let Some((j, f)) = it.next() {
                ab = ab.filter(boxed_filter(i, j, *f, ev));
            }
            let rest: Vec<Box<dyn Filter>> = it.map(|(j, f)| boxed_filter(i, j, *f, ev)).collect();
            ab = ab.filters(rest);
        } else {
            for (j, f) in chain.iter().enumerate() {
                ab = ab.filter(boxed_filter(i, j, *f, ev));
            }
        }
        b = b.appender(ab.build(
            i.to_string(),
            Box::new(ScriptedAppend { app: i, res: d.res.clone(), calls: AtomicUsize::new(0), log: ev.clone() }),
        ));
    }
    for l in &c.loggers {
        b = b.logger(
            LoggerCfg::builder()
                .additive(l.additive)
                .appenders(l.att.iter().map(|i| i.to_string()))
                .build(l.name.clone(), level_filter(l.level).unwrap()),
        );
    }
    let root = Root::builder().appenders(c.attached.iter().map(|i| i.to_string())).build(level_filter(c.root_level).unwrap());
    b.build(root).expect("config of the case is well-formed")
}

// ---- the scripted kinds as configuration-file components --------------------------------------

#[derive(serde::Deserialize)]
struct ScriptedFilterCfg {
    app: usize,
    idx: usize,
    answer: String,
}

struct ScriptedFilterDe(EventLog);

impl Deserialize for ScriptedFilterDe {
    type Trait = dyn Filter;
    type Config = ScriptedFilterCfg;
    fn deserialize(&self, c: ScriptedFilterCfg, _: &Deserializers) -> anyhow::Result<Box<dyn Filter>> {
        let answer = match c.answer.as_str() {
            "A" => Script::Accept,
            "N" => Script::Neutral,
            "R" => Script::Reject,
            other => anyhow::bail!("unknown scripted answer {}", other),
        };
        Ok(Box::new(ScriptedFilter { app: c.app, idx: c.idx, answer, log: self.0.clone() }))
    }
}

#[derive(serde::Deserialize)]
struct CountedThresholdCfg {
    app: usize,
    idx: usize,
    level: u64,
}

struct CountedThresholdDe(EventLog);

impl Deserialize for CountedThresholdDe {
    type Trait = dyn Filter;
    type Config = CountedThresholdCfg;
    fn deserialize(&self, c: CountedThresholdCfg, _: &Deserializers) -> anyhow::Result<Box<dyn Filter>> {
        let level = level_filter(c.level).ok_or_else(|| anyhow::anyhow!("level"))?;
        Ok(Box::new(CountingThreshold { app: c.app, idx: c.idx, inner: ThresholdFilter::new(level), log: self.0.clone() }))
    }
}

#[derive(serde::Deserialize)]
struct ScriptedAppendCfg {
    app: usize,
    result: String,
}

struct ScriptedAppendDe(EventLog);

impl Deserialize for ScriptedAppendDe {
    type Trait = dyn Append;
    type Config = ScriptedAppendCfg;
    fn deserialize(&self, c: ScriptedAppendCfg, _: &Deserializers) -> anyhow::Result<Box<dyn Append>> {
        let res = Res::parse(&c.result).ok_or_else(|| anyhow::anyhow!("result"))?;
        Ok(Box::new(ScriptedAppend { app: c.app, res, calls: AtomicUsize::new(0), log: self.0.clone() }))
    }
}

fn level_word(k: u64) -> &'static str {
    ["off", "error", "warn", "info", "debug", "trace"][k as usize]
}

/// the case as a configuration document; every chain in declaration order
fn document(c: &Case) -> serde_json::Value {
    use serde_json::json;
    let mut appenders = serde_json::Map::new();
    for (i, d) in c.table.iter().enumerate() {
        let mut entry = serde_json::Map::new();
        entry.insert("kind".to_owned(), json!("scripted_append"));
        entry.insert("app".to_owned(), json!(i));
        entry.insert("result".to_owned(), json!(d.res.word()));
        match &d.chain {
            // `filters` present but not a sequence
            None => {
                entry.insert("filters".to_owned(), json!(3));
            }
            Some(chain) => {
                let filters: Vec<serde_json::Value> = chain
                    .iter()
                    .enumerate()
                    .map(|(j, f)| match f {
                        Script::Accept => json!({"kind": "scripted", "app": i, "idx": j, "answer": "A"}),
                        Script::Neutral => json!({"kind": "scripted", "app": i, "idx": j, "answer": "N"}),
                        Script::Reject => json!({"kind": "scripted", "app": i, "idx": j, "answer": "R"}),
                        Script::Threshold(k) => json!({"kind": "counted_threshold", "app": i, "idx": j, "level": k}),
                        // the shipped kind, resolved by the default deserializer map
                        Script::Bare(k) => json!({"kind": "threshold", "level": level_word(*k)}),
                        // four ways of not deserializing
                        Script::Bad => match (i + j) % 4 {
                            0 => json!({"app": i, "idx": j, "answer": "A"}),
                            1 => json!({"kind": "no_such_kind", "level": "error"}),
                            2 => json!({"kind": "scripted", "app": i, "idx": j, "answer": "X"}),
                            _ => json!({"kind": "threshold", "level": "loud"}),
                        },
                    })
                    .collect();
                // an appender without filters is declared without the key
                if !filters.is_empty() {
                    entry.insert("filters".to_owned(), serde_json::Value::Array(filters));
                }
            }
        }
        appenders.insert(i.to_string(), serde_json::Value::Object(entry));
    }
    let names: Vec<String> = c.attached.iter().map(|i| i.to_string()).collect();
    let mut loggers = serde_json::Map::new();
    for l in &c.loggers {
        let att: Vec<String> = l.att.iter().map(|i| i.to_string()).collect();
        loggers.insert(l.name.clone(), json!({"level": level_word(l.level), "additive": l.additive, "appenders": att}));
    }
    json!({
        "appenders": appenders,
        "root": { "level": level_word(c.root_level), "appenders": names },
        "loggers": loggers,
    })
}

fn deserializers(ev: &EventLog) -> Deserializers {
    let mut d = Deserializers::default();
    d.insert("scripted", ScriptedFilterDe(ev.clone()));
    d.insert("counted_threshold", CountedThresholdDe(ev.clone()));
    d.insert("scripted_append", ScriptedAppendDe(ev.clone()));
    d
}

static FILE_NO: AtomicUsize = AtomicUsize::new(0);

fn scratch_file(ext: &str) -> std::path::PathBuf {
    let dir = std::env::var("VERIF_SCRATCH").unwrap_or_else(|_| std::env::temp_dir().to_string_lossy().into_owned());
    let n = FILE_NO.fetch_add(1, Ordering::SeqCst);
    let _ = std::fs::create_dir_all(&dir);
    std::path::Path::new(&dir).join(format!("c03_{}_{}.{}", std::process::id(), n, ext))
}

/// paths `config-yaml` / `config-toml`: a file on disk through the public `load_config_file`.
/// What the loader reports (it writes `log4rs: …` lines to stderr) is swallowed.
fn config_via_file(doc: &serde_json::Value, toml: bool, noisy: bool, ev: &EventLog) -> Result<Config, String> {
    let (text, ext) = if toml {
        let v = toml::Value::try_from(doc).map_err(|e| e.to_string())?;
        (toml::to_string(&v).map_err(|e| e.to_string())?, "toml")
    } else {
        (serde_yaml::to_string(doc).map_err(|e| e.to_string())?, "yml")
    };
    let path = scratch_file(ext);
    std::fs::write(&path, text).map_err(|e| e.to_string())?;
    let mut r = Err("not run".to_owned());
    if noisy {
        let _ = capture_stderr(|| {
            r = load_config_file(&path, deserializers(ev)).map_err(|e| e.to_string());
        });
    } else {
        r = load_config_file(&path, deserializers(ev)).map_err(|e| e.to_string());
    }
    let _ = std::fs::remove_file(&path);
    r
}

/// path `config-json`: `RawConfig` in memory, then the steps of `config::file::deserialize`;
/// also the number of errors `appenders_lossy` reports
fn config_via_raw_json(doc: &serde_json::Value, ev: &EventLog) -> Result<(Config, usize), String> {
    let text = serde_json::to_string(doc).map_err(|e| e.to_string())?;
    let raw: RawConfig = serde_json::from_str(&text).map_err(|e| e.to_string())?;
    let (appenders, errors) = raw.appenders_lossy(&deserializers(ev));
    // `AppenderErrors` exposes no length; its Debug output lists one entry per error
    let dbg = format!("{:?}", errors);
    let n_err = dbg.matches("Filter(").count() + dbg.matches("Appender(").count();
    let (config, _stripped) = Config::builder().appenders(appenders).loggers(raw.loggers()).build_lossy(raw.root());
    Ok((config, n_err))
}

/// Runs `f` with file descriptor 2 pointing at a scratch file and returns what was written to it.
/// (The default error handler of `SharedLogger::new` writes `log4rs: <error>` lines to stderr.)
fn capture_stderr(f: impl FnOnce()) -> String {
    use std::os::unix::io::AsRawFd;
    let path = scratch_file("stderr");
    let file = match std::fs::OpenOptions::new().create(true).write(true).truncate(true).open(&path) {
        Ok(f) => f,
        Err(_) => {
            f();
            return "CAPTURE-FAILED".to_owned();
        }
    };
    let saved = unsafe { libc::dup(2) };
    unsafe { libc::dup2(file.as_raw_fd(), 2) };
    let r = std::panic::catch_unwind(std::panic::AssertUnwindSafe(f));
    unsafe {
        libc::dup2(saved, 2);
        libc::close(saved);
    }
    drop(file);
    let text = std::fs::read_to_string(&path).unwrap_or_default();
    let _ = std::fs::remove_file(&path);
    if let Err(e) = r {
        std::panic::resume_unwind(e);
    }
    text
}

/// which error handler the logger is created with, and how many times it is reconfigured
/// (`Handle::set_config` with a freshly constructed, equal configuration) before the record is logged
#[derive(Clone, Copy)]
struct Hist {
    configured: bool,
    reconfs: usize,
}

fn dec_hist(s: Option<&str>) -> Option<Hist> {
    let s = match s {
        None => return Some(Hist { configured: true, reconfs: 0 }),
        Some(s) => s,
    };
    let mut cs = s.chars();
    let configured = match cs.next()? {
        'c' => true,
        'd' => false,
        _ => return None,
    };
    let reconfs: usize = cs.as_str().parse().ok()?;
    Some(Hist { configured, reconfs })
}

fn decode(fields: &[&str]) -> Option<Case> {
    if fields.len() < 4 || fields.len() > 8 {
        return None;
    }
    let root_level: u64 = fields[0].parse().ok()?;
    level_filter(root_level)?;
    let rec_level = level(fields[1].parse().ok()?)?;
    let attached: Vec<usize> = dec_list(',', fields[2]).iter().map(|x| x.parse().ok()).collect::<Option<_>>()?;
    let mut table: Vec<Decl> = vec![];
    for a in dec_list(',', fields[3]) {
        let p: Vec<&str> = a.split(';').collect();
        if p.len() != 2 {
            return None;
        }
        let chain = if p[0] == "!" {
            None
        } else {
            Some(dec_list('|', p[0]).iter().map(|f| dec_filter(f)).collect::<Option<Vec<Script>>>()?)
        };
        table.push(Decl { chain, res: Res::parse(p[1])? });
    }
    let path = match fields.get(4).copied() {
        None | Some("builder") => Path::Builder,
        Some("builder-many") => Path::BuilderMany,
        Some("config-yaml") => Path::ConfigYaml,
        Some("config-json") => Path::ConfigJson,
        Some("config-toml") => Path::ConfigToml,
        _ => return None,
    };
    let hist = dec_hist(fields.get(5).copied())?;
    let mut loggers = vec![];
    for l in dec_list(',', fields.get(6).copied().unwrap_or("~")) {
        let p: Vec<&str> = l.split(';').collect();
        if p.len() != 4 {
            return None;
        }
        let lv: u64 = p[1].parse().ok()?;
        level_filter(lv)?;
        loggers.push(LoggerIn {
            name: dec_str(p[0])?,
            level: lv,
            additive: match p[2] {
                "1" => true,
                "0" => false,
                _ => return None,
            },
            att: dec_list('|', p[3]).iter().map(|x| x.parse().ok()).collect::<Option<_>>()?,
        });
    }
    let target = match fields.get(7) {
        None => "some::target".to_owned(),
        Some(t) => dec_str(t)?,
    };
    let n = table.len();
    if attached.iter().any(|i| *i >= n) || loggers.iter().any(|l| l.att.iter().any(|i| *i >= n)) {
        return None;
    }
    let has_bad = table.iter().any(|d| d.chain.as_ref().map_or(true, |c| c.contains(&Script::Bad)));
    if has_bad && !path.is_config() {
        return None;
    }
    Some(Case { root_level, rec_level, attached, table, path, hist, loggers, target })
}

pub fn exec(fields: &[&str]) -> String {
    let case = match decode(fields) {
        Some(c) => c,
        None => return "bad-case".to_owned(),
    };
    let events: EventLog = Arc::new(Mutex::new(vec![]));
    let ev = events.clone();
    let r = guarded(std::panic::AssertUnwindSafe(move || -> Result<(String, Option<usize>, bool), String> {
        let c = &case;
        let mut n_err: Option<usize> = None;
        // a document with entries that do not deserialize makes the loader write to stderr
        let noisy = c.table.iter().any(|d| d.chain.as_ref().map_or(true, |ch| ch.contains(&Script::Bad)));
        // every call constructs the configuration afresh (new boxed objects, same event log)
        let mut make = || -> Result<Config, String> {
            Ok(match c.path {
                Path::Builder | Path::BuilderMany => config_via_builder(c, &ev),
                Path::ConfigYaml => config_via_file(&document(c), false, noisy, &ev)?,
                Path::ConfigToml => config_via_file(&document(c), true, noisy, &ev)?,
                Path::ConfigJson => {
                    let (cfg, n) = config_via_raw_json(&document(c), &ev)?;
                    n_err = Some(n);
                    cfg
                }
            })
        };
        let logger = if c.hist.configured {
            let hlog = ev.clone();
            log4rs::Logger::new_with_err_handler(
                make()?,
                Box::new(move |e: &anyhow::Error| {
                    let msg = e.to_string();
                    let who = msg.strip_prefix("fail:").unwrap_or("?").to_owned();
                    hlog.lock().unwrap().push(format!("h{}", who));
                }),
            )
        } else {
            log4rs::Logger::new(make()?)
        };
        for _ in 0..c.hist.reconfs {
            logger.verif_handle().set_config(make()?);
        }
        let unwound = std::cell::Cell::new(false);
        let record_it = || {
            let r = std::panic::catch_unwind(std::panic::AssertUnwindSafe(|| {
                logger.log(&Record::builder().level(c.rec_level).target(&c.target).args(format_args!("m")).build());
            }));
            unwound.set(r.is_err());
        };
        // errors that reach the default handler appear on stderr as `log4rs: fail:<app>`
        let stderr = if !c.hist.configured || c.hist.reconfs > 0 {
            capture_stderr(record_it)
        } else {
            record_it();
            String::new()
        };
        let unwound = unwound.get();
        Ok((stderr, n_err, unwound))
    }));
    match r {
        Ok(Ok((stderr, n_err, unwound))) => {
            let mut all = events.lock().unwrap().clone();
            for line in stderr.lines() {
                match line.strip_prefix("log4rs: fail:") {
                    Some(who) => all.push(format!("d{}", who)),
                    None => all.push("d?".to_owned()),
                }
            }
            if unwound {
                all.push("!".to_owned());
            }
            let mut s = enc_list(",", &all);
            if let Some(n) = n_err {
                s.push_str(&format!(" errs={}", n));
            }
            s
        }
        Ok(Err(_)) => "CONFIG-ERROR".to_owned(),
        Err(_) => "PANIC".to_owned(),
    }
}

// ------------------------------------------------------------------------------------------------

fn chain_str(chain: &[&str]) -> String {
    if chain.is_empty() {
        "~".to_owned()
    } else {
        chain.join("|")
    }
}

fn all_chains(max_len: usize) -> Vec<Vec<&'static str>> {
    let mut out: Vec<Vec<&'static str>> = vec![vec![]];
    let mut layer: Vec<Vec<&'static str>> = vec![vec![]];
    for _ in 0..max_len {
        let mut next = vec![];
        for c in &layer {
            for r in ["A", "N", "R"] {
                let mut d = c.clone();
                d.push(r);
                next.push(d);
            }
        }
        out.extend(next.iter().cloned());
        layer = next;
    }
    out
}

pub fn gen(rng: &mut Rng, n: usize, thorough: bool, emit: &mut dyn FnMut(String)) {
    // 1. the real threshold filter: all 6 thresholds × 5 record levels, alone and behind/before others
    for thr in 0..=5 {
        for lvl in 1..=5 {
            emit(format!("5\t{}\t0\tT{};ok", lvl, thr));
            emit(format!("5\t{}\t0,1\tN|T{}|A;fail,T{}|R;ok", lvl, thr, thr));
        }
    }
    // 2. every chain of length ≤ 5 over {A,N,R}, for a succeeding and a failing appender, with a
    //    healthy neighbour on each side
    let chains = all_chains(5);
    for c in &chains {
        for res in ["ok", "fail"] {
            emit(format!("5\t3\t0\t{};{}", chain_str(c), res));
            emit(format!("5\t3\t0,1,2\tN;ok,{};{},~;ok", chain_str(c), res));
        }
    }
    // 3. every assignment of ≤ 4 appenders × {ok,fail} × chain outcome (accepting, rejecting,
    //    all-neutral, empty chain)
    let outcomes = ["N|A|R", "N|R|A", "N|N", "~"];
    let max_apps = 4;
    for k in 1..=max_apps {
        let combos = (outcomes.len() * 2usize).pow(k as u32);
        for code in 0..combos {
            let mut c = code;
            let mut apps = vec![];
            for _ in 0..k {
                let o = c % (outcomes.len() * 2);
                c /= outcomes.len() * 2;
                apps.push(format!("{};{}", outcomes[o / 2], if o % 2 == 0 { "ok" } else { "fail" }));
            }
            let attached: Vec<String> = (0..k).map(|i| i.to_string()).collect();
            emit(format!("5\t2\t{}\t{}", attached.join(","), apps.join(",")));
        }
    }
    // 4. node level × record level gate around a failing appender
    for nl in 0..=5 {
        for lvl in 1..=5 {
            emit(format!("{}\t{}\t0,1\tN;fail,A;ok", nl, lvl));
        }
    }
    // 5. the real `ThresholdFilter` object, any number of them at any position, mixed with
    //    scripted filters, through all three construction paths, all 5 record levels.
    //    thorough: every chain of length ≤ 3 over {A,N,R,t0..t5}; quick: every chain of length ≤ 2
    //    over that alphabet and every chain of length 3 over {A,N,R,t1,t3}.
    let full: Vec<String> = ["A", "N", "R", "t0", "t1", "t2", "t3", "t4", "t5"].iter().map(|s| s.to_string()).collect();
    let small: Vec<String> = ["A", "N", "R", "t1", "t3"].iter().map(|s| s.to_string()).collect();
    let mut mixed: Vec<Vec<String>> = vec![vec![]];
    for a in &full {
        mixed.push(vec![a.clone()]);
        for b in &full {
            mixed.push(vec![a.clone(), b.clone()]);
        }
    }
    let third = if thorough { &full } else { &small };
    for a in third {
        for b in third {
            for c in third {
                mixed.push(vec![a.clone(), b.clone(), c.clone()]);
            }
        }
    }
    for (k, chain) in mixed.iter().enumerate() {
        let cs: Vec<&str> = chain.iter().map(|s| s.as_str()).collect();
        for lvl in 1..=5u64 {
            let res = if (k as u64 + lvl) % 3 == 0 { "fail" } else { "ok" };
            for path in ["builder", "config-yaml", "config-json"] {
                emit(format!("5\t{}\t0\t{};{}\t{}", lvl, chain_str(&cs), res, path));
            }
            // `AppenderBuilder::filters(iter)` and TOML documents: all short chains, one level each in quick
            if thorough || chain.len() <= 2 && lvl == 1 + (k as u64 % 5) {
                for path in ["builder-many", "config-toml"] {
                    emit(format!("5\t{}\t0\t{};{}\t{}", lvl, chain_str(&cs), res, path));
                }
            }
        }
    }
    // 6. the earlier exhaustive scripted chains (length ≤ 4) once more through the file path, with
    //    a counted threshold between neighbours
    for c in all_chains(4).iter() {
        emit(format!("5\t3\t0,1,2\tT2|N;ok,{};fail,~;ok\tconfig-yaml", chain_str(c)));
    }
    // 7. handler identity across reconfiguration: created with a configured / the default handler,
    //    0–2 × `Handle::set_config` with an equal configuration, failing and healthy appenders
    for hist in ["c0", "c1", "c2", "d0", "d1", "d2"] {
        for path in ["builder", "config-yaml", "config-json"] {
            for (att, apps) in [
                ("0,1", "N;fail,~;ok"),
                ("0", "~;fail"),
                ("0,1,0", "A|R;p01,R;fail"),
                ("0,1,2", "~;ok,N|N;fail,t3;fail"),
                ("0", "~;ok"),
            ] {
                for lvl in [1u64, 4] {
                    emit(format!("5\t{}\t{}\t{}\t{}\t{}", lvl, att, apps, path, hist));
                }
            }
        }
    }
    // 8. per-call results: the same appender attached up to 4 times, every result pattern of that length
    for times in 1..=4usize {
        for bits in 0..(1u32 << times) {
            let pat: String = (0..times).map(|i| if bits >> i & 1 == 1 { '1' } else { '0' }).collect();
            let att: Vec<String> = (0..times).map(|_| "0".to_owned()).collect();
            emit(format!("5\t3\t{}\tN;p{}", att.join(","), pat));
            // interleaved with a second appender, and behind a rejecting chain (never reached)
            let att2: Vec<String> = (0..times).flat_map(|_| ["0".to_owned(), "1".to_owned()]).collect();
            emit(format!("5\t3\t{}\tN;p{},A;p{}\tbuilder\td0", att2.join(","), pat, pat));
            emit(format!("5\t3\t{}\tR;p{}", att.join(","), pat));
        }
    }
    // 9. panicking appenders (outside the statement; compared with the model only)
    for (att, apps) in [("0,1,2", "~;fail,~;panic,~;ok"), ("0", "R;panic"), ("0,1", "A;panic,N;fail"), ("1,0", "A;panic,N;fail")] {
        for path in ["builder", "config-json"] {
            emit(format!("5\t3\t{}\t{}\t{}", att, apps, path));
        }
    }
    // 10. lossy configuration documents: every chain of length ≤ 3 over {A,N,R,t1,B} that contains an
    //     entry that does not deserialize, through the three document paths; `filters:` not a sequence
    let lossy: Vec<&str> = vec!["A", "N", "R", "t1", "B"];
    let mut lossy_chains: Vec<Vec<&str>> = vec![];
    for a in &lossy {
        lossy_chains.push(vec![a]);
        for b in &lossy {
            lossy_chains.push(vec![a, b]);
            for c in &lossy {
                lossy_chains.push(vec![a, b, c]);
            }
        }
    }
    for (k, chain) in lossy_chains.iter().filter(|c| c.contains(&"B")).enumerate() {
        let paths: &[&str] = if thorough { &["config-yaml", "config-json", "config-toml"] } else { &["config-json", ["config-yaml", "config-toml"][k % 2]] };
        for path in paths {
            emit(format!("5\t{}\t0,1\t{};fail,T3;ok\t{}", 2 + (k as u64 % 3), chain_str(chain), path));
        }
    }
    for path in ["config-yaml", "config-json", "config-toml"] {
        for lvl in [1u64, 4] {
            emit(format!("5\t{}\t0,1,2\tN;fail,!;fail,~;ok\t{}", lvl, path));
            emit(format!("5\t{}\t1\tN;fail,!;ok\t{}", lvl, path));
            emit(format!("5\t{}\t0,1\tN;ok,!;fail\t{}\tc0\t{};5;1;1|0\t{}", lvl, path, enc_str("a"), enc_str("a::b")));
        }
    }
    // 11. named loggers, small scope: up to two loggers from {a, a::b, a::b::c, b} (additive on/off,
    //     levels 2/5) with filtered, failing appenders attached at every level of the chain, so that the
    //     same appender is reached along an additive chain once, twice or three times; all probe targets
    let appenders = "A|R;ok,N|R;fail,t2;p01,~;fail";
    let names = ["a", "a::b", "a::b::c", "b"];
    let targets = ["a", "a::b", "a::b::c", "a::x", "a::b::c::d", "b::y", "zz", ""];
    let atts: [&str; 6] = ["~", "0", "1|0", "3|3", "2|1|0", "1"];
    let mut specs: Vec<String> = vec![];
    for (ni, n1) in names.iter().enumerate() {
        for add1 in [true, false] {
            for a1 in atts.iter() {
                specs.push(format!("{};{};{};{}", enc_str(n1), 5, enc_bool(add1), a1));
                for n2 in names.iter().skip(ni + 1) {
                    for add2 in [true, false] {
                        for a2 in [atts[1], atts[2], atts[4]] {
                            specs.push(format!(
                                "{};{};{};{},{};{};{};{}",
                                enc_str(n1), 5, enc_bool(add1), a1, enc_str(n2), 2 + 3 * (add2 as u64), enc_bool(add2), a2
                            ));
                        }
                    }
                }
            }
        }
    }
    for (k, spec) in specs.iter().enumerate() {
        let probe: Vec<&str> = if thorough { targets.to_vec() } else { vec![targets[k % targets.len()], targets[(k / 3 + 2) % targets.len()]] };
        for t in probe {
            let root_att = ["0,1", "3", "~", "1,1"][k % 4];
            let path = if k % 7 == 0 { "config-yaml" } else if k % 7 == 1 { "config-json" } else { "builder" };
            emit(format!("{}\t{}\t{}\t{}\t{}\tc0\t{}\t{}", 3 + (k as u64 % 3), 1 + (k as u64 % 5), root_att, appenders, path, spec, enc_str(t)));
        }
    }
    // 12. random: long chains, thresholds (counted and bare) mixed in, repeated and permuted
    //     attachments, per-call results, named loggers, any construction path and history
    for _ in 0..n {
        let n_apps = rng.range(1, if thorough { 8 } else { 6 }) as usize;
        let path = match rng.below(10) {
            0..=3 => "builder",
            4 => "builder-many",
            5..=6 => "config-yaml",
            7..=8 => "config-json",
            _ => "config-toml",
        };
        let is_config = path.starts_with("config");
        let mut apps = vec![];
        for _ in 0..n_apps {
            let len = match rng.below(10) {
                0 => 0,
                1..=6 => rng.range(1, 6),
                7..=8 => rng.range(7, 20),
                _ => rng.range(21, 40),
            };
            let neutral_bias = rng.range(1, 9);
            let bad_bias = if is_config && rng.chance(1, 3) { 8 } else { 0 };
            let chain: Vec<String> = (0..len)
                .map(|_| {
                    if bad_bias > 0 && rng.below(bad_bias) == 0 {
                        "B".to_owned()
                    } else if rng.below(10) < neutral_bias {
                        if rng.chance(1, 4) {
                            format!("{}{}", if rng.chance(1, 2) { "T" } else { "t" }, rng.range(0, 5))
                        } else {
                            "N".to_owned()
                        }
                    } else {
                        match rng.below(5) {
                            0..=1 => "A".to_owned(),
                            2..=3 => "R".to_owned(),
                            _ => format!("{}{}", if rng.chance(1, 2) { "T" } else { "t" }, rng.range(0, 5)),
                        }
                    }
                })
                .collect();
            let cs: Vec<&str> = chain.iter().map(|s| s.as_str()).collect();
            let res = match rng.below(20) {
                0..=9 => "ok".to_owned(),
                10..=15 => "fail".to_owned(),
                16..=18 => {
                    let k = rng.range(1, 5);
                    format!("p{}", (0..k).map(|_| if rng.chance(1, 2) { '1' } else { '0' }).collect::<String>())
                }
                _ => if rng.chance(1, 3) { "panic".to_owned() } else { "fail".to_owned() },
            };
            let whole = if is_config && rng.chance(1, 25) { "!".to_owned() } else { chain_str(&cs) };
            apps.push(format!("{};{}", whole, res));
        }
        let pick_att = |rng: &mut Rng| -> Vec<String> {
            match rng.below(4) {
                0 => (0..n_apps).map(|i| i.to_string()).collect(),
                1 => {
                    let mut v: Vec<usize> = (0..n_apps).collect();
                    rng.shuffle(&mut v);
                    v.iter().map(|i| i.to_string()).collect()
                }
                _ => {
                    let k = rng.range(0, n_apps as u64 + 2);
                    (0..k).map(|_| rng.below(n_apps as u64).to_string()).collect()
                }
            }
        };
        let attached = pick_att(rng);
        let nl = if rng.chance(4, 5) { 5 } else { rng.range(0, 5) };
        let hist = match rng.below(12) {
            0 => "c1",
            1 => "c2",
            2 => "d0",
            3 => "d1",
            _ => "c0",
        };
        let (loggers, target) = if rng.chance(1, 3) {
            let mut pool = vec!["a", "a::b", "a::b::c", "b", "b::a", "é::ü"];
            rng.shuffle(&mut pool);
            let k = rng.range(1, 3) as usize;
            let ls: Vec<String> = pool[..k]
                .iter()
                .map(|nm| {
                    let att: Vec<String> = pick_att(rng).into_iter().take(3).collect();
                    format!("{};{};{};{}", enc_str(nm), rng.range(0, 5), enc_bool(rng.chance(2, 3)), enc_list("|", &att))
                })
                .collect();
            let t = *rng.pick(&["a", "a::b", "a::b::c", "a::b::c::d", "a::x", "b", "b::a::z", "é::ü::w", "zz", ""]);
            (ls.join(","), t)
        } else {
            ("~".to_owned(), "some::target")
        };
        emit(format!(
            "{}\t{}\t{}\t{}\t{}\t{}\t{}\t{}",
            nl,
            rng.range(1, 5),
            enc_list(",", &attached),
            apps.join(","),
            path,
            hist,
            loggers,
            enc_str(target)
        ));
    }
}

/// child-process entry point (unused by this property)
pub fn child(_args: &[String]) -> i32 {
    2
}
