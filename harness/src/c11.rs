//! C11 — any pattern string is safe. Real code: `PatternEncoder::new(p)` and `.encode(w, record)`
//! under `catch_unwind`, writing into a capturing `encode::Write` that records text and style calls.
//!
//! case line (after the id):
//!   pattern  level  message  target  module?  file?  line?  thread-name?  mdc(k;v,…)
//! observation (one field; parts separated by a single space):
//!   outcome  ops  debug-profile  pid  tid  masked  dates(fmt;utc;render-ok;probe-ok;text,…)  local-offset-seconds
//! outcome = ok | err | new-only | PANIC:new | PANIC:encode
//! `masked` is the constant `0` (kept for the decoders): the compared encode runs under a fixed
//! instant (hook `verif_hooks::set_now`, read by the pattern encoder's date formatter) and the date
//! texts are chrono's renderings of THE SAME instant, so every digit of every date is compared.
//! ops     = items joined by `,` : `T<string>` text run, `S<fg>/<bg>/<intense>` set_style; `-` when
//!           nothing was encoded to the end.
//! The environment facts after the ops are INPUTS of the model (what chrono renders for each date
//! format occurring in the pattern, whether its `Display` fails, ids, build profile).
use crate::proto::*;
use crate::rng::Rng;
use log4rs::encode::{self, pattern::PatternEncoder, Color, Encode, Style};
use std::io;
use std::panic::AssertUnwindSafe;

/// a console appender with this pattern, loaded the way `load_config_file` loads it (JSON text is YAML)
fn load_through_config_file(pattern: &str) {
    let doc = format!(
        "{{\"appenders\": {{\"a\": {{\"kind\": \"console\", \"encoder\": {{\"kind\": \"pattern\", \"pattern\": {}}}}}}}}}",
        serde_json::to_string(pattern).unwrap()
    );
    if let Ok(raw) = serde_yaml::from_str::<log4rs::config::RawConfig>(&doc) {
        let (_appenders, _errors) = raw.appenders_lossy(&log4rs::config::Deserializers::default());
    }
}

// ------------------------------------------------------------------------------------------------
// character classes: the non-ASCII sample characters used by the generators and how Rust
// classifies them (alphabetic, alphanumeric). The Lean driver holds the same table
// (`Driver/C11.lean: sampleTable`); `assert_char_table` runs before the first case.
// ------------------------------------------------------------------------------------------------
pub const SAMPLE_CHARS: &[(char, bool, bool)] = &[
    ('\u{e9}', true, true),     // é
    ('\u{df}', true, true),     // ß
    ('\u{3a9}', true, true),    // Ω
    ('\u{4e2d}', true, true),   // 中
    ('\u{aa}', true, true),     // ª (Lo)
    ('\u{2177}', true, true),   // ⅷ (Nl: alphabetic and numeric)
    ('\u{663}', false, true),   // ٣ arabic-indic digit
    ('\u{b2}', false, true),    // ² (No)
    ('\u{bd}', false, true),    // ½ (No)
    ('\u{1f600}', false, false), // 😀
    ('\u{301}', false, false),  // combining acute
    ('\u{200b}', false, false), // zero width space
    ('\u{a0}', false, false),   // no-break space
    ('\u{2192}', false, false), // →
    ('\u{ff5b}', false, false), // fullwidth {
];

pub fn assert_char_table() {
    for &(c, alpha, alnum) in SAMPLE_CHARS {
        if c.is_alphabetic() != alpha || c.is_alphanumeric() != alnum {
            eprintln!(
                "sample character U+{:04X}: Rust says alphabetic={} alphanumeric={}, table says {} {}",
                c as u32,
                c.is_alphabetic(),
                c.is_alphanumeric(),
                alpha,
                alnum
            );
            std::process::exit(3);
        }
    }
    for n in 0u32..128 {
        let c = char::from_u32(n).unwrap();
        if c.is_alphabetic() != c.is_ascii_alphabetic() || c.is_alphanumeric() != c.is_ascii_alphanumeric() {
            eprintln!("ASCII classification differs at {}", n);
            std::process::exit(3);
        }
        let d = c.to_digit(10);
        if d.is_some() != c.is_ascii_digit() {
            eprintln!("to_digit differs at {}", n);
            std::process::exit(3);
        }
    }
    for &(c, _, _) in SAMPLE_CHARS {
        if c.to_digit(10).is_some() {
            eprintln!("sample character U+{:04X} is a to_digit(10) digit", c as u32);
            std::process::exit(3);
        }
    }
}

// ------------------------------------------------------------------------------------------------
// capturing sink
// ------------------------------------------------------------------------------------------------
pub enum Item {
    Data(Vec<u8>),
    Style(Option<u8>, Option<u8>, Option<bool>),
}

#[derive(Default)]
pub struct Cap {
    pub items: Vec<Item>,
}

impl io::Write for Cap {
    fn write(&mut self, buf: &[u8]) -> io::Result<usize> {
        if let Some(Item::Data(d)) = self.items.last_mut() {
            d.extend_from_slice(buf);
        } else {
            self.items.push(Item::Data(buf.to_vec()));
        }
        Ok(buf.len())
    }
    fn flush(&mut self) -> io::Result<()> {
        Ok(())
    }
}

fn color_idx(c: &Color) -> u8 {
    match c {
        Color::Black => 0,
        Color::Red => 1,
        Color::Green => 2,
        Color::Yellow => 3,
        Color::Blue => 4,
        Color::Magenta => 5,
        Color::Cyan => 6,
        Color::White => 7,
    }
}

impl encode::Write for Cap {
    fn set_style(&mut self, style: &Style) -> io::Result<()> {
        self.items.push(Item::Style(
            style.text.as_ref().map(color_idx),
            style.background.as_ref().map(color_idx),
            style.intense,
        ));
        Ok(())
    }
}

/// a sink that accepts `budget` bytes and then fails like a full device; used for the history
/// preludes: an encode's output must not depend on earlier (failed) encodes on the same thread
pub struct FailSink {
    pub budget: usize,
}

impl io::Write for FailSink {
    fn write(&mut self, buf: &[u8]) -> io::Result<usize> {
        if self.budget == 0 {
            return Err(io::Error::new(io::ErrorKind::Other, "device full"));
        }
        let n = buf.len().min(self.budget);
        self.budget -= n;
        Ok(n)
    }
    fn flush(&mut self) -> io::Result<()> {
        Ok(())
    }
}

impl encode::Write for FailSink {}

fn render_items(items: &[Item]) -> String {
    let mut out: Vec<String> = vec![];
    for it in items {
        match it {
            Item::Data(d) => {
                if d.is_empty() {
                    continue;
                }
                match std::str::from_utf8(d) {
                    Ok(s) => out.push(format!("T{}", enc_str(s))),
                    Err(_) => out.push(format!("BADUTF8{}", enc_bytes(d))),
                }
            }
            Item::Style(t, b, i) => out.push(format!(
                "S{}/{}/{}",
                enc_opt(*t, |x| x.to_string()),
                enc_opt(*b, |x| x.to_string()),
                enc_opt(*i, |x| enc_bool(x).to_owned())
            )),
        }
    }
    enc_list(",", &out)
}

// ------------------------------------------------------------------------------------------------
// which date formats occur in a pattern? A deliberately generous scan (instrumentation, not a
// model): every `d`/`date` formatter at any depth contributes its first argument's text, for both
// zones. A format the scan misses is reported by the Lean driver as `need-date` (a loud mismatch).
// ------------------------------------------------------------------------------------------------
enum MP {
    Text(String),
    Arg(String, Vec<Vec<MP>>),
    Error(String),
}

struct Scan {
    s: Vec<char>,
    i: usize,
    /// also accept `_` inside names (the proposed repair of F5); the scan is run both ways
    underscore: bool,
}

impl Scan {
    fn peek(&self) -> Option<char> {
        self.s.get(self.i).copied()
    }
    fn consume(&mut self, c: char) -> bool {
        if self.peek() == Some(c) {
            self.i += 1;
            true
        } else {
            false
        }
    }
    fn name(&mut self) -> String {
        let mut n = String::new();
        match self.peek() {
            Some(c) if c.is_alphabetic() => {
                n.push(c);
                self.i += 1;
            }
            _ => return n,
        }
        while let Some(c) = self.peek() {
            if c.is_alphanumeric() || (self.underscore && c == '_') {
                n.push(c);
                self.i += 1;
            } else {
                break;
            }
        }
        n
    }
    fn integer(&mut self) {
        while let Some(c) = self.peek() {
            if c.is_ascii_digit() {
                self.i += 1;
            } else {
                break;
            }
        }
    }
    fn parameters(&mut self) {
        if !self.consume(':') {
            return;
        }
        if self.peek().is_some() {
            if let Some(&a) = self.s.get(self.i + 1) {
                if a == '<' || a == '>' {
                    self.i += 1;
                }
            }
        }
        if !self.consume('<') {
            self.consume('>');
        }
        self.integer();
        if self.consume('.') {
            self.integer();
        }
    }
    fn arg(&mut self) -> Result<Vec<MP>, String> {
        let mut v = vec![];
        loop {
            // repair of F6a (185a57e): a doubled `))` inside an argument is the character `)`
            if self.peek() == Some(')') && self.s.get(self.i + 1) == Some(&')') {
                self.i += 2;
                v.push(MP::Text(")".into()));
                continue;
            }
            if self.consume(')') {
                return Ok(v);
            }
            match self.next() {
                Some(p) => v.push(p),
                None => return Err("unclosed '('".to_owned()),
            }
        }
    }
    fn next(&mut self) -> Option<MP> {
        let c = self.peek()?;
        match c {
            '{' => {
                self.i += 1;
                if self.consume('{') {
                    return Some(MP::Text("{".into()));
                }
                let name = self.name();
                let mut args = vec![];
                let mut failed = None;
                while self.peek() == Some('(') {
                    self.i += 1;
                    match self.arg() {
                        Ok(a) => args.push(a),
                        Err(e) => {
                            failed = Some(e);
                            break;
                        }
                    }
                }
                let piece = match failed {
                    Some(e) => MP::Error(e),
                    None => {
                        self.parameters();
                        MP::Arg(name, args)
                    }
                };
                if self.consume('}') {
                    Some(piece)
                } else {
                    self.i = self.s.len();
                    Some(MP::Error("expected '}'".into()))
                }
            }
            '}' | '(' | ')' => {
                self.i += 1;
                if self.consume(c) {
                    Some(MP::Text(c.to_string()))
                } else {
                    Some(MP::Error(format!("{} '{}'", if c == '}' { "unmatched" } else { "unexpected" }, c)))
                }
            }
            '\\' => {
                self.i += 1;
                match self.peek() {
                    Some(d) if "{}()\\".contains(d) => {
                        self.i += 1;
                        Some(MP::Text(d.to_string()))
                    }
                    _ => Some(MP::Error("unexpected '\\'".into())),
                }
            }
            _ => {
                let mut t = String::new();
                while let Some(d) = self.peek() {
                    if "{}()\\".contains(d) {
                        break;
                    }
                    t.push(d);
                    self.i += 1;
                }
                Some(MP::Text(t))
            }
        }
    }
}

fn collect_formats(ps: &[MP], out: &mut Vec<String>) {
    for p in ps {
        if let MP::Arg(name, args) = p {
            if name == "d" || name == "date" {
                let f = match args.first() {
                    None => "%+".to_owned(),
                    Some(a) => {
                        let mut f = String::new();
                        for q in a {
                            match q {
                                MP::Text(t) => f.push_str(t),
                                MP::Arg(..) => f.push_str("{ERROR: unexpected formatter}"),
                                MP::Error(e) => {
                                    f.push_str("{ERROR: ");
                                    f.push_str(e);
                                    f.push('}');
                                }
                            }
                        }
                        f
                    }
                };
                if !out.contains(&f) {
                    out.push(f);
                }
            }
            for a in args {
                collect_formats(a, out);
            }
        }
    }
}

pub fn date_formats(pattern: &str) -> Vec<String> {
    let mut out = vec![];
    // no date formatter, nothing to scan (the scan is recursive: keep it away from the
    // deep-nesting family, whose stack must be spent by the code under test only)
    if !pattern.contains("{d") {
        return out;
    }
    for underscore in [false, true] {
        let mut sc = Scan { s: pattern.chars().collect(), i: 0, underscore };
        let mut ps = vec![];
        while let Some(p) = sc.next() {
            ps.push(p);
        }
        collect_formats(&ps, &mut out);
    }
    out
}

/// what chrono says about one format at the instant `at` = (unix seconds, nanoseconds): does
/// `write!("{}", t.format(fmt))` succeed, and the text
fn chrono_render(fmt: &str, utc: bool, at: (i64, u32)) -> (bool, String) {
    use chrono::TimeZone;
    use std::fmt::Write;
    let r = guarded(AssertUnwindSafe(|| {
        let mut t = String::new();
        let now = chrono::Utc.timestamp_opt(at.0, at.1).single().expect("instant table");
        let ok = if utc {
            write!(t, "{}", now.format(fmt)).is_ok()
        } else {
            write!(t, "{}", now.with_timezone(&chrono::Local).format(fmt)).is_ok()
        };
        (ok, t)
    }));
    match r {
        Ok((true, t)) => (true, t),
        _ => (false, String::new()),
    }
}

/// the trial rendering `From<Piece> for Chunk` does at construction (commit ea62e36): always with
/// `Utc::now()`, whatever the zone argument says
pub fn probe_ok(fmt: &str) -> bool {
    use std::fmt::Write;
    guarded(AssertUnwindSafe(|| {
        let mut probe = String::new();
        write!(probe, "{}", chrono::Utc::now().format(fmt)).is_ok()
    }))
    .unwrap_or(false)
}

fn render_all(fmts: &[String], at: (i64, u32)) -> Vec<(String, bool, bool, String)> {
    let mut v = vec![];
    for f in fmts {
        for utc in [false, true] {
            let (ok, t) = chrono_render(f, utc, at);
            v.push((f.clone(), utc, ok, t));
        }
    }
    v
}

// ------------------------------------------------------------------------------------------------
// the clock of a case. The compared encode runs under a FIXED instant (`verif_hooks::set_now`, which
// the pattern encoder's date formatter reads); the expected date texts are chrono's renderings of
// the same instant, so they are compared digit for digit. The instant is chosen by a hash of the
// case's pattern and message (no case field); the history preludes run under a different one.
// (UTC civil time, nanoseconds) — the local zone of the exec process is UTC-05:45:
// ------------------------------------------------------------------------------------------------
pub const INSTANTS: &[((i64, i64, i64, i64, i64, i64), u32, &str, &str)] = &[
    // (UTC y m d h mi s), nanos, the same instant in UTC, in the local zone (`%Y-%m-%d %H:%M:%S%.f`)
    ((2024, 3, 15, 12, 34, 56), 123_456_789, "2024-03-15 12:34:56.123456789", "2024-03-15 06:49:56.123456789"),
    ((2021, 7, 4, 3, 2, 1), 5, "2021-07-04 03:02:01.000000005", "2021-07-03 21:17:01.000000005"),
    // one second before local midnight (and the end of a month)
    ((2023, 7, 1, 5, 44, 59), 500_000_000, "2023-07-01 05:44:59.500", "2023-06-30 23:59:59.500"),
    // one second before UTC midnight, whole second (`%.f` renders nothing)
    ((2022, 10, 31, 23, 59, 59), 0, "2022-10-31 23:59:59", "2022-10-31 18:14:59"),
    // the last nanosecond of a year in UTC
    ((2023, 12, 31, 23, 59, 59), 999_999_999, "2023-12-31 23:59:59.999999999", "2023-12-31 18:14:59.999999999"),
    // the last second of a year in the local zone (UTC is already in the next year)
    ((2025, 1, 1, 5, 44, 59), 120_000, "2025-01-01 05:44:59.000120", "2024-12-31 23:59:59.000120"),
    // leap day in the local zone only, and in both zones
    ((2024, 3, 1, 2, 0, 0), 120_000_000, "2024-03-01 02:00:00.120", "2024-02-29 20:15:00.120"),
    ((2024, 2, 29, 12, 0, 0), 0, "2024-02-29 12:00:00", "2024-02-29 06:15:00"),
    // before 1970 (negative unix time)
    ((1969, 12, 31, 23, 59, 58), 250_000_000, "1969-12-31 23:59:58.250", "1969-12-31 18:14:58.250"),
];

/// unix seconds of a UTC civil time (proleptic Gregorian calendar; days-from-civil)
fn unix_secs(t: (i64, i64, i64, i64, i64, i64)) -> i64 {
    let (y, m, d, h, mi, s) = t;
    let y2 = if m <= 2 { y - 1 } else { y };
    let era = y2.div_euclid(400);
    let yoe = y2 - era * 400;
    let doy = (153 * (if m > 2 { m - 3 } else { m + 9 }) + 2) / 5 + d - 1;
    let doe = yoe * 365 + yoe / 4 - yoe / 100 + doy;
    (era * 146097 + doe - 719468) * 86400 + h * 3600 + mi * 60 + s
}

pub fn instant(i: usize) -> (i64, u32) {
    let e = &INSTANTS[i % INSTANTS.len()];
    (unix_secs(e.0), e.1)
}

/// which instant a case is encoded under: FNV-1a of pattern and message
pub fn instant_index(pattern: &str, message: &str) -> usize {
    let mut h: u64 = 0xcbf29ce484222325;
    for b in pattern.bytes().chain(std::iter::once(0xff)).chain(message.bytes()) {
        h ^= b as u64;
        h = h.wrapping_mul(0x100000001b3);
    }
    (h % INSTANTS.len() as u64) as usize
}

/// start-up check of the instant table against chrono, in both zones
fn assert_instant_table() {
    for (i, e) in INSTANTS.iter().enumerate() {
        let utc = chrono_render("%Y-%m-%d %H:%M:%S%.f", true, instant(i));
        let local = chrono_render("%Y-%m-%d %H:%M:%S%.f", false, instant(i));
        if utc != (true, e.2.to_owned()) || local != (true, e.3.to_owned()) {
            eprintln!("instant {}: chrono renders {:?} / {:?}, the table says {} / {}", i, utc, local, e.2, e.3);
            std::process::exit(3);
        }
    }
}

fn set_clock(at: Option<(i64, u32)>) {
    match at {
        Some(at) => log4rs::verif_hooks::set_now(Some(std::sync::Arc::new(move || Some(at)))),
        None => log4rs::verif_hooks::set_now(None),
    }
}

/// the MDC keys a pattern mentions (generous scan like `date_formats`; instrumentation only: the
/// history preludes set these keys to stale values)
fn mdc_keys(pattern: &str) -> Vec<String> {
    fn collect(ps: &[MP], out: &mut Vec<String>) {
        for p in ps {
            if let MP::Arg(name, args) = p {
                if name == "X" || name == "mdc" {
                    if let Some(a) = args.first() {
                        let k: String = a.iter().map(|q| if let MP::Text(t) = q { t.as_str() } else { "" }).collect();
                        if !out.contains(&k) {
                            out.push(k);
                        }
                    }
                }
                for a in args {
                    collect(a, out);
                }
            }
        }
    }
    let mut out = vec![];
    // (recursive scan: kept away from the deep-nesting family like `date_formats`)
    if !pattern.contains("{X") && !pattern.contains("{mdc") {
        return out;
    }
    let mut sc = Scan { s: pattern.chars().collect(), i: 0, underscore: false };
    let mut ps = vec![];
    while let Some(p) = sc.next() {
        ps.push(p);
    }
    collect(&ps, &mut out);
    out
}

/// a second pattern for the history preludes: every record field and the given MDC keys
fn other_pattern(keys: &[String]) -> String {
    let mut p = String::from("{X(k)}{m}{l}{t}{M}{f}{L}{d}{d(%s%.f)(utc)}");
    for k in keys {
        if k.is_empty() {
            continue;
        }
        p.push_str("{X(");
        for c in k.chars() {
            if "{}()\\".contains(c) {
                p.push('\\');
            }
            p.push(c);
        }
        p.push_str(")(other-default)}");
    }
    p
}

// ------------------------------------------------------------------------------------------------
// one case
// ------------------------------------------------------------------------------------------------
#[derive(Clone, Debug)]
pub struct Case {
    pub pattern: String,
    pub level: u8,
    pub message: String,
    pub target: String,
    pub module: Option<String>,
    pub file: Option<String>,
    pub line: Option<u32>,
    pub thread: Option<String>,
    pub mdc: Vec<(String, String)>,
}

impl Case {
    pub fn simple(pattern: &str) -> Case {
        Case {
            pattern: pattern.to_owned(),
            level: 3,
            message: "msg".into(),
            target: "tgt".into(),
            module: Some("mod".into()),
            file: None,
            line: Some(7),
            thread: None,
            mdc: vec![],
        }
    }
    pub fn line(&self) -> String {
        let mdc: Vec<String> = self.mdc.iter().map(|(k, v)| format!("{};{}", enc_str(k), enc_str(v))).collect();
        format!(
            "{}\t{}\t{}\t{}\t{}\t{}\t{}\t{}\t{}",
            enc_str(&self.pattern),
            self.level,
            enc_str(&self.message),
            enc_str(&self.target),
            enc_opt(self.module.as_ref(), |s| enc_str(s)),
            enc_opt(self.file.as_ref(), |s| enc_str(s)),
            enc_opt(self.line, |n| n.to_string()),
            enc_opt(self.thread.as_ref(), |s| enc_str(s)),
            enc_list(",", &mdc)
        )
    }
    pub fn parse(f: &[&str]) -> Option<Case> {
        if f.len() != 9 {
            return None;
        }
        let opt_str = |s: &str| -> Option<Option<String>> {
            if s == "-" {
                Some(None)
            } else {
                dec_str(s).map(Some)
            }
        };
        let mut mdc = vec![];
        for kv in dec_list(',', f[8]) {
            let (k, v) = kv.split_once(';')?;
            mdc.push((dec_str(k)?, dec_str(v)?));
        }
        Some(Case {
            pattern: dec_str(f[0])?,
            level: f[1].parse().ok().filter(|l| (1..=5).contains(l))?,
            message: dec_str(f[2])?,
            target: dec_str(f[3])?,
            module: opt_str(f[4])?,
            file: opt_str(f[5])?,
            line: if f[6] == "-" { None } else { Some(f[6].parse().ok()?) },
            thread: opt_str(f[7])?,
            mdc,
        })
    }
}

/// the property's sanity bound: encode only when every digit run of the pattern is below 4096
pub fn widths_sane(pattern: &str) -> bool {
    let mut run = String::new();
    let mut ok = true;
    let mut flush = |run: &mut String| {
        if !run.is_empty() {
            let t = run.trim_start_matches('0');
            if t.len() > 4 || (!t.is_empty() && t.parse::<u32>().unwrap_or(u32::MAX) >= 4096) {
                ok = false;
            }
            run.clear();
        }
    };
    for c in pattern.chars() {
        if c.is_ascii_digit() {
            run.push(c);
        } else {
            flush(&mut run);
        }
    }
    flush(&mut run);
    ok
}

fn level_of(l: u8) -> log::Level {
    match l {
        1 => log::Level::Error,
        2 => log::Level::Warn,
        3 => log::Level::Info,
        4 => log::Level::Debug,
        _ => log::Level::Trace,
    }
}

/// runs in the thread the case asks for
fn run_in_thread(c: &Case) -> String {
    let debug = cfg!(debug_assertions);
    let pid = std::process::id();
    let tid = thread_id::get();
    let tail = |dates: &[(String, bool, bool, String)]| -> String {
        let ds: Vec<String> = dates
            .iter()
            .map(|(f, utc, ok, t)| {
                format!("{};{};{};{};{}", enc_str(f), enc_bool(*utc), enc_bool(*ok), enc_bool(probe_ok(f)), enc_str(t))
            })
            .collect();
        // the fourth fact (`masked`) is the constant 0: nothing is masked any more
        format!("{} {} {} {} {} {}", enc_bool(debug), pid, tid, enc_bool(false), enc_list(",", &ds), local_offset_secs())
    };
    let fmts = date_formats(&c.pattern);
    // the instant of the compared encode, and a different one for everything that runs before it
    let at_idx = instant_index(&c.pattern, &c.message);
    let at = instant(at_idx);
    let at_prelude = instant(at_idx + 1 + c.message.len() % (INSTANTS.len() - 1));
    let encoder = match guarded(AssertUnwindSafe(|| PatternEncoder::new(&c.pattern))) {
        Ok(e) => e,
        Err(_) => return format!("PANIC:new - {}", tail(&render_all(&fmts, at))),
    };
    // the configuration-FILE path to the same encoder (`encoder: {kind: pattern, pattern: …}` through
    // `RawConfig::appenders_lossy` and the `Deserializers` registry): loading must not panic either,
    // whatever the pattern (fd 2 is on /dev/full during `exec`: reporting a pattern error with `eprintln!`
    // at load time would be a panic here — independently seeded change C11_r7_2)
    if guarded(AssertUnwindSafe(|| load_through_config_file(&c.pattern))).is_err() {
        return format!("PANIC:config-file - {}", tail(&render_all(&fmts, at)));
    }
    if !widths_sane(&c.pattern) {
        return format!("new-only - {}", tail(&render_all(&fmts, at)));
    }
    set_clock(Some(at_prelude));
    // history preludes 1: SUCCESSFUL encodes of DIFFERENT records (level, target, module, file, line,
    // message) under a different MDC (every key of the case and of the pattern with a stale value;
    // then every key absent; then the case's keys absent and the pattern's other keys present), at a
    // different instant, by this encoder and — alternating — by an encoder of another pattern on the
    // same thread; whatever they leave behind must not show in the compared encode
    {
        let mut keys: Vec<String> = c.mdc.iter().map(|kv| kv.0.clone()).collect();
        for k in mdc_keys(&c.pattern) {
            if !keys.contains(&k) {
                keys.push(k);
            }
        }
        let other = guarded(AssertUnwindSafe(|| PatternEncoder::new(&other_pattern(&keys)))).ok();
        let stale_msg = format!("STALE-message<{}>", c.message);
        let stale_target = format!("STALE-target<{}>", c.target);
        for round in 0..3u32 {
            log_mdc::clear();
            for k in &keys {
                let own = c.mdc.iter().find(|kv| &kv.0 == k);
                match (round, own) {
                    (0, Some(kv)) => {
                        log_mdc::insert(k.clone(), format!("STALE-{}", kv.1));
                    }
                    (0, None) | (2, None) => {
                        log_mdc::insert(k.clone(), "STALE-absent-in-the-case".to_owned());
                    }
                    _ => {}
                }
            }
            let level = level_of(((c.level as u32 + round) % 5 + 1) as u8);
            let module = if c.module.is_some() && round == 1 { None } else { Some("stale::module") };
            let file = if c.file.is_some() && round == 1 { None } else { Some("stale/file.rs") };
            let line = if c.line.is_some() && round == 1 { None } else { Some(c.line.unwrap_or(0).wrapping_add(1000 + round)) };
            for enc in [Some(&encoder), other.as_ref(), Some(&encoder)].into_iter().flatten() {
                let mut cap = Cap::default();
                let _ = guarded(AssertUnwindSafe(|| {
                    enc.encode(
                        &mut cap,
                        &log::Record::builder()
                            .level(level)
                            .target(&stale_target)
                            .module_path(module)
                            .file(file)
                            .line(line)
                            .args(format_args!("{}", stale_msg))
                            .build(),
                    )
                    .is_ok()
                }));
            }
        }
    }
    log_mdc::clear();
    for (k, v) in &c.mdc {
        log_mdc::insert(k.clone(), v.clone());
    }
    // history preludes 2: the same encoder, on this thread, into sinks that fail after 0, 1, 3, …
    // bytes, with a different message; whatever they leave behind must not show in the encode below
    let stale = format!("STALE<{}>", c.message);
    for budget in [0usize, 1, 3, 7, 15, 40, 100] {
        let mut sink = FailSink { budget };
        let _ = guarded(AssertUnwindSafe(|| {
            encoder
                .encode(
                    &mut sink,
                    &log::Record::builder()
                        .level(level_of(c.level))
                        .target(&c.target)
                        .module_path(c.module.as_deref())
                        .file(c.file.as_deref())
                        .line(c.line)
                        .args(format_args!("{}", stale))
                        .build(),
                )
                .is_ok()
        }));
    }
    // the compared encode, under the case's instant; the date facts are chrono's renderings of the
    // same instant (not of `now()`): exact comparison, no masking, no retries
    set_clock(Some(at));
    let mut cap = Cap::default();
    let r = guarded(AssertUnwindSafe(|| {
        // `format_args!` must live in the same expression as the record that borrows it
        encoder
            .encode(
                &mut cap,
                &log::Record::builder()
                    .level(level_of(c.level))
                    .target(&c.target)
                    .module_path(c.module.as_deref())
                    .file(c.file.as_deref())
                    .line(c.line)
                    .args(format_args!("{}", c.message))
                    .build(),
            )
            .is_ok()
    }));
    set_clock(None);
    let described = match r {
        Err(_) => "PANIC:encode -".to_owned(),
        Ok(false) => format!("err {}", render_items(&cap.items)),
        Ok(true) => format!("ok {}", render_items(&cap.items)),
    };
    let result = format!("{} {}", described, tail(&render_all(&fmts, at)));
    log_mdc::clear();
    result
}

/// `fork` family (C09): encode in this process, fork, encode again in the child with the same
/// encoder; the child writes `<pid> <tid> <ops>` to a pipe and `_exit`s. Runs in the calling
/// (main) thread: no thread is spawned for such a case. Observation: the parent's ordinary
/// observation followed by ` fork <child pid> <child tid> <child ops>`.
#[cfg(unix)]
pub fn run_fork_case(c: &Case) -> String {
    let parent = run_in_thread(c);
    let encoder = match guarded(AssertUnwindSafe(|| PatternEncoder::new(&c.pattern))) {
        Ok(e) => e,
        Err(_) => return format!("{} fork - - -", parent),
    };
    let mut fds = [0i32; 2];
    if unsafe { libc::pipe(fds.as_mut_ptr()) } != 0 {
        return "bad-case".to_owned();
    }
    let child = unsafe { libc::fork() };
    if child < 0 {
        return "bad-case".to_owned();
    }
    if child == 0 {
        // the child: encode into memory, write to the pipe, leave without running any destructor
        let mut cap = Cap::default();
        let r = guarded(AssertUnwindSafe(|| {
            encoder
                .encode(
                    &mut cap,
                    &log::Record::builder()
                        .level(level_of(c.level))
                        .target(&c.target)
                        .module_path(c.module.as_deref())
                        .file(c.file.as_deref())
                        .line(c.line)
                        .args(format_args!("{}", c.message))
                        .build(),
                )
                .is_ok()
        }));
        let ops = match r {
            Ok(true) => render_items(&cap.items),
            Ok(false) => "err".to_owned(),
            Err(_) => "PANIC".to_owned(),
        };
        let line = format!("{} {} {}", std::process::id(), thread_id::get(), ops);
        let bytes = line.as_bytes();
        let mut off = 0;
        while off < bytes.len() {
            let n = unsafe { libc::write(fds[1], bytes[off..].as_ptr() as *const libc::c_void, bytes.len() - off) };
            if n <= 0 {
                break;
            }
            off += n as usize;
        }
        unsafe { libc::_exit(0) };
    }
    unsafe { libc::close(fds[1]) };
    let mut got: Vec<u8> = vec![];
    let mut buf = [0u8; 4096];
    loop {
        let n = unsafe { libc::read(fds[0], buf.as_mut_ptr() as *mut libc::c_void, buf.len()) };
        if n <= 0 {
            break;
        }
        got.extend_from_slice(&buf[..n as usize]);
    }
    unsafe { libc::close(fds[0]) };
    let mut status = 0i32;
    unsafe { libc::waitpid(child, &mut status, 0) };
    format!("{} fork {}", parent, String::from_utf8_lossy(&got))
}

#[cfg(not(unix))]
pub fn run_fork_case(c: &Case) -> String {
    format!("{} fork - - -", run_in_thread(c))
}

pub fn exec_fork(fields: &[&str]) -> String {
    process_init();
    match Case::parse(fields) {
        Some(c) => run_fork_case(&c),
        None => "bad-case".to_owned(),
    }
}

pub fn run_case(c: &Case) -> String {
    let c2 = c.clone();
    let b = std::thread::Builder::new();
    let b = match &c.thread {
        Some(n) => b.name(n.clone()),
        None => b,
    };
    // A thread-local object registered BEFORE the thread's first encode is destroyed AFTER every
    // thread-local the encoder registers later; its destructor encodes the thread and process ids once
    // more (an application object that logs a closing line when its thread ends). That encode must work
    // and give what it gave while the thread was alive — a cached id with a destructor of its own is gone
    // by then (independently seeded change C11_r7_1).
    let live: std::sync::Arc<std::sync::Mutex<Option<String>>> = Default::default();
    let late: std::sync::Arc<std::sync::Mutex<Option<Result<String, ()>>>> = Default::default();
    let (live2, late2) = (live.clone(), late.clone());
    let joined = b.spawn(move || {
        TLS_PROBE.with(|p| *p.borrow_mut() = Some(TlsProbe { out: late2 }));
        let obs = run_in_thread(&c2);
        *live2.lock().unwrap() = guarded(AssertUnwindSafe(encode_ids)).ok();
        obs
    });
    match joined {
        Ok(h) => {
            let obs = h.join().unwrap_or_else(|_| "PANIC:harness".to_owned());
            let live = live.lock().unwrap().clone();
            let late = late.lock().unwrap().clone();
            let same = match (&live, &late) {
                (Some(a), Some(Ok(b))) => a == b,
                _ => false,
            };
            if same || obs.starts_with("PANIC") {
                obs
            } else {
                let parts: Vec<&str> = obs.splitn(3, ' ').collect();
                format!("PANIC:tls-drop - {}", parts.get(2).copied().unwrap_or(""))
            }
        }
        Err(_) => "bad-case".to_owned(),
    }
}

struct TlsProbe {
    out: std::sync::Arc<std::sync::Mutex<Option<Result<String, ()>>>>,
}

impl Drop for TlsProbe {
    fn drop(&mut self) {
        let r = guarded(AssertUnwindSafe(encode_ids));
        *self.out.lock().unwrap() = Some(r.map_err(|_| ()));
    }
}

thread_local! {
    static TLS_PROBE: std::cell::RefCell<Option<TlsProbe>> = std::cell::RefCell::new(None);
}

/// `{i}|{I}|{P}` of the current thread through a fresh encoder
fn encode_ids() -> String {
    let enc = PatternEncoder::new("{i}|{I}|{P}");
    let mut cap = Cap::default();
    let _ = enc.encode(&mut cap, &log::Record::builder().args(format_args!("bye")).build());
    render_items(&cap.items)
}

static TABLE_CHECKED: std::sync::Once = std::sync::Once::new();

/// The local zone of the exec process: a fixed POSIX zone WEST of UTC with minutes (UTC-05:45), so
/// that a date rendered in the wrong zone is visible in every field — and, through the sign of
/// the offset, even when digits are masked. Set before the first chrono call of the process.
pub const HARNESS_TZ: &str = "XST5:45";

pub fn set_harness_zone() {
    std::env::set_var("TZ", HARNESS_TZ);
}

/// `Local::now().offset()` in seconds east of UTC — an environment fact of every observation
pub fn local_offset_secs() -> i32 {
    use chrono::Offset;
    chrono::Local::now().offset().fix().local_minus_utc()
}

pub fn process_init() {
    TABLE_CHECKED.call_once(|| {
        set_harness_zone();
        assert_char_table();
        assert_instant_table();
    });
}

// ------------------------------------------------------------------------------------------------
// deep-nesting family ("never panics or aborts"): a stack overflow kills the process, so the case
// runs in a CHILD process (this binary, `exec C11`, one ordinary case line on stdin; the child
// encodes on a spawned thread with the default 2 MiB stack like every other case).
// case line: the ordinary nine fields with pattern `_`, then `deep:<shape>:<N>`
//   closed = "{(" * N ++ "x" ++ ")}" * N      h = "{h(" * N ++ "x" ++ ")}" * N      open = "{(" * N
// observation: `deep ABORT:<signal|rc>` or `deep <outcome> <text chars> <style calls> <text prefix>`
// ------------------------------------------------------------------------------------------------
pub fn deep_pattern(shape: &str, n: usize) -> Option<String> {
    match shape {
        "closed" => Some(format!("{}x{}", "{(".repeat(n), ")}".repeat(n))),
        "h" => Some(format!("{}x{}", "{h(".repeat(n), ")}".repeat(n))),
        "open" => Some("{(".repeat(n)),
        _ => None,
    }
}

fn run_deep(fields: &[&str]) -> String {
    use std::io::Write as _;
    use std::process::{Command, Stdio};
    let spec: Vec<&str> = fields[9].split(':').collect();
    if spec.len() != 3 || spec[0] != "deep" {
        return "bad-case".to_owned();
    }
    let n: usize = match spec[2].parse() {
        Ok(n) => n,
        Err(_) => return "bad-case".to_owned(),
    };
    let pattern = match deep_pattern(spec[1], n) {
        Some(p) => p,
        None => return "bad-case".to_owned(),
    };
    let mut f: Vec<String> = fields[..9].iter().map(|s| (*s).to_owned()).collect();
    f[0] = enc_str(&pattern);
    let line = format!("C11\t{}\n", f.join("\t"));
    let exe = match std::env::current_exe() {
        Ok(e) => e,
        Err(_) => return "bad-case".to_owned(),
    };
    let mut child = match Command::new(exe)
        .args(["exec", "C11"])
        .stdin(Stdio::piped())
        .stdout(Stdio::piped())
        .stderr(Stdio::null())
        .spawn()
    {
        Ok(c) => c,
        Err(_) => return "bad-case".to_owned(),
    };
    if let Some(mut stdin) = child.stdin.take() {
        let _ = stdin.write_all(line.as_bytes());
    }
    let out = match child.wait_with_output() {
        Ok(o) => o,
        Err(_) => return "bad-case".to_owned(),
    };
    let text = String::from_utf8_lossy(&out.stdout);
    let first = text.lines().next().unwrap_or("");
    #[cfg(unix)]
    {
        use std::os::unix::process::ExitStatusExt;
        if let Some(sig) = out.status.signal() {
            return format!("deep ABORT:signal{}", sig);
        }
    }
    if !out.status.success() || first.is_empty() {
        return format!("deep ABORT:rc{}", out.status.code().unwrap_or(-1));
    }
    // summarise the child's ordinary observation
    let parts: Vec<&str> = first.split(' ').collect();
    let outcome = parts[0];
    let mut chars = 0usize;
    let mut styles = 0usize;
    let mut prefix = String::new();
    if parts.len() > 1 && parts[1] != "-" && parts[1] != "~" {
        for it in parts[1].split(',') {
            if let Some(t) = it.strip_prefix('T') {
                if let Some(t) = dec_str(t) {
                    chars += t.chars().count();
                    if prefix.chars().count() < 40 {
                        prefix.push_str(&t);
                    }
                }
            } else if it.starts_with('S') {
                styles += 1;
            }
        }
    }
    let prefix: String = prefix.chars().take(40).collect();
    format!("deep {} {} {} {}", outcome, chars, styles, enc_str(&prefix))
}

pub fn exec(fields: &[&str]) -> String {
    if fields.len() == 10 && fields[9].starts_with("deep:") {
        return run_deep(fields);
    }
    process_init();
    match Case::parse(fields) {
        Some(c) => run_case(&c),
        None => "bad-case".to_owned(),
    }
}

// ------------------------------------------------------------------------------------------------
// generator
// ------------------------------------------------------------------------------------------------
pub const SYNTAX: &[char] = &['{', '}', '(', ')', '\\', ':', '>', '.', 'm', '9'];
const MUT_CHARS: &[char] = &['{', '}', '(', ')', '\\', ':', '>', '<', '.', '9', '0', 'm', 'd', '_', ' ', '%', '\u{e9}', '\u{663}', '\u{1f600}'];

pub const TEXTS: &[&str] = &[
    "", "a", "hello world", "h\u{e9}llo", "\u{4e2d}\u{6587}", "\u{1f600}", "e\u{301}", "a{b}c", "(x)\\", "tab\there",
    "0123456789", "x::y", "\u{a0}", "{ERROR: no}", "%Y",
];

pub fn random_record(rng: &mut Rng, pattern: &str) -> Case {
    let opt = |rng: &mut Rng| -> Option<String> {
        if rng.chance(1, 3) {
            None
        } else {
            Some((*rng.pick(TEXTS)).to_owned())
        }
    };
    let mut mdc = vec![];
    for k in ["k", "user_id", "cl\u{e9}", ""] {
        if rng.chance(1, 3) {
            mdc.push((k.to_owned(), (*rng.pick(TEXTS)).to_owned()));
        }
    }
    Case {
        pattern: pattern.to_owned(),
        level: rng.range(1, 5) as u8,
        message: (*rng.pick(TEXTS)).to_owned(),
        target: (*rng.pick(TEXTS)).to_owned(),
        module: opt(rng),
        file: opt(rng),
        line: if rng.chance(1, 3) { None } else { Some(*rng.pick(&[0u32, 7, 132, 4294967295])) },
        thread: if rng.chance(1, 2) { None } else { Some((*rng.pick(&["main", "w\u{f6}rker", "t-1", "x y"])).to_owned()) },
        mdc,
    }
}

const NAMES: &[&str] = &[
    "d", "date", "f", "file", "h", "highlight", "D", "debug", "R", "release", "l", "level", "L", "line", "m", "message",
    "M", "module", "P", "pid", "i", "tid", "n", "t", "target", "T", "thread", "I", "thread_id", "X", "mdc", "",
    "x", "dd", "m9", "\u{e9}", "m\u{663}", "\u{663}", "H", "N",
];
const SPECS: &[&str] = &[
    "", "", "", ":5", ":>5", ":<5", ":.3", ":2.4", ":*>6.8", ":\u{e9}<4", ":}>3", ":<<3", ":>>3", ":0>3", ":07", ":.0",
    ":0", ":4.2", ":>4.2", ":", ":.", ":5.", ":>", ":x", ":5x", ":-5", ": >3", ":{>3", ":\\>3", ":(<2", ":)<2", "::>2",
    ":4095", ":4096", ":.4095",
];
const DATE_FORMATS: &[&str] = &[
    "%Y-%m-%d %H:%M:%S", "%Y", "%H:%M", "%+", "%s", "%e %b", "%%", "", "plain", "%Y-%m-%dT%H:%M:%S%z", "%Q", "%", "%4",
    "%Y %\u{e9}", "%.3f", "%3f", "%f", "%:z", "%#z", "%-d", "%_H", "%0e", "%^a", "%Ez", "%Oy", "%::z", "%:::z",
];

/// a pattern that is (mostly) valid; depth bounds the nesting of arguments
pub fn valid_pattern(rng: &mut Rng, depth: u32) -> String {
    let mut s = String::new();
    let n = rng.range(0, 4);
    for _ in 0..n {
        match rng.below(10) {
            0 | 1 => s.push_str(*rng.pick(&["a", "hello ", " - ", "\u{e9}", "\u{4e2d}", "9", ":", ">", ".", "%", "\u{1f600}", "_"])),
            2 => s.push_str(*rng.pick(&["{{", "}}", "((", "))", "\\{", "\\}", "\\(", "\\)", "\\\\"])),
            _ => {
                let name = *rng.pick(NAMES);
                s.push('{');
                s.push_str(name);
                match name {
                    "d" | "date" => {
                        if rng.chance(2, 3) {
                            s.push('(');
                            s.push_str(*rng.pick(DATE_FORMATS));
                            s.push(')');
                            if rng.chance(1, 2) {
                                s.push('(');
                                s.push_str(*rng.pick(&["utc", "local", "UTC", "", "cet", "ut{{c", "{m}", "utc x"]));
                                s.push(')');
                            }
                        }
                    }
                    "h" | "highlight" | "D" | "debug" | "R" | "release" | "" => {
                        let k = if rng.chance(9, 10) { 1 } else { rng.below(3) };
                        for _ in 0..k {
                            s.push('(');
                            if depth > 0 {
                                s.push_str(&valid_pattern(rng, depth - 1));
                            } else {
                                s.push_str("x");
                            }
                            s.push(')');
                        }
                    }
                    "X" | "mdc" => {
                        let k = if rng.chance(9, 10) { rng.range(1, 2) } else { rng.below(4) };
                        for _ in 0..k {
                            s.push('(');
                            s.push_str(*rng.pick(&["k", "user_id", "cl\u{e9}", "", "nokey", "a{{b", "{m}", "k\\)", "dflt"]));
                            s.push(')');
                        }
                    }
                    _ => {
                        if rng.chance(1, 12) {
                            s.push_str("(x)");
                        }
                    }
                }
                s.push_str(*rng.pick(SPECS));
                s.push('}');
            }
        }
    }
    s
}

pub fn mutate(rng: &mut Rng, p: &str) -> String {
    let mut cs: Vec<char> = p.chars().collect();
    let k = rng.range(1, 3);
    for _ in 0..k {
        let syn: Vec<usize> = (0..cs.len()).filter(|&i| "{}()\\:<>.".contains(cs[i]) || cs[i].is_ascii_digit()).collect();
        match rng.below(4) {
            0 if !syn.is_empty() => {
                let i = *rng.pick(&syn);
                cs.remove(i);
            }
            1 => {
                let i = rng.below(cs.len() as u64 + 1) as usize;
                cs.insert(i, *rng.pick(MUT_CHARS));
            }
            2 if !syn.is_empty() => {
                let i = *rng.pick(&syn);
                let c = cs[i];
                cs.insert(i, c);
            }
            3 if cs.len() >= 2 && !syn.is_empty() => {
                let i = *rng.pick(&syn);
                let j = if i + 1 < cs.len() { i + 1 } else { i - 1 };
                cs.swap(i, j);
            }
            _ => {
                let i = rng.below(cs.len() as u64 + 1) as usize;
                cs.insert(i, *rng.pick(MUT_CHARS));
            }
        }
    }
    cs.into_iter().collect()
}

fn exhaustive(len: usize, emit: &mut dyn FnMut(String)) {
    // all strings over SYNTAX of length exactly `len`
    let n = SYNTAX.len();
    let mut idx = vec![0usize; len];
    loop {
        let s: String = idx.iter().map(|&i| SYNTAX[i]).collect();
        emit(Case::simple(&s).line());
        let mut k = len;
        loop {
            if k == 0 {
                return;
            }
            k -= 1;
            idx[k] += 1;
            if idx[k] < n {
                break;
            }
            idx[k] = 0;
        }
    }
}

pub fn gen(rng: &mut Rng, n: usize, thorough: bool, emit: &mut dyn FnMut(String)) {
    // 1. every string over the ten syntax symbols up to the length bound
    let bound = if thorough { 6 } else { 4 };
    for len in 0..=bound {
        exhaustive(len, emit);
    }
    // 2. widths around and beyond usize
    for w in [
        "99999999999999999999", "18446744073709551615", "18446744073709551616", "18446744073709551617",
        "184467440737095516150", "000000000000000000000000000007", "4095", "4096", "00004095", "9223372036854775808",
        "100000000000000000000000000000000000000",
    ] {
        for shape in ["{m:W}", "{m:.W}", "{m:>W.3}", "{m:3.W}", "a{l}b{m:W}c", "{(x{m:W}y)}", "{h({m:.W})}", "W", "{m}W", "{d(%Y W)}", "{m:W"] {
            emit(Case::simple(&shape.replace('W', w)).line());
        }
    }
    // 3. every strftime directive letter and a few modifiers inside {d(...)}
    let mut dirs: Vec<String> = vec![];
    for c in ('a'..='z').chain('A'..='Z') {
        dirs.push(format!("%{}", c));
    }
    for d in ["%+", "%%", "%3f", "%6f", "%9f", "%.3f", "%.6f", "%.9f", "%.f", "%:z", "%::z", "%:::z", "%#z", "%-d", "%_d", "%0d", "%", "%1", "% ", "%\u{e9}", "%.", "%.3", "%:", "%-", "%5f", "%.5f", "%Y%", "%%%"] {
        dirs.push(d.to_owned());
    }
    for d in &dirs {
        for shape in ["{d(F)}", "{d(F)(utc)}", "x{l}{date(F)(local)}y", "{d(F)(utc)}|{d(F)(local)}|{d(F)}", "{d(a F b):>30}", "{D({d(F)})}", "{R({d(F)})}", "{h({d(F)})}"] {
            emit(Case::simple(&shape.replace('F', d)).line());
        }
    }
    // 4. the error classes, with rendering text before and after
    for p in [
        "a}b", "a(b", "a)b", "a\\b", "a\\", "{m", "{m:5", "{m(", "{m(x", "{x}", "{m(x)}", "{d(a)(b)(c)}", "{d(%Y)(cet)}", "{d(%Y)()}",
        "{d(%Y)({m})}", "{X}", "{X()}", "{X({m})}", "{X(k)()}", "{X(k)({m})}", "{X(a)(b)(c)}", "{h}", "{h(a)(b)}", "{()()}", "{}", "{thread_id}",
        "{X(a}b)}", "{X(k)(a}b)}", "{d(a}b)}", "{d({m})}", "pre {l} {x} post {m}", "{l}{m(}tail", "{h(a{x}b)}", "{(a}b):5}",
        // `))` inside arguments (F6a repaired): runs of 2..=6 closing parentheses, even and odd
        "{(a))}", "{(a)))}", "{(a))))}", "{(a)))))}", "{(a))))))}", "{())}", "{()))}", "{h(a))b)}", "{h(a)))b}", "{X(k)))}",
        "{X(k)))(d)))}", "{d(%Y)))(utc)}", "{d(%Y))(utc)}", "{(a\\)))}", "{({(x)))})}", "{({(x))})}", "{m()))}", "{(a))",
    ] {
        emit(Case::simple(p).line());
        emit(Case::simple(&format!("lit {{l}} {}", p)).line());
    }
    // 4b. time-zone arguments with junk after (or around) a valid zone name
    for z in [
        "utc}x", "utc{m}", "local{{junk", "utc\\)", "utc{x}}}garbage", "utc))", "local(", "utc\\", "{{utc", "ut{{c", "utc ", " utc", "UTC",
        "utc{m", "local}", "utc)(x", "{m}utc", "utc{d(%Y)}", "local\\{", "utc{h(x)}",
    ] {
        for shape in ["{d(%Y)(Z)}", "a{date(%H)(Z)}b", "{h({d(%Y)(Z)})}", "{d(%Y)(Z):>8}"] {
            emit(Case::simple(&shape.replace('Z', z)).line());
        }
    }
    // 4c. deep nesting, run in a child process (a stack overflow aborts the process)
    //     (63..=66: around the parser's nesting limit MAX_DEPTH = 64)
    let depths: &[usize] = if thorough { &[10, 63, 64, 65, 66, 100, 1000, 2000, 3000, 10000, 100000, 1000000] } else { &[10, 63, 64, 65, 66, 100, 1000, 3000, 20000] };
    for &n in depths {
        for shape in ["closed", "h", "open"] {
            emit(format!("{}\tdeep:{}:{}", Case::simple("").line(), shape, n));
        }
    }
    // 5. random: valid patterns and their mutations, random records, non-ASCII everywhere
    for i in 0..n {
        let p = valid_pattern(rng, if thorough { 4 } else { 3 });
        let p = if i % 3 == 0 { p } else { mutate(rng, &p) };
        emit(random_record(rng, &p).line());
    }
}
