//! Line-protocol encodings (mirror of lean/Log4rsModel/Base/Proto.lean).
pub fn enc_str(s: &str) -> String {
    if s.is_empty() {
        return "_".to_owned();
    }
    s.chars().map(|c| format!("{:x}", c as u32)).collect::<Vec<_>>().join(".")
}

pub fn dec_str(s: &str) -> Option<String> {
    if s == "_" {
        return Some(String::new());
    }
    s.split('.')
        .map(|h| u32::from_str_radix(h, 16).ok().and_then(char::from_u32))
        .collect()
}

pub fn enc_bytes(b: &[u8]) -> String {
    if b.is_empty() {
        return "_".to_owned();
    }
    b.iter().map(|x| format!("{:02x}", x)).collect()
}

pub fn dec_bytes(s: &str) -> Option<Vec<u8>> {
    if s == "_" {
        return Some(vec![]);
    }
    if s.len() % 2 != 0 {
        return None;
    }
    (0..s.len() / 2).map(|i| u8::from_str_radix(&s[2 * i..2 * i + 2], 16).ok()).collect()
}

pub fn enc_list(sep: &str, xs: &[String]) -> String {
    if xs.is_empty() {
        "~".to_owned()
    } else {
        xs.join(sep)
    }
}

pub fn dec_list(sep: char, s: &str) -> Vec<String> {
    if s == "~" {
        vec![]
    } else {
        s.split(sep).map(|x| x.to_owned()).collect()
    }
}

pub fn enc_opt<T>(o: Option<T>, f: impl Fn(T) -> String) -> String {
    match o {
        None => "-".to_owned(),
        Some(x) => f(x),
    }
}

pub fn enc_bool(b: bool) -> &'static str {
    if b {
        "1"
    } else {
        "0"
    }
}

/// Run `f`, turning a panic into `Err(message)`; the default panic hook is silenced by main().
pub fn guarded<T>(f: impl FnOnce() -> T + std::panic::UnwindSafe) -> Result<T, String> {
    std::panic::catch_unwind(f).map_err(|e| {
        if let Some(s) = e.downcast_ref::<&str>() {
            s.to_string()
        } else if let Some(s) = e.downcast_ref::<String>() {
            s.clone()
        } else {
            "panic".to_owned()
        }
    })
}
