//! C02 — level gating through the `log` facade. The global logger and `log::max_level()` are per process,
//! so every case runs in a child process (`verif-harness child c02`, case line on stdin):
//! one of the init paths, then a generated sequence of `Handle::set_config` calls and of further `init_*`
//! attempts (which must return Err and change nothing); after each step the child prints
//! `log::max_level()`, `log::logger().enabled(..)` for targets × five levels, and what
//! `log::log!(target: t, lvl, "x")` delivered.
//! case:  initPath  targets(,)  first configuration (4 fields, see c01.rs)  then per step: kind + 4 fields,
//!        kind = set | set@0 | set@1 | set@2 | reload | reinit-config | reinit-handler | reinit-raw | reinit-file
//!        `set@k`: Handle::set_config through clone k of the handle (0 = the one init returned, 1 = a clone taken
//!        at init, 2 = a clone of handle 0 taken at its first use, moved to a worker thread for every call and
//!        handed back by `join` before anything is observed)
//!        `reload` (path `file` only): the file is rewritten and the file reloader is stepped once
//!        (`VerifReloader::step` = `ConfigReloader::run_once`) on the installed logger's handle
//!        initPath may carry `@<json|yaml|toml><flags>`: how raw / file documents are rendered; flag `O` leaves
//!        out `root`, `root.level`, `appenders`, `additive`, `loggers` where the configuration has the default,
//!        flag `U` spells levels in upper case
//!        inside a name, `^n` stands for the n-component name `a::a::…::a`
//! obs:   `ABORT` when the child was killed by a signal (stack overflow), else
//!        steps joined by `/`:  max : reported : enabled bits : deliveries(, per target × level; names joined by ;)
//!        `reported` = `Logger::max_log_level()` of a second, not installed logger that is configured and
//!        reconfigured in the same way (through `verif_handle` / its own reloader on the same file)
//!        re-initialisation steps are prefixed `E!` (returned Err) or `K!` (returned Ok)
//! Paths `config` / `handler` use capturing appenders. Paths `raw` / `file` can only name built-in appender
//! kinds: every appender is a `file` appender in append mode on one shared scratch file whose pattern is the
//! appender's (encoded) name, so the file's new lines after a macro call are the call sequence.
use crate::c01::{self, Cfg, LCfg};
use crate::proto::*;
use crate::rng::Rng;
use std::io::{Read, Write};
use std::sync::{Arc, Mutex};

const PATHS: &[&str] = &["config", "handler", "raw", "file"];
const LEVEL_NAMES: &[&str] = &["off", "error", "warn", "info", "debug", "trace"];

// ------------------------------------------------------------------------------------------------
// generator
// ------------------------------------------------------------------------------------------------
/// only a deep descendant is verbose
fn deep_verbose_cfg(rng: &mut Rng) -> Cfg {
    let comps = ["a", "b", "ab", "é"];
    let depth = rng.range(2, 4) as usize;
    let parts: Vec<&str> = (0..depth).map(|_| *rng.pick(&comps)).collect();
    let deep = parts.join("::");
    let mut loggers = vec![LCfg {
        name: deep.clone(),
        level: rng.range(3, 5) as u8,
        additive: rng.chance(2, 3),
        refs: vec!["x".to_string()],
    }];
    // quieter ancestors / siblings
    if rng.chance(1, 2) {
        loggers.push(LCfg { name: parts[0].to_string(), level: rng.range(0, 2) as u8, additive: true, refs: vec!["y".to_string()] });
    }
    if rng.chance(1, 3) {
        let sib = format!("{}b", deep);
        loggers.push(LCfg { name: sib, level: rng.range(0, 2) as u8, additive: rng.chance(1, 2), refs: vec![] });
    }
    rng.shuffle(&mut loggers);
    Cfg {
        appenders: vec!["x".into(), "y".into()],
        root_level: rng.range(0, 2) as u8,
        root_refs: if rng.chance(2, 3) { vec!["y".to_string()] } else { vec![] },
        loggers,
    }
}

/// move the levels of the previous configuration up or down
fn mutate_levels(rng: &mut Rng, c: &Cfg) -> Cfg {
    let mut d = c.clone();
    let bump = |rng: &mut Rng, l: u8| -> u8 {
        match rng.below(4) {
            0 => l,
            1 => (l + rng.range(1, 3) as u8).min(5),
            2 => l.saturating_sub(rng.range(1, 3) as u8),
            _ => rng.range(0, 5) as u8,
        }
    };
    d.root_level = bump(rng, d.root_level);
    for l in d.loggers.iter_mut() {
        l.level = bump(rng, l.level);
    }
    if !d.loggers.is_empty() && rng.chance(1, 4) {
        let i = rng.below(d.loggers.len() as u64) as usize;
        d.loggers.remove(i);
    }
    if rng.chance(1, 3) {
        d = c01::shuffled(rng, &d);
    }
    d
}

fn one_cfg(rng: &mut Rng) -> Cfg {
    if rng.chance(2, 5) {
        deep_verbose_cfg(rng)
    } else {
        c01::rand_cfg(rng, 4, 4)
    }
}

/// a configuration for a failing re-initialisation: quieter / more verbose than `cur`, unrelated, or
/// (raw path only — the runtime `Config` type cannot hold one) not even valid
fn reinit_cfg(rng: &mut Rng, cur: &Cfg, allow_invalid: bool) -> Cfg {
    match rng.below(if allow_invalid { 8 } else { 6 }) {
        0 => uniform(cur, 0),
        1 => uniform(cur, 5),
        2 => Cfg { appenders: vec!["x".into()], root_level: 0, root_refs: vec!["x".into()], loggers: vec![] },
        3 => Cfg { appenders: vec!["x".into()], root_level: 5, root_refs: vec!["x".into()], loggers: vec![] },
        4 => mutate_levels(rng, cur),
        5 => one_cfg(rng),
        6 => {
            // dangling reference
            let mut d = uniform(cur, if rng.chance(1, 2) { 0 } else { 5 });
            d.root_refs.push("nowhere".into());
            d
        }
        _ => {
            // malformed logger name
            let mut d = uniform(cur, if rng.chance(1, 2) { 0 } else { 5 });
            d.loggers.push(LCfg { name: "a:b".into(), level: 5, additive: true, refs: vec![] });
            d
        }
    }
}

/// Many loggers, a long spine, a wide fan-out under one node; the deepest logger is the only one as verbose
/// as the maximum. Returns the configuration and targets at and below the deepest logger and around the tree.
fn big_cfg(rng: &mut Rng, thorough: bool) -> (Cfg, Vec<String>) {
    let comps = ["a", "b", "ab", "é", "c"];
    let depth = *rng.pick(&[5usize, 6, 7, 8, 12, 33, 65]);
    let total = if rng.chance(if thorough { 1 } else { 3 }, 4) { rng.range(10, 40) } else { rng.range(41, 200) } as usize;
    let spine: Vec<&str> = (0..depth).map(|_| *rng.pick(&comps)).collect();
    let deep = spine.join("::");
    let top = rng.range(2, 5) as u8;
    let quiet = |rng: &mut Rng| rng.range(0, top as u64 - 1) as u8;
    let refs = |rng: &mut Rng| -> Vec<String> {
        match rng.below(4) {
            0 => vec![],
            1 => vec!["x".into()],
            2 => vec!["y".into()],
            _ => vec!["y".into(), "x".into()],
        }
    };
    let mut loggers = vec![LCfg { name: deep.clone(), level: top, additive: rng.chance(2, 3), refs: vec!["x".into()] }];
    let mut names: Vec<String> = vec![deep.clone()];
    // some ancestors on the spine are configured (quieter), the others are implied
    for k in 1..depth {
        if rng.chance(1, 3) && loggers.len() < total {
            let n = spine[..k].join("::");
            names.push(n.clone());
            loggers.push(LCfg { name: n, level: quiet(rng), additive: rng.chance(3, 4), refs: refs(rng) });
        }
    }
    // a wide fan-out under one node of the spine
    let at = rng.range(1, depth as u64 - 1) as usize;
    let width = rng.range(5, (total as u64 * 2 / 3).max(6)) as usize;
    let hub = spine[..at].join("::");
    let mut fan = String::new();
    for i in 0..width {
        if loggers.len() >= total {
            break;
        }
        let n = format!("{}::k{}", hub, i);
        if i == 0 {
            fan = n.clone();
        }
        names.push(n.clone());
        loggers.push(LCfg { name: n, level: quiet(rng), additive: rng.chance(3, 4), refs: refs(rng) });
    }
    // the rest anywhere, shallow
    let mut guard = 0;
    while loggers.len() < total && guard < 1000 {
        guard += 1;
        let d = rng.range(1, 4) as usize;
        let n = (0..d).map(|_| *rng.pick(&comps)).collect::<Vec<_>>().join("::");
        if !names.contains(&n) {
            names.push(n.clone());
            loggers.push(LCfg { name: n, level: quiet(rng), additive: rng.chance(3, 4), refs: refs(rng) });
        }
    }
    rng.shuffle(&mut loggers);
    let c = Cfg {
        appenders: vec!["x".into(), "y".into()],
        root_level: quiet(rng),
        root_refs: if rng.chance(1, 2) { vec!["y".into()] } else { vec![] },
        loggers,
    };
    let mut targets = vec![deep.clone(), format!("{}::z", deep), format!("{}::z::a", deep), spine[..depth - 1].join("::")];
    if !fan.is_empty() {
        targets.push(fan);
    }
    targets.push(format!("{}::k", hub));
    (c, targets)
}

fn uniform(c: &Cfg, v: u8) -> Cfg {
    let mut d = c.clone();
    d.root_level = v;
    for l in d.loggers.iter_mut() {
        l.level = v;
    }
    d
}

/// the deep-name class: one logger name of n components, installed through every init path, replaced (which
/// drops the deep tree) and installed again through set_config / the reloader
fn gen_deep(emit: &mut dyn FnMut(String), thorough: bool) {
    let ns: &[usize] = if thorough { &[64, 65, 1000, 2500, 5000, 20000, 50000] } else { &[64, 1000, 5000, 20000] };
    for &n in ns {
        let deep = deep_name(n);
        let token = format!("^{}", n);
        for path in ["config", "handler", "raw@json", "file@yaml", "file@json"] {
            // quick tier: the 20000-component cases of these three paths are corpus lines already
            if !thorough && n == 20000 && matches!(path, "config" | "raw@json" | "file@yaml") {
                continue;
            }
            let verbose = Cfg {
                appenders: vec!["x".into()],
                root_level: 1,
                root_refs: vec![],
                loggers: vec![
                    LCfg { name: deep.clone(), level: 5, additive: false, refs: vec!["x".into()] },
                    LCfg { name: "a".into(), level: 2, additive: true, refs: vec![] },
                ],
            };
            let quiet = uniform(&verbose, 1);
            let mut targets: Vec<String> = vec!["".into(), "a".into(), "a::a".into(), "b".into()];
            // (the executable Spec walks every prefix of a target against every logger name: quadratic)
            if n <= 100 {
                targets.push(deep.clone());
                targets.push(format!("{}::b", deep));
            } else if n <= 1000 && path == "config" {
                targets.push(deep.clone());
            }
            let step = match path {
                "config" => "set@0",
                "handler" => "set@2",
                "file@yaml" => "reload",
                "file@json" => "set@1",
                _ => "",
            };
            let ts: Vec<String> = targets.iter().map(|t| enc_str(t)).collect();
            let mut line = format!("{}\t{}\t{}", path, enc_list(",", &ts), verbose.encode());
            if !step.is_empty() {
                line.push_str(&format!("\t{}\t{}\t{}\t{}", step, quiet.encode(), step, verbose.encode()));
            }
            emit(line.replace(&deep_hex(n), &token));
        }
    }
}

pub fn gen(rng: &mut Rng, n: usize, thorough: bool, emit: &mut dyn FnMut(String)) {
    gen_deep(emit, thorough);
    for i in 0..n {
        let base = match i % 10 {
            0..=2 => "config",
            3..=5 => "handler",
            6 => "raw",
            _ => "file",
        };
        // rendering of raw / file documents (also of the failing re-initialisations of the other paths)
        let fmt = *rng.pick(&["json", "yaml", "toml"]);
        let omit = rng.chance(1, 2);
        let upper = rng.chance(1, 3);
        let path = format!("{}@{}{}{}", base, fmt, if omit { "O" } else { "" }, if upper { "U" } else { "" });
        // a file history goes on with reloads (and then has a handle) in three cases of four
        let reloads = base == "file" && i % 40 >= 10;
        let has_handle = base == "config" || base == "handler" || reloads;
        let big = i % 16 == 5;
        let mut extra_targets: Vec<String> = vec![];
        let mut fresh = |rng: &mut Rng, extra: &mut Vec<String>| -> Cfg {
            let mut c = if big && rng.chance(2, 3) {
                let (c, ts) = big_cfg(rng, thorough);
                extra.extend(ts);
                c
            } else {
                one_cfg(rng)
            };
            // the default root (level Debug, no appenders), which an `O` document leaves out altogether;
            // sometimes alone at the maximum
            if omit && rng.chance(1, 3) {
                c.root_level = 4;
                c.root_refs.clear();
                if rng.chance(1, 2) {
                    for l in c.loggers.iter_mut() {
                        l.level = l.level.min(3);
                    }
                }
            }
            c
        };
        let first = fresh(rng, &mut extra_targets);
        let mut cfgs = vec![first.clone()]; // for the targets
        let mut installed = vec![first.clone()];
        let mut cur = first.clone();
        let mut steps: Vec<(String, Cfg)> = vec![];
        let k = rng.range(0, if thorough { 8 } else { 4 }).min(if big { 3 } else { 8 });
        // a third of the histories have no failed re-initialisation at all
        let reinit_rate = if i % 3 == 0 { 0 } else { 2 };
        for _ in 0..k {
            if rng.below(5) < reinit_rate || !has_handle {
                if reinit_rate == 0 {
                    continue;
                }
                let kind = *rng.pick(&["reinit-config", "reinit-config", "reinit-handler", "reinit-raw", "reinit-raw", "reinit-file"]);
                let c = reinit_cfg(rng, &cur, kind == "reinit-raw" || kind == "reinit-file");
                cfgs.push(c.clone());
                steps.push((kind.to_string(), c));
            } else {
                let next = match rng.below(8) {
                    0 => fresh(rng, &mut extra_targets),
                    1 => uniform(&cur, if rng.chance(1, 2) { 0 } else { 5 }),
                    // back to the configuration before the current one (A -> B -> A)
                    2 | 3 | 4 if installed.len() >= 2 => installed[installed.len() - 2].clone(),
                    _ => mutate_levels(rng, &cur),
                };
                cur = next.clone();
                cfgs.push(next.clone());
                installed.push(next.clone());
                let kind = if reloads && rng.chance(3, 4) { "reload".to_string() } else { format!("set@{}", rng.below(3)) };
                steps.push((kind, next));
            }
        }
        // targets: configured names over all steps, extensions, partial matches, oddities
        let mut targets: Vec<String> = vec![];
        for c in &cfgs {
            if c.loggers.len() > 8 {
                continue;
            }
            let valid_names = Cfg { loggers: c.loggers.iter().filter(|l| l.name != "a:b").cloned().collect(), ..c.clone() };
            for t in c01::targets_for(rng, &valid_names, 4) {
                if !targets.contains(&t) {
                    targets.push(t);
                }
            }
        }
        rng.shuffle(&mut targets);
        targets.truncate(if thorough { 8 } else { 5 });
        rng.shuffle(&mut extra_targets);
        extra_targets.truncate(6);
        for t in extra_targets {
            if !targets.contains(&t) {
                targets.push(t);
            }
        }
        for s in ["", "a::b"] {
            if !targets.iter().any(|t| t == s) {
                targets.push(s.to_string());
            }
        }
        let ts: Vec<String> = targets.iter().map(|t| enc_str(t)).collect();
        let ss: Vec<String> = steps.iter().map(|(k, c)| format!("\t{}\t{}", k, c.encode())).collect();
        emit(format!("{}\t{}\t{}{}", path, enc_list(",", &ts), first.encode(), ss.concat()));
    }
}

// ------------------------------------------------------------------------------------------------
// shared by generator, parent and child: the `^n` token and the rendering options
// ------------------------------------------------------------------------------------------------
pub fn deep_name(n: usize) -> String {
    vec!["a"; n].join("::")
}

fn deep_hex(n: usize) -> String {
    enc_str(&deep_name(n))
}

/// expand every `^n` token of a field
fn expand_deep(field: &str) -> Option<String> {
    if !field.contains('^') {
        return Some(field.to_owned());
    }
    let mut it = field.split('^');
    let mut out = it.next()?.to_owned();
    for piece in it {
        let digits: String = piece.chars().take_while(|c| c.is_ascii_digit()).collect();
        let n: usize = digits.parse().ok()?;
        if n == 0 || n > 100_000 {
            return None;
        }
        out.push_str(&deep_hex(n));
        out.push_str(&piece[digits.len()..]);
    }
    Some(out)
}

#[derive(Clone, Copy)]
struct Render {
    fmt: &'static str,
    omit: bool,
    upper: bool,
}

const PLAIN: Render = Render { fmt: "json", omit: false, upper: false };

/// `file@yamlOU` -> ("file", Render)
fn split_path(field: &str) -> Option<(&str, Render)> {
    let (p, r) = match field.split_once('@') {
        Some((p, r)) => (p, r),
        None => return if PATHS.contains(&field) { Some((field, PLAIN)) } else { None },
    };
    if !PATHS.contains(&p) || r.len() < 4 {
        return None;
    }
    let fmt = match &r[..4] {
        "json" => "json",
        "yaml" => "yaml",
        "toml" => "toml",
        _ => return None,
    };
    let flags = &r[4..];
    if !flags.chars().all(|c| c == 'O' || c == 'U') {
        return None;
    }
    Some((p, Render { fmt, omit: flags.contains('O'), upper: flags.contains('U') }))
}

/// the document of a configuration: every appender a `file` appender in append mode on `out`
fn render_doc(c: &Cfg, out: &std::path::Path, r: Render, refresh_secs: Option<u64>) -> Result<String, String> {
    use serde_json::{json, Map, Value};
    let lvl = |l: u8| -> String {
        let s = LEVEL_NAMES[l as usize];
        if r.upper {
            s.to_uppercase()
        } else {
            s.to_owned()
        }
    };
    let mut doc = Map::new();
    if let Some(s) = refresh_secs {
        doc.insert("refresh_rate".into(), json!(format!("{} seconds", s)));
    }
    if !(r.omit && c.appenders.is_empty()) {
        let mut apps = Map::new();
        for a in &c.appenders {
            apps.insert(
                a.clone(),
                json!({"kind": "file", "path": out.to_str().unwrap(), "append": true,
                       "encoder": {"kind": "pattern", "pattern": format!("{}{{n}}", enc_str(a))}}),
            );
        }
        doc.insert("appenders".into(), Value::Object(apps));
    }
    // the default root: level Debug, no appenders
    let mut root = Map::new();
    if !(r.omit && c.root_level == 4) {
        root.insert("level".into(), json!(lvl(c.root_level)));
    }
    if !(r.omit && c.root_refs.is_empty()) {
        root.insert("appenders".into(), json!(c.root_refs));
    }
    if !(r.omit && root.is_empty()) {
        doc.insert("root".into(), Value::Object(root));
    }
    if !(r.omit && c.loggers.is_empty()) {
        let mut loggers = Map::new();
        for l in &c.loggers {
            let mut m = Map::new();
            m.insert("level".into(), json!(lvl(l.level)));
            if !(r.omit && l.additive) {
                m.insert("additive".into(), json!(l.additive));
            }
            if !(r.omit && l.refs.is_empty()) {
                m.insert("appenders".into(), json!(l.refs));
            }
            loggers.insert(l.name.clone(), Value::Object(m));
        }
        doc.insert("loggers".into(), Value::Object(loggers));
    }
    let doc = Value::Object(doc);
    match r.fmt {
        "yaml" => serde_yaml::to_string(&doc).map_err(|e| e.to_string()),
        "toml" => {
            let v = toml::Value::try_from(&doc).map_err(|e| e.to_string())?;
            toml::to_string(&v).map_err(|e| e.to_string())
        }
        _ => Ok(doc.to_string()),
    }
}

fn parse_raw(doc: &str, r: Render) -> Result<log4rs::config::RawConfig, String> {
    match r.fmt {
        "yaml" => serde_yaml::from_str(doc).map_err(|e| e.to_string()),
        "toml" => toml::from_str(doc).map_err(|e| e.to_string()),
        _ => serde_json::from_str(doc).map_err(|e| e.to_string()),
    }
}

// ------------------------------------------------------------------------------------------------
// parent side: spawn the child, hand it the case, return its observation
// ------------------------------------------------------------------------------------------------
pub fn exec(fields: &[&str]) -> String {
    if fields.len() < 6 || (fields.len() - 6) % 5 != 0 || split_path(fields[0]).is_none() {
        return "bad-case".to_owned();
    }
    let exe = match std::env::current_exe() {
        Ok(e) => e,
        Err(_) => return "INFRA:no-exe".to_owned(),
    };
    let mut ch = match std::process::Command::new(exe)
        .args(["child", "c02"])
        .stdin(std::process::Stdio::piped())
        .stdout(std::process::Stdio::piped())
        .stderr(std::process::Stdio::null())
        .spawn()
    {
        Ok(c) => c,
        Err(_) => return "INFRA:spawn".to_owned(),
    };
    {
        let mut stdin = ch.stdin.take().unwrap();
        let _ = stdin.write_all(fields.join("\t").as_bytes());
        let _ = stdin.write_all(b"\n");
    }
    let mut out = String::new();
    let _ = ch.stdout.take().unwrap().read_to_string(&mut out);
    let status = ch.wait();
    // a child that died leaves its scratch directory behind
    if let Ok(base) = std::env::var("VERIF_SCRATCH") {
        let _ = std::fs::remove_dir_all(std::path::Path::new(&base).join(format!("c02_{}", ch.id())));
    }
    let line = out.lines().next().unwrap_or("").to_owned();
    match status {
        Ok(s) if s.success() && !line.is_empty() => line,
        Ok(s) => {
            #[cfg(unix)]
            {
                use std::os::unix::process::ExitStatusExt;
                if let Some(sig) = s.signal() {
                    // SIGABRT (the runtime's stack-overflow handler) or SIGSEGV
                    return format!("ABORT:signal{}", sig);
                }
            }
            format!("CHILD-FAILED:{}:{}", s.code().unwrap_or(-1), line)
        }
        Err(_) => "INFRA:wait".to_owned(),
    }
}

// ------------------------------------------------------------------------------------------------
// child side
// ------------------------------------------------------------------------------------------------
/// what the capturing appenders (paths `config` / `handler`, and every `set` step) and the file appenders of
/// rendered documents (paths `raw` / `file`, every `reload` step) received; a configuration has appenders of
/// one sort only
struct Capture {
    memory: Arc<Mutex<Vec<String>>>,
    file: std::path::PathBuf,
    offset: u64,
}

impl Capture {
    /// what was delivered since the last call
    fn take(&mut self) -> Vec<String> {
        let mut got = std::mem::take(&mut *self.memory.lock().unwrap());
        let data = std::fs::read(&self.file).unwrap_or_default();
        let new = data[(self.offset as usize).min(data.len())..].to_vec();
        self.offset = data.len() as u64;
        got.extend(String::from_utf8_lossy(&new).lines().map(|l| dec_str(l).unwrap_or_else(|| format!("?{}", l))));
        got
    }
}

fn observe(targets: &[String], cap: &mut Capture, reported: log::LevelFilter) -> String {
    let _ = cap.take();
    let max = c01::filter_num(log::max_level());
    let mut bits = String::new();
    let mut deliv: Vec<String> = vec![];
    for t in targets {
        for l in 1..=5u8 {
            let md = log::Metadata::builder().target(t).level(c01::level_of(l)).build();
            bits.push(if log::logger().enabled(&md) { '1' } else { '0' });
        }
    }
    for t in targets {
        for l in 1..=5u8 {
            log::log!(target: t.as_str(), c01::level_of(l), "x");
            deliv.push(c01::render_names(&cap.take()));
        }
    }
    format!("{}:{}:{}:{}", max, c01::filter_num(reported), bits, enc_list(",", &deliv))
}

/// runs something that writes the facade's global maximum as a side effect (`Handle::set_config` of the
/// NOT installed second logger) and puts back what the installed logger's side had left there
fn aside<T>(f: impl FnOnce() -> T) -> T {
    let g = log::max_level();
    let r = f();
    log::set_max_level(g);
    r
}

struct Scratch {
    dir: Option<std::path::PathBuf>,
    seq: usize,
}

impl Scratch {
    fn dir(&mut self) -> Result<std::path::PathBuf, String> {
        if self.dir.is_none() {
            let base = std::env::var("VERIF_SCRATCH").map(std::path::PathBuf::from).unwrap_or_else(|_| std::env::temp_dir());
            let dir = base.join(format!("c02_{}", std::process::id()));
            std::fs::create_dir_all(&dir).map_err(|e| e.to_string())?;
            self.dir = Some(dir);
        }
        Ok(self.dir.clone().unwrap())
    }
    fn fresh(&mut self, stem: &str, ext: &str) -> Result<std::path::PathBuf, String> {
        self.seq += 1;
        Ok(self.dir()?.join(format!("{}{}.{}", stem, self.seq, ext)))
    }
}

/// write a configuration file with an explicit, strictly increasing mtime
fn put_file(p: &std::path::Path, text: &str, seq: u64) -> Result<(), String> {
    std::fs::write(p, text).map_err(|e| e.to_string())?;
    let f = std::fs::OpenOptions::new().write(true).open(p).map_err(|e| e.to_string())?;
    f.set_modified(std::time::UNIX_EPOCH + std::time::Duration::from_secs(1_700_000_000 + 10 * seq))
        .map_err(|e| e.to_string())
}

/// a further initialisation attempt through the given path; Ok(true) = the call returned Err
fn reinit(kind: &str, c: &Cfg, sink: &Arc<Mutex<Vec<String>>>, scratch: &mut Scratch, r: Render) -> Result<bool, String> {
    match kind {
        "reinit-config" => {
            let cfg = c01::build_config(c, sink)?;
            Ok(log4rs::init_config(cfg).is_err())
        }
        "reinit-handler" => {
            let cfg = c01::build_config(c, sink)?;
            Ok(log4rs::config::init_config_with_err_handler(cfg, Box::new(|_e: &anyhow::Error| {})).is_err())
        }
        "reinit-raw" => {
            let out = scratch.fresh("reinit", "log")?;
            let doc = render_doc(c, &out, r, None)?;
            let raw = parse_raw(&doc, r)?;
            Ok(log4rs::init_raw_config(raw).is_err())
        }
        "reinit-file" => {
            let out = scratch.fresh("reinit", "log")?;
            let f = scratch.fresh("cfg", r.fmt)?;
            std::fs::write(&f, render_doc(c, &out, r, None)?).map_err(|e| e.to_string())?;
            Ok(log4rs::init_file(&f, Default::default()).is_err())
        }
        _ => Err(format!("step kind {}", kind)),
    }
}

fn empty_logger() -> log4rs::Logger {
    log4rs::Logger::new(
        log4rs::Config::builder().build(log4rs::config::Root::builder().build(log::LevelFilter::Off)).unwrap(),
    )
}

fn child_run(fields: &[String]) -> Result<String, String> {
    use log4rs::verif_hooks::VerifReloader;
    let (path, render) = split_path(&fields[0]).ok_or("path")?;
    let targets: Vec<String> =
        dec_list(',', &expand_deep(&fields[1]).ok_or("targets")?).iter().map(|t| dec_str(t)).collect::<Option<_>>().ok_or("targets")?;
    let dec_cfg = |f: &[String]| -> Option<Cfg> {
        let ls = expand_deep(&f[3])?;
        Cfg::decode(&[f[0].as_str(), f[1].as_str(), f[2].as_str(), ls.as_str()])
    };
    let first = dec_cfg(&fields[2..6]).ok_or("config")?;
    let mut steps: Vec<(String, Cfg)> = vec![];
    for ch in fields[6..].chunks(5) {
        steps.push((ch[0].to_string(), dec_cfg(&ch[1..]).ok_or("config")?));
    }
    let mut out: Vec<String> = vec![];
    let sink = Arc::new(Mutex::new(Vec::<String>::new()));
    // appenders of the second logger: never called
    let sink2 = Arc::new(Mutex::new(Vec::<String>::new()));
    let mut scratch = Scratch { dir: None, seq: 0 };
    let result = (|| -> Result<(), String> {
        let log = scratch.dir()?.join("out.log");
        let log2 = scratch.dir()?.join("out2.log");
        let mut cap = Capture { memory: sink.clone(), file: log.clone(), offset: 0 };
        // handles[0] = what init returned, [1] = a clone taken at init, [2] = a clone taken at first use
        let mut handles: [Option<log4rs::Handle>; 3] = [None, None, None];
        let mut reloaders: Option<(VerifReloader, VerifReloader, std::time::Duration)> = None;
        let mut file_seq = 0u64;
        let cfg_file = scratch.dir()?.join(format!("cfg.{}", render.fmt));
        let cfg_file2 = scratch.dir()?.join(format!("cfg2.{}", render.fmt));
        // `init_file` hands nobody a handle: when the history goes on with a reload or a set_config, the child
        // does what init_file does (load the file, init_config, reloader on the returned handle) itself
        let mirrored = path == "file" && steps.iter().any(|(k, _)| k == "reload" || k.starts_with("set"));
        let shadow: log4rs::Logger = match path {
            "config" | "handler" => {
                let cfg = c01::build_config(&first, &sink)?;
                handles[0] = Some(if path == "config" {
                    log4rs::init_config(cfg).map_err(|e| e.to_string())?
                } else {
                    log4rs::config::init_config_with_err_handler(cfg, Box::new(|_e: &anyhow::Error| {}))
                        .map_err(|e| e.to_string())?
                });
                log4rs::Logger::new(c01::build_config(&first, &sink2)?)
            }
            "raw" => {
                let doc = render_doc(&first, &log, render, None)?;
                log4rs::init_raw_config(parse_raw(&doc, render)?).map_err(|e| e.to_string())?;
                std::fs::write(&cfg_file2, render_doc(&first, &log2, render, None)?).map_err(|e| e.to_string())?;
                log4rs::Logger::new(
                    log4rs::config::load_config_file(&cfg_file2, Default::default()).map_err(|e| e.to_string())?,
                )
            }
            _ if !mirrored => {
                std::fs::write(&cfg_file, render_doc(&first, &log, render, None)?).map_err(|e| e.to_string())?;
                log4rs::init_file(&cfg_file, Default::default()).map_err(|e| e.to_string())?;
                std::fs::write(&cfg_file2, render_doc(&first, &log2, render, None)?).map_err(|e| e.to_string())?;
                log4rs::Logger::new(
                    log4rs::config::load_config_file(&cfg_file2, Default::default()).map_err(|e| e.to_string())?,
                )
            }
            _ => {
                put_file(&cfg_file, &render_doc(&first, &log, render, Some(30))?, file_seq)?;
                put_file(&cfg_file2, &render_doc(&first, &log2, render, Some(30))?, file_seq)?;
                let cfg = log4rs::config::load_config_file(&cfg_file, Default::default()).map_err(|e| e.to_string())?;
                let h = log4rs::init_config(cfg).map_err(|e| e.to_string())?;
                let (_again, rate, rel) =
                    VerifReloader::new(&cfg_file, Default::default(), h.clone()).map_err(|e| e.to_string())?;
                handles[0] = Some(h);
                let shadow = empty_logger();
                let sh = shadow.verif_handle();
                let (cfg2, _rate2, rel2) =
                    VerifReloader::new(&cfg_file2, Default::default(), sh.clone()).map_err(|e| e.to_string())?;
                aside(|| sh.set_config(cfg2));
                reloaders = Some((rel, rel2, rate.ok_or("no refresh rate")?));
                shadow
            }
        };
        handles[1] = handles[0].clone();
        out.push(observe(&targets, &mut cap, shadow.max_log_level()));
        for (kind, c) in &steps {
            if kind == "set" || kind.starts_with("set@") {
                let k: usize = if kind == "set" { 0 } else { kind[4..].parse().map_err(|_| "handle index")? };
                if k > 2 {
                    return Err("handle index".into());
                }
                let cfg = c01::build_config(c, &sink)?;
                if k == 2 {
                    let h = match handles[2].take() {
                        Some(h) => h,
                        None => handles[0].as_ref().ok_or("set_config without a handle")?.clone(),
                    };
                    let t = std::thread::spawn(move || {
                        h.set_config(cfg);
                        h
                    });
                    handles[2] = Some(t.join().map_err(|_| "worker thread panicked")?);
                } else {
                    handles[k].as_ref().ok_or("set_config without a handle")?.set_config(cfg);
                }
                let cfg2 = c01::build_config(c, &sink2)?;
                aside(|| shadow.verif_handle().set_config(cfg2));
                out.push(observe(&targets, &mut cap, shadow.max_log_level()));
            } else if kind == "reload" {
                let (rel, rel2, rate) = reloaders.as_mut().ok_or("reload without a reloader")?;
                file_seq += 1;
                // a distinct refresh rate makes every text differ from the one the reloader remembers
                put_file(&cfg_file, &render_doc(c, &log, render, Some(30 + file_seq))?, file_seq)?;
                put_file(&cfg_file2, &render_doc(c, &log2, render, Some(30 + file_seq))?, file_seq)?;
                *rate = rel.step(*rate).map_err(|e| e.to_string())?.ok_or("reloader stopped")?;
                aside(|| rel2.step(*rate)).map_err(|e| e.to_string())?;
                out.push(observe(&targets, &mut cap, shadow.max_log_level()));
            } else {
                let failed = reinit(kind, c, &sink, &mut scratch, render)?;
                out.push(format!("{}{}", if failed { "E!" } else { "K!" }, observe(&targets, &mut cap, shadow.max_log_level())));
            }
        }
        Ok(())
    })();
    if let Some(d) = scratch.dir.take() {
        let _ = std::fs::remove_dir_all(d);
    }
    result.map(|()| out.join("/"))
}

/// `verif-harness child c02`: the case line (without the property id) on stdin, the observation on stdout.
/// The case runs on a spawned thread with the default stack of a spawned thread (2 MiB), as an application
/// thread that initialises and reconfigures logging has.
pub fn child(_args: &[String]) -> i32 {
    let mut line = String::new();
    if std::io::stdin().read_line(&mut line).is_err() {
        return 2;
    }
    let line = line.trim_end_matches('\n').to_owned();
    let fields: Vec<String> = line.split('\t').map(|s| s.to_owned()).collect();
    if fields.len() < 6 {
        return 2;
    }
    let t = std::thread::Builder::new()
        .name("application".into())
        .stack_size(2 * 1024 * 1024)
        .spawn(move || guarded(std::panic::AssertUnwindSafe(|| child_run(&fields))));
    let r = match t {
        Ok(t) => t.join().unwrap_or_else(|_| Err("panic".into())),
        Err(_) => return 2,
    };
    let obs = match r {
        Ok(Ok(s)) => s,
        Ok(Err(e)) => format!("ERROR:{}", e.replace(['\n', '\t'], " ")),
        Err(_) => "PANIC".to_owned(),
    };
    println!("{}", obs);
    0
}
