//! C02 — level gating through the `log` facade. The global logger and `log::max_level()` are per process,
//! so every case runs in a child process (`verif-harness child c02`, case line on stdin):
//! one of the init paths, then a generated sequence of `Handle::set_config` calls and of further `init_*`
//! attempts (which must return Err and change nothing); after each step the child prints
//! `log::max_level()`, `log::logger().enabled(..)` for targets × five levels, and what
//! `log::log!(target: t, lvl, "x")` delivered.
//! case:  initPath  targets(,)  first configuration (4 fields, see c01.rs)  then per step: kind + 4 fields,
//!        kind = set | reinit-config | reinit-handler | reinit-raw | reinit-file
//! obs:   steps joined by `/`:  max : enabled bits : deliveries(, per target × level; names joined by ;)
//!        re-initialisation steps are prefixed `E!` (returned Err) or `K!` (returned Ok)
//! Paths `config` / `handler` use capturing appenders. Paths `raw` / `file` can only name built-in appender
//! kinds: every appender is a `file` appender in append mode on one shared scratch file whose pattern is the
//! appender's (encoded) name, so the file's new lines after a macro call are the call sequence.
use crate::c01::{self, Cfg, LCfg};
use crate::proto::*;
use crate::rng::Rng;
use std::io::{Read, Write};
use std::sync::{Arc, Mutex};

const PATHS: &[&str] = &["config", "handler", "raw", "file"];
const LEVEL_NAMES: &[&str] = &["off", "error", "warn", "info", "debug", "trace"];

// ------------------------------------------------------------------------------------------------
// generator
// ------------------------------------------------------------------------------------------------
/// only a deep descendant is verbose
fn deep_verbose_cfg(rng: &mut Rng) -> Cfg {
    let comps = ["a", "b", "ab", "é"];
    let depth = rng.range(2, 4) as usize;
    let parts: Vec<&str> = (0..depth).map(|_| *rng.pick(&comps)).collect();
    let deep = parts.join("::");
    let mut loggers = vec![LCfg {
        name: deep.clone(),
        level: rng.range(3, 5) as u8,
        additive: rng.chance(2, 3),
        refs: vec!["x".to_string()],
    }];
    // quieter ancestors / siblings
    if rng.chance(1, 2) {
        loggers.push(LCfg { name: parts[0].to_string(), level: rng.range(0, 2) as u8, additive: true, refs: vec!["y".to_string()] });
    }
    if rng.chance(1, 3) {
        let sib = format!("{}b", deep);
        loggers.push(LCfg { name: sib, level: rng.range(0, 2) as u8, additive: rng.chance(1, 2), refs: vec![] });
    }
    rng.shuffle(&mut loggers);
    Cfg {
        appenders: vec!["x".into(), "y".into()],
        root_level: rng.range(0, 2) as u8,
        root_refs: if rng.chance(2, 3) { vec!["y".to_string()] } else { vec![] },
        loggers,
    }
}

/// move the levels of the previous configuration up or down
fn mutate_levels(rng: &mut Rng, c: &Cfg) -> Cfg {
    let mut d = c.clone();
    let bump = |rng: &mut Rng, l: u8| -> u8 {
        match rng.below(4) {
            0 => l,
            1 => (l + rng.range(1, 3) as u8).min(5),
            2 => l.saturating_sub(rng.range(1, 3) as u8),
            _ => rng.range(0, 5) as u8,
        }
    };
    d.root_level = bump(rng, d.root_level);
    for l in d.loggers.iter_mut() {
        l.level = bump(rng, l.level);
    }
    if !d.loggers.is_empty() && rng.chance(1, 4) {
        let i = rng.below(d.loggers.len() as u64) as usize;
        d.loggers.remove(i);
    }
    if rng.chance(1, 3) {
        d = c01::shuffled(rng, &d);
    }
    d
}

fn one_cfg(rng: &mut Rng) -> Cfg {
    if rng.chance(2, 5) {
        deep_verbose_cfg(rng)
    } else {
        c01::rand_cfg(rng, 4, 4)
    }
}

/// a configuration for a failing re-initialisation: quieter / more verbose than `cur`, unrelated, or
/// (raw path only — the runtime `Config` type cannot hold one) not even valid
fn reinit_cfg(rng: &mut Rng, cur: &Cfg, allow_invalid: bool) -> Cfg {
    let uniform = |c: &Cfg, v: u8| -> Cfg {
        let mut d = c.clone();
        d.root_level = v;
        for l in d.loggers.iter_mut() {
            l.level = v;
        }
        d
    };
    match rng.below(if allow_invalid { 8 } else { 6 }) {
        0 => uniform(cur, 0),
        1 => uniform(cur, 5),
        2 => Cfg { appenders: vec!["x".into()], root_level: 0, root_refs: vec!["x".into()], loggers: vec![] },
        3 => Cfg { appenders: vec!["x".into()], root_level: 5, root_refs: vec!["x".into()], loggers: vec![] },
        4 => mutate_levels(rng, cur),
        5 => one_cfg(rng),
        6 => {
            // dangling reference
            let mut d = uniform(cur, if rng.chance(1, 2) { 0 } else { 5 });
            d.root_refs.push("nowhere".into());
            d
        }
        _ => {
            // malformed logger name
            let mut d = uniform(cur, if rng.chance(1, 2) { 0 } else { 5 });
            d.loggers.push(LCfg { name: "a:b".into(), level: 5, additive: true, refs: vec![] });
            d
        }
    }
}

pub fn gen(rng: &mut Rng, n: usize, thorough: bool, emit: &mut dyn FnMut(String)) {
    for i in 0..n {
        let path = match i % 10 {
            0..=3 => "config",
            4..=6 => "handler",
            7 | 8 => "raw",
            _ => "file",
        };
        let has_handle = path == "config" || path == "handler";
        let first = one_cfg(rng);
        let mut cfgs = vec![first.clone()]; // for the targets
        let mut cur = first.clone();
        let mut steps: Vec<(String, Cfg)> = vec![];
        let k = rng.range(0, if thorough { 8 } else { 4 });
        // a third of the histories have no failed re-initialisation at all
        let reinit_rate = if i % 3 == 0 { 0 } else { 2 };
        for _ in 0..k {
            if rng.below(5) < reinit_rate || !has_handle {
                if reinit_rate == 0 {
                    continue;
                }
                let kind = *rng.pick(&["reinit-config", "reinit-config", "reinit-handler", "reinit-raw", "reinit-raw", "reinit-file"]);
                let c = reinit_cfg(rng, &cur, kind == "reinit-raw" || kind == "reinit-file");
                cfgs.push(c.clone());
                steps.push((kind.to_string(), c));
            } else {
                let next = match rng.below(5) {
                    0 => one_cfg(rng),
                    1 => {
                        // everything off, or everything maximal
                        let mut d = cur.clone();
                        let v = if rng.chance(1, 2) { 0 } else { 5 };
                        d.root_level = v;
                        for l in d.loggers.iter_mut() {
                            l.level = v;
                        }
                        d
                    }
                    _ => mutate_levels(rng, &cur),
                };
                cur = next.clone();
                cfgs.push(next.clone());
                steps.push(("set".to_string(), next));
            }
        }
        // targets: configured names over all steps, extensions, partial matches, oddities
        let mut targets: Vec<String> = vec![];
        for c in &cfgs {
            let valid_names = Cfg { loggers: c.loggers.iter().filter(|l| l.name != "a:b").cloned().collect(), ..c.clone() };
            for t in c01::targets_for(rng, &valid_names, 4) {
                if !targets.contains(&t) {
                    targets.push(t);
                }
            }
        }
        rng.shuffle(&mut targets);
        targets.truncate(if thorough { 8 } else { 5 });
        for s in ["", "a::b"] {
            if !targets.iter().any(|t| t == s) {
                targets.push(s.to_string());
            }
        }
        let ts: Vec<String> = targets.iter().map(|t| enc_str(t)).collect();
        let ss: Vec<String> = steps.iter().map(|(k, c)| format!("\t{}\t{}", k, c.encode())).collect();
        emit(format!("{}\t{}\t{}{}", path, enc_list(",", &ts), first.encode(), ss.concat()));
    }
}

// ------------------------------------------------------------------------------------------------
// parent side: spawn the child, hand it the case, return its observation
// ------------------------------------------------------------------------------------------------
pub fn exec(fields: &[&str]) -> String {
    if fields.len() < 6 || (fields.len() - 6) % 5 != 0 || !PATHS.contains(&fields[0]) {
        return "bad-case".to_owned();
    }
    let exe = match std::env::current_exe() {
        Ok(e) => e,
        Err(_) => return "INFRA:no-exe".to_owned(),
    };
    let mut ch = match std::process::Command::new(exe)
        .args(["child", "c02"])
        .stdin(std::process::Stdio::piped())
        .stdout(std::process::Stdio::piped())
        .stderr(std::process::Stdio::null())
        .spawn()
    {
        Ok(c) => c,
        Err(_) => return "INFRA:spawn".to_owned(),
    };
    {
        let mut stdin = ch.stdin.take().unwrap();
        let _ = stdin.write_all(fields.join("\t").as_bytes());
        let _ = stdin.write_all(b"\n");
    }
    let mut out = String::new();
    let _ = ch.stdout.take().unwrap().read_to_string(&mut out);
    let status = ch.wait();
    let line = out.lines().next().unwrap_or("").to_owned();
    match status {
        Ok(s) if s.success() && !line.is_empty() => line,
        Ok(s) => format!("CHILD-FAILED:{}:{}", s.code().unwrap_or(-1), line),
        Err(_) => "INFRA:wait".to_owned(),
    }
}

// ------------------------------------------------------------------------------------------------
// child side
// ------------------------------------------------------------------------------------------------
enum Capture {
    Memory(Arc<Mutex<Vec<String>>>),
    File { path: std::path::PathBuf, offset: u64 },
}

impl Capture {
    /// what was delivered since the last call
    fn take(&mut self) -> Vec<String> {
        match self {
            Capture::Memory(s) => std::mem::take(&mut *s.lock().unwrap()),
            Capture::File { path, offset } => {
                let data = std::fs::read(&*path).unwrap_or_default();
                let new = data[(*offset as usize).min(data.len())..].to_vec();
                *offset = data.len() as u64;
                String::from_utf8_lossy(&new).lines().map(|l| dec_str(l).unwrap_or_else(|| format!("?{}", l))).collect()
            }
        }
    }
}

fn raw_json(c: &Cfg, out: &std::path::Path) -> String {
    use serde_json::{json, Map, Value};
    let mut apps = Map::new();
    for a in &c.appenders {
        apps.insert(
            a.clone(),
            json!({"kind": "file", "path": out.to_str().unwrap(), "append": true,
                   "encoder": {"kind": "pattern", "pattern": format!("{}{{n}}", enc_str(a))}}),
        );
    }
    let mut loggers = Map::new();
    for l in &c.loggers {
        loggers.insert(
            l.name.clone(),
            json!({"level": LEVEL_NAMES[l.level as usize], "additive": l.additive, "appenders": l.refs}),
        );
    }
    let doc = json!({
        "appenders": Value::Object(apps),
        "root": {"level": LEVEL_NAMES[c.root_level as usize], "appenders": c.root_refs},
        "loggers": Value::Object(loggers),
    });
    doc.to_string()
}

fn observe(targets: &[String], cap: &mut Capture) -> String {
    let _ = cap.take();
    let max = c01::filter_num(log::max_level());
    let mut bits = String::new();
    let mut deliv: Vec<String> = vec![];
    for t in targets {
        for l in 1..=5u8 {
            let md = log::Metadata::builder().target(t).level(c01::level_of(l)).build();
            bits.push(if log::logger().enabled(&md) { '1' } else { '0' });
        }
    }
    for t in targets {
        for l in 1..=5u8 {
            log::log!(target: t.as_str(), c01::level_of(l), "x");
            deliv.push(c01::render_names(&cap.take()));
        }
    }
    format!("{}:{}:{}", max, bits, enc_list(",", &deliv))
}

struct Scratch {
    dir: Option<std::path::PathBuf>,
    seq: usize,
}

impl Scratch {
    fn dir(&mut self) -> Result<std::path::PathBuf, String> {
        if self.dir.is_none() {
            let base = std::env::var("VERIF_SCRATCH").map(std::path::PathBuf::from).unwrap_or_else(|_| std::env::temp_dir());
            let dir = base.join(format!("c02_{}", std::process::id()));
            std::fs::create_dir_all(&dir).map_err(|e| e.to_string())?;
            self.dir = Some(dir);
        }
        Ok(self.dir.clone().unwrap())
    }
    fn fresh(&mut self, stem: &str, ext: &str) -> Result<std::path::PathBuf, String> {
        self.seq += 1;
        Ok(self.dir()?.join(format!("{}{}.{}", stem, self.seq, ext)))
    }
}

/// a further initialisation attempt through the given path; Ok(true) = the call returned Err
fn reinit(kind: &str, c: &Cfg, sink: &Arc<Mutex<Vec<String>>>, scratch: &mut Scratch) -> Result<bool, String> {
    match kind {
        "reinit-config" => {
            let cfg = c01::build_config(c, sink)?;
            Ok(log4rs::init_config(cfg).is_err())
        }
        "reinit-handler" => {
            let cfg = c01::build_config(c, sink)?;
            Ok(log4rs::config::init_config_with_err_handler(cfg, Box::new(|_e: &anyhow::Error| {})).is_err())
        }
        "reinit-raw" => {
            let out = scratch.fresh("reinit", "log")?;
            let doc = raw_json(c, &out);
            let raw: log4rs::config::RawConfig = serde_json::from_str(&doc).map_err(|e| e.to_string())?;
            Ok(log4rs::init_raw_config(raw).is_err())
        }
        "reinit-file" => {
            let out = scratch.fresh("reinit", "log")?;
            let f = scratch.fresh("cfg", "json")?;
            std::fs::write(&f, raw_json(c, &out)).map_err(|e| e.to_string())?;
            Ok(log4rs::init_file(&f, Default::default()).is_err())
        }
        _ => Err(format!("step kind {}", kind)),
    }
}

fn child_run(fields: &[&str]) -> Result<String, String> {
    let path = fields[0];
    let targets: Vec<String> = dec_list(',', fields[1]).iter().map(|t| dec_str(t)).collect::<Option<_>>().ok_or("targets")?;
    let first = Cfg::decode(&fields[2..6]).ok_or("config")?;
    let mut steps: Vec<(String, Cfg)> = vec![];
    for ch in fields[6..].chunks(5) {
        steps.push((ch[0].to_string(), Cfg::decode(&ch[1..]).ok_or("config")?));
    }
    let mut out: Vec<String> = vec![];
    let sink = Arc::new(Mutex::new(Vec::<String>::new()));
    let mut scratch = Scratch { dir: None, seq: 0 };
    let result = (|| -> Result<(), String> {
        let mut handle: Option<log4rs::Handle> = None;
        let mut cap = match path {
            "config" | "handler" => {
                let cfg = c01::build_config(&first, &sink)?;
                handle = Some(if path == "config" {
                    log4rs::init_config(cfg).map_err(|e| e.to_string())?
                } else {
                    log4rs::config::init_config_with_err_handler(cfg, Box::new(|_e: &anyhow::Error| {}))
                        .map_err(|e| e.to_string())?
                });
                Capture::Memory(sink.clone())
            }
            _ => {
                let log = scratch.dir()?.join("out.log");
                let doc = raw_json(&first, &log);
                if path == "raw" {
                    let raw: log4rs::config::RawConfig = serde_json::from_str(&doc).map_err(|e| e.to_string())?;
                    log4rs::init_raw_config(raw).map_err(|e| e.to_string())?;
                } else {
                    let f = scratch.dir()?.join("cfg.json");
                    std::fs::write(&f, doc).map_err(|e| e.to_string())?;
                    log4rs::init_file(&f, Default::default()).map_err(|e| e.to_string())?;
                }
                Capture::File { path: log, offset: 0 }
            }
        };
        out.push(observe(&targets, &mut cap));
        for (kind, c) in &steps {
            if kind == "set" {
                let h = handle.as_ref().ok_or("set_config without a handle")?;
                h.set_config(c01::build_config(c, &sink)?);
                out.push(observe(&targets, &mut cap));
            } else {
                let failed = reinit(kind, c, &sink, &mut scratch)?;
                out.push(format!("{}{}", if failed { "E!" } else { "K!" }, observe(&targets, &mut cap)));
            }
        }
        Ok(())
    })();
    if let Some(d) = scratch.dir.take() {
        let _ = std::fs::remove_dir_all(d);
    }
    result.map(|()| out.join("/"))
}

/// `verif-harness child c02`: the case line (without the property id) on stdin, the observation on stdout
pub fn child(_args: &[String]) -> i32 {
    let mut line = String::new();
    if std::io::stdin().read_line(&mut line).is_err() {
        return 2;
    }
    let line = line.trim_end_matches('\n').to_owned();
    let fields: Vec<&str> = line.split('\t').collect();
    if fields.len() < 6 {
        return 2;
    }
    let r = guarded(std::panic::AssertUnwindSafe(|| child_run(&fields)));
    let obs = match r {
        Ok(Ok(s)) => s,
        Ok(Err(e)) => format!("ERROR:{}", e.replace(['\n', '\t'], " ")),
        Err(_) => "PANIC".to_owned(),
    };
    println!("{}", obs);
    0
}
