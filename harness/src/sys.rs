//! System slice (hosted in C01): the whole pipeline on the real code.
//! `log4rs::Config` with real `FileAppender`s (real `PatternEncoder`, append / truncate mode, files
//! with previous content) wrapped with real `ThresholdFilter`s → `log4rs::Logger::new(config)` (not
//! installed globally) → `log::Log::log(&logger, &record)` for a history of records, from one thread
//! (named as the case says, MDC set per record) → the bytes of every file.
//!
//! case line (after `C01`):
//!   sys  appenders  rootLevel  rootRefs(,)  loggers(, of name;level;additive;refs(|))  thread?  records  snap
//!   appenders = `|`-joined  name;mode(a|t);pre(-|bytes);thresholds(digits|~);pattern;ast-tokens(,)
//!   records   = `|`-joined  target;level;message;module?;file?;line?;mdc(, of key:value | ~)
//!   snap      = 1: the files are read after every record, 0: after the last one only
//! observation (one field, parts separated by one space):
//!   debug-profile pid tid result      — the first three are INPUTS of the model (environment facts)
//!   result = PANIC | INVALID (the config builder refused) | snapshots joined by `/`,
//!            one snapshot = per appender, in table order, the file's bytes (hex), joined by `,`
//! Patterns come from c09's AST generator with the date formatters replaced (a date's text is not
//! an input here); everything else of the documented grammar occurs.
use crate::c01::{level_filter, level_of, Cfg, LCfg};
use crate::c04::Scratch;
use crate::c09::{self, Pat};
use crate::c11;
use crate::proto::*;
use crate::rng::Rng;
use log::Log;
use log4rs::append::file::FileAppender;
use log4rs::append::rolling_file::policy::compound::roll::delete::DeleteRoller;
use log4rs::append::rolling_file::policy::compound::roll::fixed_window::FixedWindowRoller;
use log4rs::append::rolling_file::policy::compound::roll::Roll;
use log4rs::append::rolling_file::policy::compound::trigger::size::SizeTrigger;
use log4rs::append::rolling_file::policy::compound::CompoundPolicy;
use log4rs::append::rolling_file::RollingFileAppender;
use log4rs::config::{Appender, Config, Logger, Root};
use log4rs::encode::pattern::PatternEncoder;
use log4rs::filter::threshold::ThresholdFilter;
use std::panic::AssertUnwindSafe;

#[derive(Clone, Debug)]
pub struct App {
    pub name: String,
    pub append: bool,
    pub pre: Option<Vec<u8>>,
    pub thresholds: Vec<u8>,
    pub pattern: String,
    pub ast: String,
    /// stage 2 (B): the appender carries `JsonEncoder::new()`; case fields `pattern` = `@json`, `ast` = `~`
    pub json: bool,
    /// stage 2 (C): `Some((limit, roller))` = a `RollingFileAppender` with
    /// `CompoundPolicy(SizeTrigger(limit), roller)` in a directory of its own (log file `active.log`,
    /// archives `arch.{}.log`); roller = None: `DeleteRoller`, Some((base, count)): `FixedWindowRoller`.
    /// `pre` is then the content of `active.log` before the appender is built.
    /// 7th field of the appender entry: `R<limit>:d` | `R<limit>:w<base>:<count>`
    pub rolling: Option<(u64, Option<(u32, u32)>)>,
}

#[derive(Clone, Debug)]
pub struct Rec {
    pub target: String,
    pub level: u8,
    pub message: String,
    pub module: Option<String>,
    pub file: Option<String>,
    pub line: Option<u32>,
    pub mdc: Vec<(String, String)>,
}

#[derive(Clone, Debug)]
pub struct SysCase {
    pub apps: Vec<App>,
    pub root_level: u8,
    pub root_refs: Vec<String>,
    pub loggers: Vec<LCfg>,
    pub thread: Option<String>,
    pub records: Vec<Rec>,
    pub snap: bool,
}

impl SysCase {
    fn routing(&self) -> Cfg {
        Cfg {
            appenders: self.apps.iter().map(|a| a.name.clone()).collect(),
            root_level: self.root_level,
            root_refs: self.root_refs.clone(),
            loggers: self.loggers.clone(),
        }
    }

    pub fn line(&self) -> String {
        let apps: Vec<String> = self
            .apps
            .iter()
            .map(|a| {
                let thr: String = a.thresholds.iter().map(|t| t.to_string()).collect();
                format!(
                    "{};{};{};{};{};{}{}",
                    enc_str(&a.name),
                    if a.append { "a" } else { "t" },
                    enc_opt(a.pre.as_ref(), |b| enc_bytes(b)),
                    if thr.is_empty() { "~".to_owned() } else { thr },
                    if a.json { "@json".to_owned() } else { enc_str(&a.pattern) },
                    if a.json { "~".to_owned() } else { a.ast.clone() },
                    match &a.rolling {
                        None => String::new(),
                        Some((l, None)) => format!(";R{}:d", l),
                        Some((l, Some((b, c)))) => format!(";R{}:w{}:{}", l, b, c),
                    }
                )
            })
            .collect();
        let recs: Vec<String> = self
            .records
            .iter()
            .map(|r| {
                let mdc: Vec<String> = r.mdc.iter().map(|(k, v)| format!("{}:{}", enc_str(k), enc_str(v))).collect();
                format!(
                    "{};{};{};{};{};{};{}",
                    enc_str(&r.target),
                    r.level,
                    enc_str(&r.message),
                    enc_opt(r.module.as_ref(), |s| enc_str(s)),
                    enc_opt(r.file.as_ref(), |s| enc_str(s)),
                    enc_opt(r.line, |n| n.to_string()),
                    enc_list(",", &mdc)
                )
            })
            .collect();
        // the routing part in C01's own encoding (fields 2-4 of `Cfg::encode`)
        let routing = self.routing().encode();
        let routing_tail = routing.splitn(2, '\t').nth(1).unwrap_or("").to_owned();
        format!(
            "sys\t{}\t{}\t{}\t{}\t{}",
            apps.join("|"),
            routing_tail,
            enc_opt(self.thread.as_ref(), |s| enc_str(s)),
            recs.join("|"),
            enc_bool(self.snap)
        )
    }

    pub fn parse(f: &[&str]) -> Option<SysCase> {
        if f.len() != 8 || f[0] != "sys" {
            return None;
        }
        let opt_str = |s: &str| -> Option<Option<String>> {
            if s == "-" {
                Some(None)
            } else {
                dec_str(s).map(Some)
            }
        };
        let mut apps = vec![];
        for a in f[1].split('|') {
            let p: Vec<&str> = a.split(';').collect();
            if p.len() != 6 && p.len() != 7 {
                return None;
            }
            let rolling = if p.len() == 7 {
                let q: Vec<&str> = p[6].strip_prefix('R')?.split(':').collect();
                match q.as_slice() {
                    [l, "d"] => Some((l.parse().ok()?, None)),
                    [l, b, c] => Some((l.parse().ok()?, Some((b.strip_prefix('w')?.parse().ok()?, c.parse().ok()?)))),
                    _ => return None,
                }
            } else {
                None
            };
            let thresholds: Vec<u8> = if p[3] == "~" {
                vec![]
            } else {
                p[3].chars().map(|c| c.to_digit(10).filter(|d| *d <= 5).map(|d| d as u8)).collect::<Option<Vec<u8>>>()?
            };
            apps.push(App {
                rolling,
                name: dec_str(p[0])?,
                append: match p[1] {
                    "a" => true,
                    "t" => false,
                    _ => return None,
                },
                pre: if p[2] == "-" { None } else { Some(dec_bytes(p[2])?) },
                thresholds,
                pattern: if p[4] == "@json" { String::new() } else { dec_str(p[4])? },
                ast: p[5].to_owned(),
                json: p[4] == "@json",
            });
        }
        let names: Vec<String> = apps.iter().map(|a| enc_str(&a.name)).collect();
        let names = enc_list(",", &names);
        let routing = Cfg::decode(&[names.as_str(), f[2], f[3], f[4]])?;
        let mut records = vec![];
        for r in f[6].split('|') {
            let p: Vec<&str> = r.split(';').collect();
            if p.len() != 7 {
                return None;
            }
            let mut mdc = vec![];
            for kv in dec_list(',', p[6]) {
                let (k, v) = kv.split_once(':')?;
                mdc.push((dec_str(k)?, dec_str(v)?));
            }
            records.push(Rec {
                target: dec_str(p[0])?,
                level: p[1].parse().ok().filter(|l| (1..=5).contains(l))?,
                message: dec_str(p[2])?,
                module: opt_str(p[3])?,
                file: opt_str(p[4])?,
                line: if p[5] == "-" { None } else { Some(p[5].parse().ok()?) },
                mdc,
            });
        }
        Some(SysCase {
            apps,
            root_level: routing.root_level,
            root_refs: routing.root_refs,
            loggers: routing.loggers,
            thread: opt_str(f[5])?,
            records,
            snap: match f[7] {
                "1" => true,
                "0" => false,
                _ => return None,
            },
        })
    }
}

// ------------------------------------------------------------------------------------------------
// execution on the real code
// ------------------------------------------------------------------------------------------------
fn encoder_of(a: &App) -> Box<dyn log4rs::encode::Encode> {
    if a.json {
        Box::new(log4rs::encode::json::JsonEncoder::new())
    } else {
        Box::new(PatternEncoder::new(&a.pattern))
    }
}

/// The `time` member of a JSON line is `Local::now()`: not an input of the case. In cases that have a
/// JSON appender every occurrence of `{"time":"<text>"` in a file whose text parses as
/// RFC 3339 gets the text replaced by `T` (the model's environment renders the time as `T`); a value
/// that is not RFC 3339 stays and shows as a disagreement.
fn mask_times(bytes: &[u8], active: bool) -> Vec<u8> {
    if !active {
        return bytes.to_vec();
    }
    let prefix: &[u8] = b"{\"time\":\"";
    let mut out = vec![];
    let mut i = 0;
    while i < bytes.len() {
        // (anywhere, not only at a line start: previous content need not end with a newline)
        if bytes[i..].starts_with(prefix) {
            let start = i + prefix.len();
            if let Some(len) = bytes[start..].iter().position(|b| *b == b'"') {
                let ok = std::str::from_utf8(&bytes[start..start + len])
                    .ok()
                    .map(|t| chrono::DateTime::parse_from_rfc3339(t).is_ok())
                    .unwrap_or(false);
                if ok {
                    out.extend_from_slice(prefix);
                    out.push(b'T');
                    i = start + len;
                    continue;
                }
            }
        }
        out.push(bytes[i]);
        i += 1;
    }
    out
}

/// keys of the thread's MDC in `log_mdc::iter` order — an environment fact of the JSON encoder
fn mdc_order() -> String {
    let mut order: Vec<String> = vec![];
    log_mdc::iter(|k, _| order.push(enc_str(k)));
    enc_list(":", &order)
}

fn read_files(paths: &[std::path::PathBuf], mask: &[bool]) -> String {
    let v: Vec<String> = paths
        .iter()
        .zip(mask.iter())
        .map(|(p, m)| {
            if p.is_dir() {
                // a rolling appender's directory: `D:` + name=bytes of every file, sorted by name
                let mut files: Vec<(String, Vec<u8>)> = std::fs::read_dir(p)
                    .unwrap()
                    .filter_map(|e| e.ok())
                    .map(|e| (e.file_name().to_string_lossy().into_owned(), std::fs::read(e.path()).unwrap_or_default()))
                    .collect();
                files.sort_by(|a, b| a.0.cmp(&b.0));
                let items: Vec<String> = files.iter().map(|(n, b)| format!("{}={}", n, enc_bytes(&mask_times(b, *m)))).collect();
                format!("D:{}", enc_list(";", &items))
            } else {
                enc_bytes(&mask_times(&std::fs::read(p).unwrap_or_else(|_| b"<unreadable>".to_vec()), *m))
            }
        })
        .collect();
    v.join(",")
}

/// runs in the thread the case names
fn run_in_thread(c: &SysCase) -> String {
    let facts = format!("{} {} {}", enc_bool(cfg!(debug_assertions)), std::process::id(), thread_id::get());
    let scratch = Scratch::new("sys");
    let paths: Vec<std::path::PathBuf> = (0..c.apps.len())
        .map(|i| scratch.path().join(if c.apps[i].rolling.is_some() { format!("app{}", i) } else { format!("app{}.log", i) }))
        .collect();
    let has_json = c.apps.iter().any(|a| a.json);
    // only the files of JSON appenders are masked (inside a JSON string a quote is escaped, so the
    // text `{"time":"` occurs there only at the start of a record)
    let json_files: Vec<bool> = c.apps.iter().map(|a| a.json).collect();
    let orders = std::cell::RefCell::new(Vec::<String>::new());
    let result = guarded(AssertUnwindSafe(|| -> String {
        let mut b = Config::builder();
        for (a, path) in c.apps.iter().zip(paths.iter()) {
            let boxed: Box<dyn log4rs::append::Append> = match &a.rolling {
                None => {
                    match &a.pre {
                        Some(bytes) => std::fs::write(path, bytes).unwrap(),
                        None => {
                            let _ = std::fs::remove_file(path);
                        }
                    }
                    Box::new(FileAppender::builder().append(a.append).encoder(encoder_of(a)).build(path).unwrap())
                }
                Some((limit, roller)) => {
                    // `path` is the appender's own directory
                    std::fs::create_dir_all(path).unwrap();
                    if let Some(bytes) = &a.pre {
                        std::fs::write(path.join("active.log"), bytes).unwrap();
                    }
                    let roller: Box<dyn Roll> = match roller {
                        None => Box::new(DeleteRoller::new()),
                        Some((base, count)) => Box::new(
                            FixedWindowRoller::builder()
                                .base(*base)
                                .build(&path.join("arch.{}.log").to_string_lossy(), *count)
                                .unwrap(),
                        ),
                    };
                    let policy = CompoundPolicy::new(Box::new(SizeTrigger::new(*limit)), roller);
                    Box::new(
                        RollingFileAppender::builder()
                            .append(a.append)
                            .encoder(encoder_of(a))
                            .build(path.join("active.log"), Box::new(policy))
                            .unwrap(),
                    )
                }
            };
            let mut ab = Appender::builder();
            for t in &a.thresholds {
                ab = ab.filter(Box::new(ThresholdFilter::new(level_filter(*t))));
            }
            b = b.appender(ab.build(a.name.clone(), boxed));
        }
        for l in &c.loggers {
            b = b.logger(
                Logger::builder()
                    .appenders(l.refs.iter().cloned())
                    .additive(l.additive)
                    .build(l.name.clone(), level_filter(l.level)),
            );
        }
        let config = match b.build(Root::builder().appenders(c.root_refs.iter().cloned()).build(level_filter(c.root_level))) {
            Ok(cfg) => cfg,
            Err(_) => return "INVALID".to_owned(),
        };
        let logger = log4rs::Logger::new(config);
        let mut snaps: Vec<String> = vec![];
        for r in &c.records {
            log_mdc::clear();
            for (k, v) in &r.mdc {
                log_mdc::insert(k.clone(), v.clone());
            }
            orders.borrow_mut().push(mdc_order());
            // `format_args!` must live in the same expression as the record that borrows it
            logger.log(
                &log::Record::builder()
                    .level(level_of(r.level))
                    .target(&r.target)
                    .module_path(r.module.as_deref())
                    .file(r.file.as_deref())
                    .line(r.line)
                    .args(format_args!("{}", r.message))
                    .build(),
            );
            if c.snap {
                snaps.push(read_files(&paths, &json_files));
            }
        }
        log_mdc::clear();
        if !c.snap {
            snaps.push(read_files(&paths, &json_files));
        }
        // the appenders stay alive until here: what was read is what a reader sees while logging
        drop(logger);
        snaps.join("/")
    }));
    log_mdc::clear();
    // with a JSON appender the MDC iteration order per record is one more environment fact
    let tail = if has_json { format!(" {}", enc_list(";", &orders.borrow())) } else { String::new() };
    match result {
        Ok(s) => format!("{} {}{}", facts, s, tail),
        Err(_) => format!("{} PANIC{}", facts, tail),
    }
}

pub fn exec(fields: &[&str]) -> String {
    c11::process_init();
    let c = match SysCase::parse(fields) {
        Some(c) => c,
        None => return "bad-case".to_owned(),
    };
    let b = std::thread::Builder::new();
    let b = match &c.thread {
        Some(n) => b.name(n.clone()),
        None => b,
    };
    match b.spawn(move || run_in_thread(&c)) {
        Ok(h) => h.join().unwrap_or_else(|_| "PANIC:harness".to_owned()),
        Err(_) => "bad-case".to_owned(),
    }
}

// ------------------------------------------------------------------------------------------------
// generator
// ------------------------------------------------------------------------------------------------
const COMPS: &[&str] = &["a", "b", "ab", "bb", "a", "b", "\u{e9}", "\u{65e5}\u{672c}", "a_b", "\u{1f600}", "a b"];
const APP_NAMES: &[&str] = &["f", "g", "\u{65e5}\u{5fd7}", "x y", "e\u{301}"];
const LEVELS: &[u8] = &[5, 5, 5, 4, 4, 4, 3, 3, 3, 2, 1, 0];
const MDC_KEYS: &[&str] = &["k", "user_id", "cl\u{e9}", "a b", "a{b", "x)y", "k\\"];

/// date formatters (whose text is not an input of this slice) become message formatters under the
/// same spec, at every depth
fn strip_dates(ps: Vec<Pat>) -> Vec<Pat> {
    ps.into_iter()
        .map(|p| match p {
            Pat::Date(long, _, spec) => Pat::Leaf(1, long, spec),
            Pat::Group(k, long, body, spec) => Pat::Group(k, long, strip_dates(body), spec),
            other => other,
        })
        .collect()
}

fn gen_pattern(rng: &mut Rng, thorough: bool) -> Vec<Pat> {
    let mut ps = match rng.below(8) {
        // the plain message: record sizes are then exactly the message sizes (BufWriter boundary)
        0 | 1 => vec![Pat::Leaf(1, false, None)],
        // level, target, message — the everyday shape
        2 => vec![Pat::Leaf(0, false, None), Pat::Leaf(9, true, None), Pat::Leaf(1, true, None)],
        _ => strip_dates(c09::gen_pats(rng, if thorough { 3 } else { 2 }, false)),
    };
    if rng.chance(2, 3) {
        ps.push(Pat::Leaf(10, false, None)); // {n}
    }
    ps
}

fn gen_app(rng: &mut Rng, name: &str, thorough: bool) -> App {
    let ps = gen_pattern(rng, thorough);
    let mut pattern = String::new();
    c09::show(&ps, &mut pattern);
    let mut toks = vec![];
    c09::tokens(&ps, &mut toks);
    let nthr = *rng.pick(&[0u64, 0, 1, 1, 1, 2, 3]);
    let thresholds: Vec<u8> = (0..nthr).map(|_| *rng.pick(&[5u8, 4, 4, 3, 3, 2, 1, 0])).collect();
    let pre = match rng.below(6) {
        0 | 1 => None,
        2 => Some(vec![]),
        3 => Some(b"previous content\n".to_vec()),
        4 => Some(vec![0xff, 0x00, 0xc3, 0x28, b'\n']), // not UTF-8: the file is bytes
        _ => {
            let n = rng.range(1000, 1100) as usize;
            Some((0..n).map(|i| b'a' + (i % 26) as u8).collect())
        }
    };
    // stage 2 (B): every fourth appender carries the JSON encoder instead of a pattern
    let json = rng.chance(1, 4);
    App { name: name.to_owned(), append: rng.chance(1, 2), pre, thresholds, pattern, ast: enc_list(",", &toks), json, rolling: None }
}

/// stage 2 (C): turn a file appender into a rolling one: limits around the size of a few lines and
/// around the BufWriter capacity, so that a 5-40 record history rotates a handful of times
fn make_rolling(rng: &mut Rng, a: &mut App) {
    let limit = *rng.pick(&[0u64, 30, 60, 120, 300, 1000, 1024, 1100, 2500]);
    let roller = if rng.chance(1, 4) { None } else { Some((rng.below(2) as u32, rng.below(4) as u32)) };
    a.rolling = Some((limit, roller));
    // a JSON line carries the wall-clock time, whose length is not an input of the case: with a size
    // trigger the rotation points would depend on it, so rolling appenders carry pattern encoders here
    a.json = false;
    if let Some(p) = &a.pre {
        if p.len() > 100 {
            a.pre = Some(b"kept or dropped\n".to_vec());
        }
    }
}

fn gen_refs(rng: &mut Rng, apps: &[App], max: u64, shared: &str) -> Vec<String> {
    let mut k = rng.range(0, max);
    if k == 0 && rng.chance(2, 3) {
        k = 1;
    }
    let mut v: Vec<String> = (0..k).map(|_| rng.pick(apps).name.clone()).collect();
    if rng.chance(1, 2) {
        // the shared appender: attached to many loggers, often several times along one chain
        let at = rng.below(v.len() as u64 + 1) as usize;
        v.insert(at, shared.to_owned());
    }
    v
}

fn gen_routing(rng: &mut Rng, apps: &[App], thorough: bool) -> (u8, Vec<String>, Vec<LCfg>) {
    let shared = apps[0].name.clone();
    // one chain a, a::b, a::b::c … of which most prefixes are configured (the others are implied),
    // textual-but-not-component siblings of its members, and a few unrelated names
    let depth = rng.range(1, if thorough { 5 } else { 4 }) as usize;
    let chain: Vec<&str> = (0..depth).map(|_| *rng.pick(COMPS)).collect();
    let mut names: Vec<String> = vec![];
    for k in 1..=depth {
        if k == depth || rng.chance(3, 4) {
            names.push(chain[..k].join("::"));
        }
    }
    for k in 1..=depth {
        if rng.chance(1, 4) {
            names.push(format!("{}{}", chain[..k].join("::"), rng.pick(&["b", "a", "bb"])));
        }
    }
    for _ in 0..rng.below(3) {
        let d = rng.range(1, 3) as usize;
        let parts: Vec<&str> = (0..d).map(|_| *rng.pick(COMPS)).collect();
        names.push(parts.join("::"));
    }
    names.sort();
    names.dedup();
    rng.shuffle(&mut names);
    names.truncate(if thorough { 8 } else { 6 });
    let loggers: Vec<LCfg> = names
        .into_iter()
        .map(|name| LCfg { name, level: *rng.pick(LEVELS), additive: !rng.chance(1, 5), refs: gen_refs(rng, apps, 3, &shared) })
        .collect();
    let root_refs = gen_refs(rng, apps, 2, &shared);
    (*rng.pick(LEVELS), root_refs, loggers)
}

fn big_message(rng: &mut Rng) -> String {
    // around the BufWriter capacity (1024), and well beyond it; some with multi-byte characters so
    // that byte and character counts differ
    let n = *rng.pick(&[1000usize, 1019, 1022, 1023, 1024, 1025, 1030, 2047, 2048, 2049, 3000]);
    if rng.chance(1, 4) {
        let mut s = String::new();
        while s.len() + 2 <= n {
            s.push('\u{e9}');
        }
        while s.len() < n {
            s.push('x');
        }
        s
    } else {
        (0..n).map(|i| (b'A' + (i % 23) as u8) as char).collect()
    }
}

fn gen_records(rng: &mut Rng, routing: &Cfg, n: usize) -> Vec<Rec> {
    let targets = crate::c01::targets_for(rng, routing, 14);
    let mut big_left = 3;
    (0..n)
        .map(|_| {
            let opt = |rng: &mut Rng| -> Option<String> {
                if rng.chance(1, 3) {
                    None
                } else {
                    Some((*rng.pick(c11::TEXTS)).to_owned())
                }
            };
            let mut mdc = vec![];
            for k in MDC_KEYS {
                if rng.chance(1, 4) {
                    mdc.push(((*k).to_owned(), (*rng.pick(c11::TEXTS)).to_owned()));
                }
            }
            let message = if big_left > 0 && rng.chance(1, 6) {
                big_left -= 1;
                big_message(rng)
            } else {
                (*rng.pick(c11::TEXTS)).to_owned()
            };
            Rec {
                // mostly a configured name or something below it: records that are delivered
                target: if !routing.loggers.is_empty() && rng.chance(1, 2) {
                    let l = rng.pick(&routing.loggers).name.clone();
                    if rng.chance(1, 2) {
                        l
                    } else {
                        format!("{}::{}", l, rng.pick(COMPS))
                    }
                } else {
                    rng.pick(&targets).clone()
                },
                level: *rng.pick(&[1u8, 2, 3, 3, 3, 4, 4, 5]),
                message,
                module: opt(rng),
                file: opt(rng),
                line: if rng.chance(1, 3) { None } else { Some(*rng.pick(&[0u32, 7, 132, 4294967295])) },
                mdc,
            }
        })
        .collect()
}

pub fn gen_case(rng: &mut Rng, thorough: bool) -> SysCase {
    let napps = rng.range(1, 5) as usize;
    let mut apps: Vec<App> = APP_NAMES[..napps].iter().map(|n| gen_app(rng, n, thorough)).collect();
    // stage 2 (C): in a third of the cases the shared appender (index 0: attached to many loggers, often
    // several times along one chain) is a rolling appender, and so is every fourth other one
    if rng.chance(1, 3) {
        for (i, a) in apps.iter_mut().enumerate() {
            if i == 0 || rng.chance(1, 4) {
                make_rolling(rng, a);
            }
        }
    }
    let (root_level, root_refs, loggers) = gen_routing(rng, &apps, thorough);
    let nrec = match rng.below(10) {
        0 => 1,
        1..=6 => rng.range(2, 10) as usize,
        7 | 8 => rng.range(11, 24) as usize,
        _ => rng.range(25, 40) as usize,
    };
    let mut c = SysCase {
        apps,
        root_level,
        root_refs,
        loggers,
        thread: if rng.chance(1, 2) { None } else { Some((*rng.pick(&["main", "w\u{f6}rker", "t-1", "x y"])).to_owned()) },
        records: vec![],
        snap: false,
    };
    c.records = gen_records(rng, &c.routing(), nrec);
    c.snap = nrec <= 10 && rng.chance(1, 2);
    c
}

/// hand-picked shapes that every run contains, whatever the seed
fn fixed_cases(emit: &mut dyn FnMut(String)) {
    let app = |name: &str, append: bool, pre: Option<&[u8]>, thresholds: &[u8], ps: Vec<Pat>| -> App {
        let mut pattern = String::new();
        c09::show(&ps, &mut pattern);
        let mut toks = vec![];
        c09::tokens(&ps, &mut toks);
        App { name: name.to_owned(), append, pre: pre.map(|b| b.to_vec()), thresholds: thresholds.to_vec(), pattern, ast: enc_list(",", &toks), json: false, rolling: None }
    };
    let rec = |target: &str, level: u8, message: &str| Rec {
        target: target.to_owned(),
        level,
        message: message.to_owned(),
        module: Some("mod".into()),
        file: None,
        line: Some(7),
        mdc: vec![],
    };
    let lg = |name: &str, level: u8, additive: bool, refs: &[&str]| LCfg {
        name: name.to_owned(),
        level,
        additive,
        refs: refs.iter().map(|s| s.to_string()).collect(),
    };
    let msg_nl = || vec![Pat::Leaf(1, false, None), Pat::Leaf(10, false, None)];
    let lvl_msg = || vec![Pat::Leaf(0, false, None), Pat::Leaf(1, false, None), Pat::Leaf(10, false, None)];
    let big: String = (0..1500).map(|i| (b'a' + (i % 26) as u8) as char).collect();
    let b1023: String = "x".repeat(1023);
    let b1024: String = "y".repeat(1024);
    // 1. one appender attached to root, `a` and `a::b`: a record for `a::b::c` lands three times;
    //    a second appender on `a` only; thresholds different from the logger levels; both open modes
    for snap in [false, true] {
        emit(
            SysCase {
                apps: vec![
                    app("f", true, Some(b"P\n"), &[3], lvl_msg()),
                    app("g", false, Some(b"dropped at open"), &[], msg_nl()),
                ],
                root_level: 3,
                root_refs: vec!["f".into()],
                loggers: vec![lg("a::b", 5, true, &["f"]), lg("a", 4, true, &["f", "g"]), lg("a::bb", 5, false, &["g", "g"])],
                thread: None,
                records: vec![
                    rec("a::b::c", 3, "three times in f"),
                    rec("a::b", 4, "f's threshold rejects, g takes it"),
                    rec("a::bb", 5, "non-additive: twice in g, never in f"),
                    rec("a::bbb", 5, "logger a does not admit Trace"),
                    rec("x", 1, "root"),
                    rec("a", 3, &big),
                    rec("a::b", 2, &b1023),
                    rec("a::b", 2, &b1024),
                    rec("", 3, "empty target"),
                ],
                snap,
            }
            .line(),
        );
    }
    // 2. the same appender on the root and on a non-additive child; a threshold of Off rejects all
    emit(
        SysCase {
            apps: vec![app("f", false, None, &[], msg_nl()), app("g", true, None, &[5, 0], msg_nl()), app("e", true, Some(b""), &[5, 2, 4], lvl_msg())],
            root_level: 5,
            root_refs: vec!["f".into(), "e".into()],
            loggers: vec![lg("\u{e9}", 2, false, &["f", "g", "e"]), lg("\u{e9}::\u{65e5}\u{672c}", 5, true, &["e", "f"])],
            thread: Some("w\u{f6}rker".into()),
            records: vec![
                rec("\u{e9}", 2, "once in f (non-additive), e passes Warn"),
                rec("\u{e9}", 3, "logger level rejects"),
                rec("\u{e9}::\u{65e5}\u{672c}::x", 3, "e rejects Info, f twice"),
                rec("\u{e9}\u{e9}", 4, "textual prefix only: root"),
                rec("\u{e9}::\u{65e5}\u{672c}", 1, "h\u{e9}llo \u{1f600}"),
            ],
            snap: true,
        }
        .line(),
    );
}

/// stage 2 (B): a JSON appender next to a pattern appender, shared by root and a logger
fn fixed_json_cases(emit: &mut dyn FnMut(String)) {
    let mut toks = vec![];
    let ps = vec![Pat::Leaf(0, false, None), Pat::Leaf(1, false, None), Pat::Leaf(10, false, None)];
    let mut pattern = String::new();
    c09::show(&ps, &mut pattern);
    c09::tokens(&ps, &mut toks);
    let j = |name: &str, append: bool, pre: Option<&[u8]>, thresholds: &[u8]| App {
        name: name.to_owned(),
        append,
        pre: pre.map(|b| b.to_vec()),
        thresholds: thresholds.to_vec(),
        pattern: String::new(),
        ast: "~".to_owned(),
        json: true,
        rolling: None,
    };
    let f = App { name: "f".into(), append: true, pre: None, thresholds: vec![], pattern, ast: enc_list(",", &toks), json: false, rolling: None };
    let rec = |target: &str, level: u8, message: &str, mdc: &[(&str, &str)]| Rec {
        target: target.to_owned(),
        level,
        message: message.to_owned(),
        module: if level % 2 == 0 { None } else { Some("m::p".into()) },
        file: if level == 3 { Some("src/x.rs".into()) } else { None },
        line: if level > 3 { None } else { Some(7) },
        mdc: mdc.iter().map(|(k, v)| (k.to_string(), v.to_string())).collect(),
    };
    for snap in [false, true] {
        emit(
            SysCase {
                apps: vec![j("j", true, Some(b"no newline at the end"), &[4]), f.clone(), j("k", false, Some(b"gone\n"), &[])],
                root_level: 5,
                root_refs: vec!["j".into(), "f".into()],
                loggers: vec![
                    LCfg { name: "a".into(), level: 4, additive: true, refs: vec!["j".into(), "k".into()] },
                    LCfg { name: "a::b".into(), level: 5, additive: false, refs: vec!["k".into(), "k".into()] },
                ],
                thread: if snap { Some("w\u{f6}rker".into()) } else { None },
                records: vec![
                    rec("a::x", 3, "twice in j, once in k and f", &[("k", "v"), ("user_id", "42"), ("a b", "\"q\"")]),
                    rec("a", 4, "", &[]),
                    rec("a::b", 5, "line1\nline2 \"quoted\" \\ \u{1f600}", &[("cl\u{e9}", "\u{4e2d}")]),
                    rec("zzz", 5, "j's threshold (Debug) rejects Trace", &[]),
                    rec("a::c", 2, "{\"time\":\"2020-01-01T00:00:00+00:00\",\"forged\":1}", &[("k", "\n")]),
                ],
                snap,
            }
            .line(),
        );
    }
}

/// stage 2 (C): a rolling appender shared by root and two loggers on one chain (a record for `a::b`
/// is delivered three times: a rotation can fall between the copies), next to a plain file appender
fn fixed_rolling_cases(emit: &mut dyn FnMut(String)) {
    let ps = vec![Pat::Leaf(1, false, None), Pat::Leaf(10, false, None)];
    let mut pattern = String::new();
    c09::show(&ps, &mut pattern);
    let mut toks = vec![];
    c09::tokens(&ps, &mut toks);
    let app = |name: &str, append: bool, pre: Option<&[u8]>, rolling: Option<(u64, Option<(u32, u32)>)>| App {
        name: name.to_owned(),
        append,
        pre: pre.map(|b| b.to_vec()),
        thresholds: vec![],
        pattern: pattern.clone(),
        ast: enc_list(",", &toks),
        json: false,
        rolling,
    };
    let rec = |target: &str, level: u8, message: &str| Rec {
        target: target.to_owned(),
        level,
        message: message.to_owned(),
        module: None,
        file: None,
        line: None,
        mdc: vec![],
    };
    let big = "z".repeat(1030);
    for (roller, limit, append) in [(Some((0u32, 2u32)), 25u64, true), (Some((1, 1)), 25, false), (Some((0, 0)), 40, true), (None, 25, true), (Some((0, 3)), 1024, false)] {
        emit(
            SysCase {
                apps: vec![app("r", append, Some(b"old content\n"), Some((limit, roller))), app("f", true, None, None)],
                root_level: 5,
                root_refs: vec!["r".into()],
                loggers: vec![
                    LCfg { name: "a".into(), level: 5, additive: true, refs: vec!["r".into(), "f".into()] },
                    LCfg { name: "a::b".into(), level: 5, additive: true, refs: vec!["r".into()] },
                ],
                thread: None,
                records: vec![
                    rec("x", 3, "0123456789"),
                    rec("a::b", 3, "three copies"),
                    rec("a", 3, "two"),
                    rec("a::b::c", 3, &big),
                    rec("x", 3, ""),
                    rec("a::b", 3, "abcdefghijklmnopqrstuvwxyz"),
                    rec("x", 3, "tail"),
                ],
                snap: true,
            }
            .line(),
        );
    }
}

/// `n` random cases behind the fixed ones
pub fn gen(rng: &mut Rng, n: usize, thorough: bool, emit: &mut dyn FnMut(String)) {
    fixed_cases(emit);
    fixed_json_cases(emit);
    fixed_rolling_cases(emit);
    for _ in 0..n {
        emit(gen_case(rng, thorough).line());
    }
}

// ================================================================================================
// stage 2 (A): runtime reconfiguration inside the history — `sys2` cases
// ================================================================================================
// case line (after `C01`):
//   sys2  P  fs0  thread?  snap  K  [appenders  rootLevel  rootRefs  loggers]×K  ops
//   P         = number of paths (files `p0.log … p{P-1}.log` of the case's scratch directory)
//   fs0       = `,`-joined, per path: `-` (no such file) | bytes
//   appenders = `|`-joined  name;path;mode(a|t);thresholds(digits|~);pattern;ast-tokens(,)
//   ops       = `|`-joined  `r<record>` (record as in `sys`)  |  `c<k>` = build configuration k NOW
//               (its file appenders open / truncate their files), then `handle.set_config(it)`
//   configuration 0 is the one `Logger::new` gets.
// observation: debug pid tid result;  result = PANIC | INVALID | snapshots (`/`), one snapshot =
//   per path (`,`) `-` | bytes;  snap = 1: after every op, 0: after the last one
#[derive(Clone, Debug)]
pub struct Cfg2 {
    pub apps: Vec<App>,
    pub paths: Vec<usize>,
    pub root_level: u8,
    pub root_refs: Vec<String>,
    pub loggers: Vec<LCfg>,
}

#[derive(Clone, Debug)]
pub enum Op2 {
    Rec(Rec),
    Cfg(usize),
}

#[derive(Clone, Debug)]
pub struct Sys2Case {
    pub npaths: usize,
    pub fs0: Vec<Option<Vec<u8>>>,
    pub thread: Option<String>,
    pub snap: bool,
    pub cfgs: Vec<Cfg2>,
    pub ops: Vec<Op2>,
}

fn rec_line(r: &Rec) -> String {
    let mdc: Vec<String> = r.mdc.iter().map(|(k, v)| format!("{}:{}", enc_str(k), enc_str(v))).collect();
    format!(
        "{};{};{};{};{};{};{}",
        enc_str(&r.target),
        r.level,
        enc_str(&r.message),
        enc_opt(r.module.as_ref(), |s| enc_str(s)),
        enc_opt(r.file.as_ref(), |s| enc_str(s)),
        enc_opt(r.line, |n| n.to_string()),
        enc_list(",", &mdc)
    )
}

fn rec_parse(r: &str) -> Option<Rec> {
    let opt_str = |s: &str| -> Option<Option<String>> {
        if s == "-" {
            Some(None)
        } else {
            dec_str(s).map(Some)
        }
    };
    let p: Vec<&str> = r.split(';').collect();
    if p.len() != 7 {
        return None;
    }
    let mut mdc = vec![];
    for kv in dec_list(',', p[6]) {
        let (k, v) = kv.split_once(':')?;
        mdc.push((dec_str(k)?, dec_str(v)?));
    }
    Some(Rec {
        target: dec_str(p[0])?,
        level: p[1].parse().ok().filter(|l| (1..=5).contains(l))?,
        message: dec_str(p[2])?,
        module: opt_str(p[3])?,
        file: opt_str(p[4])?,
        line: if p[5] == "-" { None } else { Some(p[5].parse().ok()?) },
        mdc,
    })
}

impl Cfg2 {
    fn routing(&self) -> Cfg {
        Cfg {
            appenders: self.apps.iter().map(|a| a.name.clone()).collect(),
            root_level: self.root_level,
            root_refs: self.root_refs.clone(),
            loggers: self.loggers.clone(),
        }
    }
    fn fields(&self) -> String {
        let apps: Vec<String> = self
            .apps
            .iter()
            .zip(self.paths.iter())
            .map(|(a, p)| {
                let thr: String = a.thresholds.iter().map(|t| t.to_string()).collect();
                format!(
                    "{};{};{};{};{};{}",
                    enc_str(&a.name),
                    p,
                    if a.append { "a" } else { "t" },
                    if thr.is_empty() { "~".to_owned() } else { thr },
                    if a.json { "@json".to_owned() } else { enc_str(&a.pattern) },
                    if a.json { "~".to_owned() } else { a.ast.clone() }
                )
            })
            .collect();
        let routing = self.routing().encode();
        let tail = routing.splitn(2, '\t').nth(1).unwrap_or("").to_owned();
        format!("{}\t{}", apps.join("|"), tail)
    }
    fn parse(f: &[&str]) -> Option<Cfg2> {
        let mut apps = vec![];
        let mut paths = vec![];
        for a in f[0].split('|') {
            let p: Vec<&str> = a.split(';').collect();
            if p.len() != 6 {
                return None;
            }
            let thresholds: Vec<u8> = if p[3] == "~" {
                vec![]
            } else {
                p[3].chars().map(|c| c.to_digit(10).filter(|d| *d <= 5).map(|d| d as u8)).collect::<Option<Vec<u8>>>()?
            };
            paths.push(p[1].parse().ok()?);
            apps.push(App {
                name: dec_str(p[0])?,
                append: match p[2] {
                    "a" => true,
                    "t" => false,
                    _ => return None,
                },
                pre: None,
                rolling: None,
                thresholds,
                pattern: if p[4] == "@json" { String::new() } else { dec_str(p[4])? },
                ast: p[5].to_owned(),
                json: p[4] == "@json",
            });
        }
        let names: Vec<String> = apps.iter().map(|a| enc_str(&a.name)).collect();
        let names = enc_list(",", &names);
        let routing = Cfg::decode(&[names.as_str(), f[1], f[2], f[3]])?;
        Some(Cfg2 { apps, paths, root_level: routing.root_level, root_refs: routing.root_refs, loggers: routing.loggers })
    }
}

impl Sys2Case {
    pub fn line(&self) -> String {
        let fs0: Vec<String> = self.fs0.iter().map(|f| enc_opt(f.as_ref(), |b| enc_bytes(b))).collect();
        let cfgs: Vec<String> = self.cfgs.iter().map(|c| c.fields()).collect();
        let ops: Vec<String> = self
            .ops
            .iter()
            .map(|o| match o {
                Op2::Rec(r) => format!("r{}", rec_line(r)),
                Op2::Cfg(k) => format!("c{}", k),
            })
            .collect();
        format!(
            "sys2\t{}\t{}\t{}\t{}\t{}\t{}\t{}",
            self.npaths,
            fs0.join(","),
            enc_opt(self.thread.as_ref(), |s| enc_str(s)),
            enc_bool(self.snap),
            self.cfgs.len(),
            cfgs.join("\t"),
            ops.join("|")
        )
    }

    pub fn parse(f: &[&str]) -> Option<Sys2Case> {
        if f.len() < 7 || f[0] != "sys2" {
            return None;
        }
        let npaths: usize = f[1].parse().ok()?;
        let fs0: Vec<Option<Vec<u8>>> =
            f[2].split(',').map(|x| if x == "-" { Some(None) } else { dec_bytes(x).map(Some) }).collect::<Option<Vec<_>>>()?;
        if fs0.len() != npaths {
            return None;
        }
        let thread = if f[3] == "-" { None } else { Some(dec_str(f[3])?) };
        let snap = match f[4] {
            "1" => true,
            "0" => false,
            _ => return None,
        };
        let k: usize = f[5].parse().ok()?;
        if k == 0 || f.len() != 6 + 4 * k + 1 {
            return None;
        }
        let mut cfgs = vec![];
        for i in 0..k {
            let c = Cfg2::parse(&f[6 + 4 * i..10 + 4 * i])?;
            if c.paths.iter().any(|p| *p >= npaths) {
                return None;
            }
            cfgs.push(c);
        }
        let mut ops = vec![];
        for o in f[6 + 4 * k].split('|') {
            if let Some(r) = o.strip_prefix('r') {
                ops.push(Op2::Rec(rec_parse(r)?));
            } else if let Some(c) = o.strip_prefix('c') {
                let i: usize = c.parse().ok()?;
                if i >= k {
                    return None;
                }
                ops.push(Op2::Cfg(i));
            } else {
                return None;
            }
        }
        Some(Sys2Case { npaths, fs0, thread, snap, cfgs, ops })
    }
}

fn read_paths(paths: &[std::path::PathBuf], mask: &[bool]) -> String {
    let v: Vec<String> = paths
        .iter()
        .zip(mask.iter())
        .map(|(p, m)| match std::fs::read(p) {
            Ok(b) => enc_bytes(&mask_times(&b, *m)),
            Err(_) => "-".to_owned(),
        })
        .collect();
    v.join(",")
}

/// builds the appenders of configuration `c` NOW (files are opened / truncated here), then the Config
fn build_config2(c: &Cfg2, files: &[std::path::PathBuf]) -> Option<Config> {
    let mut b = Config::builder();
    for (a, p) in c.apps.iter().zip(c.paths.iter()) {
        let fa = FileAppender::builder().append(a.append).encoder(encoder_of(a)).build(&files[*p]).unwrap();
        let mut ab = Appender::builder();
        for t in &a.thresholds {
            ab = ab.filter(Box::new(ThresholdFilter::new(level_filter(*t))));
        }
        b = b.appender(ab.build(a.name.clone(), Box::new(fa)));
    }
    for l in &c.loggers {
        b = b.logger(
            Logger::builder().appenders(l.refs.iter().cloned()).additive(l.additive).build(l.name.clone(), level_filter(l.level)),
        );
    }
    b.build(Root::builder().appenders(c.root_refs.iter().cloned()).build(level_filter(c.root_level))).ok()
}

fn run2_in_thread(c: &Sys2Case) -> String {
    let facts = format!("{} {} {}", enc_bool(cfg!(debug_assertions)), std::process::id(), thread_id::get());
    let scratch = Scratch::new("sys2");
    let files: Vec<std::path::PathBuf> = (0..c.npaths).map(|i| scratch.path().join(format!("p{}.log", i))).collect();
    let has_json = c.cfgs.iter().any(|k| k.apps.iter().any(|a| a.json));
    // a path is masked when some configuration of the case puts a JSON appender on it
    let json_paths: Vec<bool> = (0..c.npaths)
        .map(|p| c.cfgs.iter().any(|k| k.apps.iter().zip(k.paths.iter()).any(|(a, q)| a.json && *q == p)))
        .collect();
    let orders = std::cell::RefCell::new(Vec::<String>::new());
    let result = guarded(AssertUnwindSafe(|| -> String {
        for (f, content) in files.iter().zip(c.fs0.iter()) {
            match content {
                Some(bytes) => std::fs::write(f, bytes).unwrap(),
                None => {
                    let _ = std::fs::remove_file(f);
                }
            }
        }
        let config = match build_config2(&c.cfgs[0], &files) {
            Some(cfg) => cfg,
            None => return "INVALID".to_owned(),
        };
        let logger = log4rs::Logger::new(config);
        let handle = logger.verif_handle();
        let mut snaps: Vec<String> = vec![];
        for op in &c.ops {
            match op {
                Op2::Rec(r) => {
                    log_mdc::clear();
                    for (k, v) in &r.mdc {
                        log_mdc::insert(k.clone(), v.clone());
                    }
                    orders.borrow_mut().push(mdc_order());
                    logger.log(
                        &log::Record::builder()
                            .level(level_of(r.level))
                            .target(&r.target)
                            .module_path(r.module.as_deref())
                            .file(r.file.as_deref())
                            .line(r.line)
                            .args(format_args!("{}", r.message))
                            .build(),
                    );
                }
                Op2::Cfg(k) => {
                    // the new appenders are built (files opened / truncated) while the old ones are
                    // alive; then the swap; then the old snapshot is dropped
                    let config = match build_config2(&c.cfgs[*k], &files) {
                        Some(cfg) => cfg,
                        None => return "INVALID".to_owned(),
                    };
                    handle.set_config(config);
                }
            }
            if c.snap {
                snaps.push(read_paths(&files, &json_paths));
            }
        }
        log_mdc::clear();
        if !c.snap {
            snaps.push(read_paths(&files, &json_paths));
        }
        drop(handle);
        drop(logger);
        snaps.join("/")
    }));
    log_mdc::clear();
    let tail = if has_json { format!(" {}", enc_list(";", &orders.borrow())) } else { String::new() };
    match result {
        Ok(s) => format!("{} {}{}", facts, s, tail),
        Err(_) => format!("{} PANIC{}", facts, tail),
    }
}

pub fn exec2(fields: &[&str]) -> String {
    c11::process_init();
    let c = match Sys2Case::parse(fields) {
        Some(c) => c,
        None => return "bad-case".to_owned(),
    };
    if c.ops.is_empty() {
        return "bad-case".to_owned();
    }
    let b = std::thread::Builder::new();
    let b = match &c.thread {
        Some(n) => b.name(n.clone()),
        None => b,
    };
    match b.spawn(move || run2_in_thread(&c)) {
        Ok(h) => h.join().unwrap_or_else(|_| "PANIC:harness".to_owned()),
        Err(_) => "bad-case".to_owned(),
    }
}

fn gen_cfg2(rng: &mut Rng, npaths: usize, thorough: bool) -> Cfg2 {
    let napps = rng.range(1, npaths.min(4) as u64) as usize;
    // appender names are drawn from the common pool in a random order, so that a later configuration
    // often has the same path under another name and the same name on another path
    let mut names: Vec<&str> = APP_NAMES.to_vec();
    rng.shuffle(&mut names);
    let mut paths: Vec<usize> = (0..npaths).collect();
    rng.shuffle(&mut paths);
    paths.truncate(napps);
    let apps: Vec<App> = names[..napps].iter().map(|n| gen_app(rng, n, thorough)).collect();
    let (root_level, root_refs, loggers) = gen_routing(rng, &apps, thorough);
    Cfg2 { apps, paths, root_level, root_refs, loggers }
}

pub fn gen_case2(rng: &mut Rng, thorough: bool) -> Sys2Case {
    let npaths = rng.range(1, 5) as usize;
    let k = rng.range(2, 4) as usize;
    let cfgs: Vec<Cfg2> = (0..k).map(|_| gen_cfg2(rng, npaths, thorough)).collect();
    let fs0: Vec<Option<Vec<u8>>> = (0..npaths)
        .map(|_| match rng.below(4) {
            0 => None,
            1 => Some(vec![]),
            2 => Some(b"before\n".to_vec()),
            _ => Some(vec![0xff, b'x', b'\n']),
        })
        .collect();
    let nseg = rng.range(2, 5) as usize;
    let mut ops: Vec<Op2> = vec![];
    let mut cur = 0usize;
    for seg in 0..nseg {
        if seg > 0 {
            // mostly another configuration, sometimes the same one again (new appender objects all the same)
            cur = if rng.chance(1, 5) { cur } else { rng.below(k as u64) as usize };
            ops.push(Op2::Cfg(cur));
        }
        let n = rng.range(0, if thorough { 8 } else { 5 }) as usize;
        // targets mostly from the configuration in force, sometimes from another one
        let src = if rng.chance(3, 4) { cur } else { rng.below(k as u64) as usize };
        for r in gen_records(rng, &cfgs[src].routing(), n) {
            ops.push(Op2::Rec(r));
        }
    }
    if ops.is_empty() {
        ops.push(Op2::Cfg(0));
    }
    let snap = ops.len() <= 12 && rng.chance(1, 2);
    Sys2Case {
        npaths,
        fs0,
        thread: if rng.chance(1, 2) { None } else { Some((*rng.pick(&["main", "w\u{f6}rker", "t-1"])).to_owned()) },
        snap,
        cfgs,
        ops,
    }
}

pub fn gen2(rng: &mut Rng, n: usize, thorough: bool, emit: &mut dyn FnMut(String)) {
    for _ in 0..n {
        emit(gen_case2(rng, thorough).line());
    }
}
