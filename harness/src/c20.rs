//! C20 — size and interval literals, and the `refresh_rate` duration.
//!
//! Real code driven:
//!   * the serde visitors behind `SizeTriggerConfig.limit` and `TimeTriggerInterval`, directly
//!     (`serde_json` / `serde_yaml` / `toml` -> the config struct) AND through the real
//!     configuration path (`load_config_file` for YAML, `RawConfig` -> `appenders_lossy(&Deserializers
//!     ::default())` for JSON and TOML), where the scalar travels as a `serde_value::Value` and the
//!     trigger is really built (`SizeTrigger::new`, `TimeTrigger::new`); the parsed value is read
//!     back from the Debug rendering of the built appender, and for small size limits by a rolling
//!     run (a record that makes the file exactly `limit` bytes long must not roll, one more byte must);
//!   * `RawConfig.refresh_rate` (`de_duration` -> `humantime::parse_duration`) from YAML/JSON/TOML.
//!
//! Case lines (fields after the property id), `kind` = `size` | `interval` | `refresh`:
//!   kind int   <decimal integer token>
//!   kind str   <string>                                   (quoted in every format; YAML also plain
//!                                                          when the plain scalar resolves to the same string)
//!   kind other null|float|ifloat|efloat|bool|seq|map
//!   kind lit   <n> <zeros> <ws> <unit|-> <mask> <ws2> <mut>   (size, interval: the generator's INTENT;
//!                                                          the string is composed on both sides)
//!   kind plain <yaml|json|toml> <token text> <rform> <rpayload>  (an unquoted token of that format and
//!                                                          the scalar the generator says it resolves to)
//!   refresh spans <n;zeros;ws;unit;sep , …>              (intent: a sum of number x unit spans)
//! Observation: `ok:<bytes>[ roll=<0|1><0|1>]` | `ok:<unit>:<n>` | `ok:<secs>:<nanos>` | `none` | `err` |
//! `PANIC`, or `LEGS-DISAGREE …` when the formats / paths do not agree with each other.
use crate::proto::*;
use crate::rng::Rng;
use log4rs::append::rolling_file::policy::compound::trigger::{size::SizeTriggerConfig, time::TimeTriggerConfig};
use log4rs::config::{Deserializers, RawConfig};
use std::fmt::Write as _;
use std::path::PathBuf;

pub const SIZE_UNITS: &[&str] = &["b", "kb", "kib", "mb", "mib", "gb", "gib", "tb", "tib"];
pub const TIME_UNITS: &[&str] = &[
    "second", "seconds", "minute", "minutes", "hour", "hours", "day", "days", "week", "weeks", "month", "months",
    "year", "years",
];
/// humantime 2.4.0's suffix table (case-sensitive), with the multiplier: (word, nanos-domain?, multiplier)
pub const REFRESH_UNITS: &[(&str, bool, u64)] = &[
    ("nanos", true, 1), ("nsec", true, 1), ("ns", true, 1),
    ("usec", true, 1_000), ("us", true, 1_000), ("µs", true, 1_000),
    ("millis", true, 1_000_000), ("msec", true, 1_000_000), ("ms", true, 1_000_000),
    ("seconds", false, 1), ("second", false, 1), ("secs", false, 1), ("sec", false, 1), ("s", false, 1),
    ("minutes", false, 60), ("minute", false, 60), ("min", false, 60), ("mins", false, 60), ("m", false, 60),
    ("hours", false, 3600), ("hour", false, 3600), ("hr", false, 3600), ("hrs", false, 3600), ("h", false, 3600),
    ("days", false, 86400), ("day", false, 86400), ("d", false, 86400),
    ("weeks", false, 604800), ("week", false, 604800), ("wk", false, 604800), ("wks", false, 604800), ("w", false, 604800),
    ("months", false, 2_630_016), ("month", false, 2_630_016), ("M", false, 2_630_016),
    ("years", false, 31_557_600), ("year", false, 31_557_600), ("yr", false, 31_557_600), ("yrs", false, 31_557_600), ("y", false, 31_557_600),
];
/// the 25 code points with the Unicode White_Space property (= `char::is_whitespace`)
const WS25: &[u32] = &[
    9, 10, 11, 12, 13, 0x20, 0x85, 0xA0, 0x1680, 0x2000, 0x2001, 0x2002, 0x2003, 0x2004, 0x2005, 0x2006, 0x2007, 0x2008,
    0x2009, 0x200A, 0x2028, 0x2029, 0x202F, 0x205F, 0x3000,
];
/// look like white space, are not
const NEAR_WS: &[u32] = &[0x1C, 0x1D, 0x1E, 0x1F, 0x180E, 0x200B, 0x200C, 0x200D, 0x2060, 0xFEFF, 0xAD, 0x0];
/// non-ASCII decimal digits
const ODD_DIGITS: &[u32] = &[0x663, 0xFF13, 0x1D7D1, 0xB3, 0x2462, 0x96F];
const JUNK: &[&str] = &[
    "x", "k", "bb", "kbs", "kb1", "1", ".5kb", ",5", "e3", "_", "-", "+", "kb kb", "µb", "ｋｂ", "secs", "s", "m", "h",
    "d", "w", "minutes5", "\u{200b}kb", "K", "kB\u{301}", "İb", "\u{212a}b", "\u{212a}ib", "\u{17f}econd", "\u{17f}econds", "day\u{17f}",
    "Ｋｂ", "㎅", "kb\u{0}", "k b", "se conds", "ss", "secondss", "ib", "bi", "kbi", "pb", "eb", "mbb", "sec", "min", "ms", "yr",
    "fortnight", "b b", "b\u{a0}b", "0x10", "1_000",
];
/// suffixes that make any unit word invalid whatever follows (first char is neither a letter nor white space)
const HARD_SUFFIX: &[&str] = &["1", "_", "-", ".", ",", "µ", "\u{200b}", "\u{0}", "\u{301}", "5kb", "\u{feff}", "/s"];
const ALPHABET: &[char] = &[
    '0', '1', '2', '3', '4', '5', '6', '7', '8', '9', '0', '1', '5', 'k', 'K', 'm', 'M', 'g', 't', 'i', 'b', 'B', 's', 'e', 'c', 'o',
    'n', 'd', 'h', 'u', 'r', 'y', 'a', 'w', ' ', ' ', '\t', '.', '+', '-', '_', 'e', 'E', ':', '\u{a0}', 'µ', 'x',
];

fn ws_string(rng: &mut Rng, allow_empty: bool) -> String {
    match rng.below(10) {
        0..=2 if allow_empty => String::new(),
        0..=5 => " ".to_owned(),
        6 => "\t".to_owned(),
        _ => {
            let k = rng.range(1, 3);
            (0..k).map(|_| char::from_u32(*rng.pick(WS25)).unwrap()).collect()
        }
    }
}

fn apply_mask(word: &str, mask: u64) -> String {
    word.chars()
        .enumerate()
        .map(|(i, c)| if mask >> i & 1 == 1 { c.to_ascii_uppercase() } else { c })
        .collect()
}

fn thresholds(mults: &[u128], limit: u128) -> Vec<u128> {
    // 0, small, every overflow threshold ± 1, up to 39 digits
    let mut v: Vec<u128> = vec![0, 1, 7, 10, 99, 1023, 1024, 1025, 4294967295, 4294967296];
    for m in mults {
        let q = (limit + m - 1) / m; // least n with n*m >= limit
        for d in [-2i128, -1, 0, 1, 2] {
            let x = q as i128 + d;
            if x >= 0 {
                v.push(x as u128);
            }
        }
    }
    for x in [
        (1u128 << 63) - 1,
        1u128 << 63,
        (1u128 << 63) + 1,
        (1u128 << 64) - 1,
        1u128 << 64,
        (1u128 << 64) + 1,
        99999999999999999999,
        100000000000000000000,
        (1u128 << 127) - 1,
        1u128 << 127,
        340282366920938463463374607431768211455,
    ] {
        v.push(x);
    }
    v.sort();
    v.dedup();
    v
}

fn random_number(rng: &mut Rng, pool: &[u128]) -> u128 {
    if rng.chance(1, 2) {
        *rng.pick(pool)
    } else {
        let digits = rng.range(1, 21);
        let mut x: u128 = 0;
        for i in 0..digits {
            let d = if i == 0 { rng.range(1, 9) } else { rng.range(0, 9) };
            x = x * 10 + d as u128;
        }
        x
    }
}

/// start-up assertion (DESIGN §3): Rust classifies the sample characters as the Lean tables say
fn assert_char_tables() {
    let all: Vec<u32> = (0..=0x10FFFFu32).filter(|n| char::from_u32(*n).map(|c| c.is_whitespace()).unwrap_or(false)).collect();
    assert_eq!(all, WS25.to_vec(), "char::is_whitespace is not the 25-entry White_Space table");
    for n in NEAR_WS {
        assert!(!char::from_u32(*n).unwrap().is_whitespace());
    }
    for n in ODD_DIGITS {
        assert!(!char::from_u32(*n).unwrap().is_ascii_digit());
    }
    let digits: Vec<u32> = (0..=0x10FFFFu32).filter(|n| char::from_u32(*n).map(|c| c.is_ascii_digit()).unwrap_or(false)).collect();
    assert_eq!(digits, (48..=57).collect::<Vec<u32>>());
    for (i, (w, _, _)) in REFRESH_UNITS.iter().enumerate() {
        assert!(REFRESH_UNITS.iter().position(|(x, _, _)| x == w) == Some(i));
    }
}

pub fn gen(rng: &mut Rng, n: usize, thorough: bool, emit: &mut dyn FnMut(String)) {
    assert_char_tables();
    let size_mults: Vec<u128> = vec![1, 1 << 10, 1 << 20, 1 << 30, 1 << 40];
    let nums_size = thresholds(&size_mults, 1u128 << 64);
    let nums_time = thresholds(&[1], 1u128 << 63);
    let lit = |kind: &str, num: u128, z: u64, ws: &str, unit: Option<usize>, mask: u64, ws2: &str, mutation: &str| -> String {
        format!(
            "{}\tlit\t{}\t{}\t{}\t{}\t{}\t{}\t{}",
            kind,
            num,
            z,
            enc_str(ws),
            unit.map(|u| u.to_string()).unwrap_or_else(|| "-".to_owned()),
            mask,
            enc_str(ws2),
            mutation
        )
    };
    // ---- deterministic block -------------------------------------------------------------------
    for (kind, units, nums) in [("size", SIZE_UNITS, &nums_size), ("interval", TIME_UNITS, &nums_time)] {
        // every boundary number: bare (string and integer token, both signs), and x every unit x {"", " "}
        for num in nums.iter() {
            emit(lit(kind, *num, 0, "", None, 0, "", "-"));
            emit(format!("{}\tint\t{}", kind, num));
            if *num > 0 {
                emit(format!("{}\tint\t-{}", kind, num));
            }
            for (ui, _) in units.iter().enumerate() {
                for ws in ["", " "] {
                    emit(lit(kind, *num, 0, ws, Some(ui), 0, "", "-"));
                }
            }
        }
        // all 2^len case patterns of every unit (both tiers: ~700 cases)
        for (ui, u) in units.iter().enumerate() {
            for mask in 0..(1u64 << u.len()) {
                emit(lit(kind, 3, 0, if mask % 3 == 0 { " " } else { "" }, Some(ui), mask, "", "-"));
            }
        }
        // every White_Space character between number and unit, after the unit, before the number (rejected),
        // and as the whole remainder (rejected); every near-miss between number and unit (rejected)
        for w in WS25 {
            let w = char::from_u32(*w).unwrap().to_string();
            emit(lit(kind, 5, 0, &w, Some(1), 0, "", "-"));
            emit(lit(kind, 5, 0, "", Some(1), 0, &w, "-"));
            emit(lit(kind, 5, 0, &w, Some(1), 2, &w, "-"));
            emit(lit(kind, 5, 0, "", Some(1), 0, "", &format!("lead.{}", enc_str(&w))));
            emit(lit(kind, 5, 0, &w, None, 0, "", "-"));
        }
        for w in NEAR_WS {
            let w = char::from_u32(*w).unwrap().to_string();
            emit(lit(kind, 5, 0, "", Some(1), 0, "", &format!("gap.{}", enc_str(&w))));
            emit(lit(kind, 5, 0, " ", Some(1), 0, "", &format!("gap.{}", enc_str(&w))));
        }
        for d in ODD_DIGITS {
            let d = char::from_u32(*d).unwrap().to_string();
            emit(lit(kind, 5, 0, "", Some(1), 0, "", &format!("lead.{}", enc_str(&d))));
            emit(lit(kind, 5, 0, "", None, 0, "", &format!("lead.{}", enc_str(&d))));
            emit(lit(kind, 5, 0, "", Some(1), 0, "", &format!("gap.{}", enc_str(&d))));
        }
        for j in JUNK.iter() {
            for pre in ["3", "3 ", "3k", "3 second", "3kb", "3 seconds "] {
                emit(format!("{}\tstr\t{}", kind, enc_str(&format!("{}{}", pre, j))));
            }
        }
        // every unit word with ONE letter replaced by a non-ASCII character whose Unicode case mapping is
        // an ASCII letter (KELVIN SIGN -> k, LONG S -> S, dotless i -> I, dotted capital I -> i + U+0307), in the
        // word as written and upper-cased: not a unit (the comparison is ASCII case-insensitive); a
        // `to_lowercase()`/`to_uppercase()` table lookup accepts them (seeded changes C20_r2_1, C20_r5_2)
        for (u, _) in units.iter().map(|u| (*u, ())) {
            for word in [u.to_owned(), u.to_uppercase()] {
                let cs: Vec<char> = word.chars().collect();
                for (i, c) in cs.iter().enumerate() {
                    let subs: &[char] = match c.to_ascii_lowercase() {
                        'k' => &['\u{212a}'],
                        's' => &['\u{17f}'],
                        'i' => &['\u{131}', '\u{130}'],
                        _ => &[],
                    };
                    for sub in subs {
                        let mut w = cs.clone();
                        w[i] = *sub;
                        let w: String = w.into_iter().collect();
                        emit(format!("{}\tstr\t{}", kind, enc_str(&format!("2 {}", w))));
                        emit(format!("{}\tstr\t{}", kind, enc_str(&format!("2{}", w))));
                    }
                }
            }
        }
        for s in ["", " ", "kb", "seconds", "-", "+", ".", "-0", "+0", "0", "00", "0 b", "0 seconds", "0x10", "0b", "0xb", "1e3", "1_000"] {
            emit(format!("{}\tstr\t{}", kind, enc_str(s)));
        }
        for o in ["null", "float", "ifloat", "efloat", "bool", "seq", "map"] {
            emit(format!("{}\tother\t{}", kind, o));
        }
        // unquoted tokens and what they are to the format's parser
        let plain = |fmt: &str, text: &str, rform: &str, rpayload: &str| -> String {
            format!("{}\tplain\t{}\t{}\t{}\t{}", kind, fmt, enc_str(text), rform, rpayload)
        };
        for v in [0u64, 5, 16, 1000, 4096, u64::MAX / 2, u64::MAX / 2 + 1, u64::MAX] {
            emit(plain("yaml", &format!("+{}", v), "u64", &v.to_string()));
            emit(plain("yaml", &format!("0x{:x}", v), "u64", &v.to_string()));
            emit(plain("yaml", &format!("0x{:X}", v), "u64", &v.to_string()));
            emit(plain("yaml", &format!("0o{:o}", v), "u64", &v.to_string()));
            emit(plain("yaml", &format!("0b{:b}", v), "u64", &v.to_string()));
            emit(plain("yaml", &format!("+0x{:x}", v), "u64", &v.to_string()));
            emit(plain("yaml", &format!("!!int {}", v), "u64", &v.to_string()));
            emit(plain("yaml", &format!("!!str {}", v), "str", &enc_str(&v.to_string())));
            emit(plain("yaml", &format!("'{}'", v), "str", &enc_str(&v.to_string())));
            emit(plain("yaml", &format!("{}.0", v), "other", "-"));
            emit(plain("yaml", &format!("{}e0", v), "other", "-"));
            emit(plain("yaml", &format!("{}_000", v), "str", &enc_str(&format!("{}_000", v))));
            emit(plain("yaml", &format!("+{}kb", v), "str", &enc_str(&format!("+{}kb", v))));
            emit(plain("yaml", &format!("+{} seconds", v), "str", &enc_str(&format!("+{} seconds", v))));
            emit(plain("yaml", &format!("{} mb", v), "str", &enc_str(&format!("{} mb", v))));
            emit(plain("yaml", &format!("{} Days", v), "str", &enc_str(&format!("{} Days", v))));
            emit(plain("yaml", &format!("{}kb # comment", v), "str", &enc_str(&format!("{}kb", v))));
            emit(plain("json", &format!("{}.0", v), "other", "-"));
            emit(plain("json", &format!("{}e0", v), "other", "-"));
            emit(plain("json", &format!("{}E+0", v), "other", "-"));
            if v <= i64::MAX as u64 {
                emit(plain("yaml", &format!("-0x{:x}", v), "i64", &format!("-{}", v)));
                emit(plain("yaml", &format!("-0o{:o}", v), "i64", &format!("-{}", v)));
                emit(plain("toml", &format!("+{}", v), "i64", &v.to_string()));
                emit(plain("toml", &format!("0x{:x}", v), "i64", &v.to_string()));
                emit(plain("toml", &format!("0o{:o}", v), "i64", &v.to_string()));
                emit(plain("toml", &format!("0b{:b}", v), "i64", &v.to_string()));
                emit(plain("toml", &format!("{}.0", v), "other", "-"));
                emit(plain("toml", &format!("{}e0", v), "other", "-"));
                if v >= 1000 {
                    let s = v.to_string();
                    emit(plain("toml", &format!("{}_{}", &s[..s.len() - 3], &s[s.len() - 3..]), "i64", &s));
                }
            }
        }
        for (text, rform, rp) in [
            ("-0", "i64", "0".to_owned()),
            ("0x0kb", "str", enc_str("0x0kb")),
            ("0x10kb", "str", enc_str("0x10kb")),
            ("010", "u64", "10".to_owned()),
            ("0o", "str", enc_str("0o")),
            ("0b", "str", enc_str("0b")),
            ("0xb", "u64", "11".to_owned()),
            ("0Xb", "str", enc_str("0Xb")),
            ("0o8", "str", enc_str("0o8")),
            (".5", "other", "-".to_owned()),
            ("1e3", "other", "-".to_owned()),
            (".inf", "other", "-".to_owned()),
            (".nan", "other", "-".to_owned()),
            ("~", "other", "-".to_owned()),
            ("true", "other", "-".to_owned()),
            ("!!float 5", "other", "-".to_owned()),
            ("18446744073709551616", "other", "-".to_owned()),
            ("-9223372036854775808", "i64", "-9223372036854775808".to_owned()),
            ("-9223372036854775809", "other", "-".to_owned()),
            ("340282366920938463463374607431768211456", "other", "-".to_owned()),
            ("0x10000000000000000", "other", "-".to_owned()),
            ("++5", "str", enc_str("++5")),
            ("+-5", "str", enc_str("+-5")),
            ("5 kb", "str", enc_str("5 kb")),
            ("5 KiB ", "str", enc_str("5 KiB")),
            ("5\tkb", "str", enc_str("5\tkb")),
        ] {
            emit(plain("yaml", text, rform, &rp));
        }
        emit(plain("json", "-0", "other", "-"));
        emit(plain("toml", "-0", "i64", "0"));
    }
    // refresh_rate: every suffix, every multiplier's thresholds, sums around 2^64 seconds
    let span = |num: u128, z: u64, ws: &str, unit: usize, sep: &str| -> String {
        format!("{};{};{};{};{}", num, z, enc_str(ws), unit, enc_str(sep))
    };
    for (ui, (_, nanos, mult)) in REFRESH_UNITS.iter().enumerate() {
        let q = ((1u128 << 64) + *mult as u128 - 1) / *mult as u128;
        let mut nums = vec![0u128, 1, 7, 30, 999_999_999, 1_000_000_000, 1_000_000_001, (1 << 64) - 1, 1 << 64, (1 << 64) + 1];
        for d in [-2i128, -1, 0, 1] {
            nums.push((q as i128 + d) as u128);
        }
        if *nanos {
            // the band in which the addition of the nanosecond field to the carried nanoseconds overflows
            let b = ((1u128 << 64) - 1_000_000_000) / *mult as u128;
            nums.extend([b - 1, b, b + 1]);
        }
        for num in nums {
            for ws in ["", " "] {
                emit(format!("refresh\tspans\t{}", span(num, 0, ws, ui, "")));
            }
            // preceded by 999999999 ns already carried
            emit(format!("refresh\tspans\t{},{}", span(999_999_999, 0, "", 2, " "), span(num, 0, "", ui, "")));
        }
    }
    let s_idx = REFRESH_UNITS.iter().position(|u| u.0 == "s").unwrap();
    let ns_idx = REFRESH_UNITS.iter().position(|u| u.0 == "ns").unwrap();
    let ms_idx = REFRESH_UNITS.iter().position(|u| u.0 == "ms").unwrap();
    let us_idx = REFRESH_UNITS.iter().position(|u| u.0 == "us").unwrap();
    for base in [u64::MAX as u128 - 1, u64::MAX as u128] {
        for (n2, u2) in [
            (0u128, s_idx), (1, s_idx), (2, s_idx),
            (999_999_999, ns_idx), (1_000_000_000, ns_idx), (1_000_000_001, ns_idx), (1_999_999_999, ns_idx), (2_000_000_000, ns_idx),
            (999, ms_idx), (1000, ms_idx), (1001, ms_idx), (2000, ms_idx), (999_999, us_idx), (1_000_000, us_idx),
        ] {
            emit(format!("refresh\tspans\t{},{}", span(base, 0, "", s_idx, " "), span(n2, 0, "", u2, "")));
            emit(format!("refresh\tspans\t{},{}", span(n2, 0, "", u2, ""), span(base, 0, "", s_idx, "")));
        }
        emit(format!("refresh\tspans\t{},{},{}", span(base, 0, "", s_idx, " "), span(500, 0, "", ms_idx, " "), span(500, 0, "", ms_idx, "")));
        // the same followed by junk: the panic comes before the junk is seen
        emit(format!("refresh\tstr\t{}", enc_str(&format!("{}s 500ms 500ms x", base))));
    }
    for s in [
        "", " ", "0", "00", "0 ", " 0", "30", "30 ", "1.5s", "1.5 s", "1.s", "1. 5s", ".5s", "1.5", "1.5.5s", "1.05s", "1.50s", "1.000000001s",
        "1.0000000001s", "0.5ns", "1.5ns", "1.5us", "1.5ms", "1.5m", "1.5h", "1.25h", "1.1h", "1.5d", "1.5w", "1.5M", "1.5y", "1.999999999999999999s",
        "1.9999999999999999999s", "1.99999999999999999999s", "18446744073709551615.5s", "18446744073709551615.999999999s", "1 2 s", "1 2s 3", "12s3",
        "12 s 3 m", "1s2m3h", "1sm", "1s m", "s", "s1", "1 S", "30 Seconds", "1 Day", "1 M", "1 m", "1µs", "1 µs", "1µ", "1μs", "1us", "1 u s", "1s,2s",
        "1s+2s", "-1s", "+1s", "1_000s", "1e3s", "0x10s", "1s\u{0}", "1\u{a0}s", "1\u{2003}s\u{3000}2\u{2028}m", "1\u{200b}s", "１s", "1ｓ", "1s 1s 1s",
        "1ns 18446744073709551615ns", "18446744073709551615ns 1ns", "18446744073709551615 ns", "18446744073709551616ns", "584554051223y", "584554049253y",
        "584554049254y", "1 second", "1 seconds", "1 secs", "1 sec", "1 min", "1 mins", "1 hr", "1 hrs", "1 wk", "1 wks", "1 yr", "1 yrs", "1 nanos", "1 millis",
        "1 micros", "1 msecs", "1 hour 12min 5s", "2h 37min", "1.", "1.s", "1 . 5 s", "1.5 5s", "1.5s5", "1.5s 5",
    ] {
        emit(format!("refresh\tstr\t{}", enc_str(s)));
    }
    for v in ["0", "30", "-1", "18446744073709551616"] {
        emit(format!("refresh\tint\t{}", v));
    }
    for o in ["null", "float", "ifloat", "efloat", "bool", "seq", "map"] {
        emit(format!("refresh\tother\t{}", o));
    }
    for (text, rform, rp) in [("30 seconds", "str", enc_str("30 seconds")), ("30", "u64", "30".to_owned()), ("1.5", "other", "-".to_owned()), ("30s # x", "str", enc_str("30s"))] {
        emit(format!("refresh\tplain\tyaml\t{}\t{}\t{}", enc_str(text), rform, rp));
    }

    // ---- random stream ---------------------------------------------------------------------------
    for _ in 0..n {
        let r = rng.below(100);
        if r < 70 {
            let (kind, units, nums) = if rng.chance(1, 2) { ("size", SIZE_UNITS, &nums_size) } else { ("interval", TIME_UNITS, &nums_time) };
            let num = random_number(rng, nums);
            let z = if rng.chance(1, 10) { rng.range(1, 3) } else { 0 };
            let ui = rng.below(units.len() as u64) as usize;
            let mask = rng.below(1 << units[ui].len());
            match rng.below(20) {
                0..=8 => {
                    let ws = ws_string(rng, true);
                    let ws2 = if rng.chance(1, 4) { ws_string(rng, false) } else { String::new() };
                    emit(lit(kind, num, z, &ws, Some(ui), mask, &ws2, "-"));
                }
                9 => emit(lit(kind, num, z, "", None, 0, "", "-")),
                10 => emit(lit(kind, num, z, &ws_string(rng, false), None, 0, "", "-")),
                11 => emit(lit(kind, num, z, &ws_string(rng, true), Some(ui), mask, "", if rng.chance(1, 2) { "neg" } else { "plus" })),
                12 => emit(lit(kind, num, z, &ws_string(rng, true), if rng.chance(1, 4) { None } else { Some(ui) }, mask, "", &format!("frac.{}", rng.range(0, 999)))),
                13 => {
                    let lead = if rng.chance(1, 3) { char::from_u32(*rng.pick(ODD_DIGITS)).unwrap().to_string() } else { ws_string(rng, false) };
                    emit(lit(kind, num, z, &ws_string(rng, true), if rng.chance(1, 4) { None } else { Some(ui) }, mask, "", &format!("lead.{}", enc_str(&lead))))
                }
                14 => {
                    let pool = if rng.chance(1, 4) { ODD_DIGITS } else { NEAR_WS };
                    let g = char::from_u32(*rng.pick(pool)).unwrap().to_string();
                    emit(lit(kind, num, z, &ws_string(rng, true), Some(ui), mask, "", &format!("gap.{}", enc_str(&g))))
                }
                15 => emit(lit(kind, num, z, &ws_string(rng, true), Some(ui), mask, "", &format!("sfx.{}", enc_str(*rng.pick(HARD_SUFFIX))))),
                16 => emit(format!("{}\tstr\t{}", kind, enc_str(&format!("{}{}{}", num, ws_string(rng, true), rng.pick(JUNK))))),
                17 => emit(format!("{}\tstr\t{}", kind, enc_str(&format!("{}{}{}{}", num, ws_string(rng, true), apply_mask(units[ui], mask), rng.pick(JUNK))))),
                18 => {
                    // random junk over the syntax alphabet
                    let k = rng.range(0, 8);
                    let s: String = (0..k).map(|_| *rng.pick(ALPHABET)).collect();
                    let s = if rng.chance(1, 2) { format!("{}{}", rng.range(0, 99), s) } else { s };
                    emit(format!("{}\tstr\t{}", kind, enc_str(&s)));
                }
                _ => {
                    // integer tokens: random magnitude and sign
                    let neg = num > 0 && rng.chance(1, 3);
                    emit(format!("{}\tint\t{}{}", kind, if neg { "-" } else { "" }, num));
                }
            }
        } else {
            // refresh_rate
            match rng.below(10) {
                0..=6 => {
                    let k = if rng.chance(1, 2) { 1 } else { rng.range(2, 4) };
                    let mut spans = vec![];
                    for i in 0..k {
                        let ui = rng.below(REFRESH_UNITS.len() as u64) as usize;
                        let mult = REFRESH_UNITS[ui].2 as u128;
                        let num = match rng.below(6) {
                            0 => ((1u128 << 64) / mult).saturating_sub(rng.below(3) as u128) + rng.below(2) as u128,
                            1 => rng.below(1000) as u128,
                            2 => (rng.next() as u128) / mult,
                            3 => rng.next() as u128,
                            4 => rng.range(999_999_990, 1_000_000_010) as u128,
                            _ => random_number(rng, &[0, 1, 60]),
                        };
                        let z = if rng.chance(1, 10) { rng.range(1, 2) } else { 0 };
                        let sep = if i + 1 == k { if rng.chance(1, 5) { ws_string(rng, false) } else { String::new() } } else { ws_string(rng, true) };
                        spans.push(span(num, z, &ws_string(rng, true), ui, &sep));
                    }
                    emit(format!("refresh\tspans\t{}", spans.join(",")));
                }
                7 => {
                    let ui = rng.below(REFRESH_UNITS.len() as u64) as usize;
                    let w = REFRESH_UNITS[ui].0;
                    let w2 = if rng.chance(1, 2) { apply_mask(w, rng.below(1 << w.chars().count())) } else { format!("{}{}", w, rng.pick(JUNK)) };
                    emit(format!("refresh\tstr\t{}", enc_str(&format!("{}{}{}", rng.below(100), ws_string(rng, true), w2))));
                }
                8 => {
                    let ui = rng.below(REFRESH_UNITS.len() as u64) as usize;
                    let fr: String = (0..rng.range(0, 21)).map(|_| (b'0' + rng.below(10) as u8) as char).collect();
                    emit(format!(
                        "refresh\tstr\t{}",
                        enc_str(&format!("{}.{}{}{}", random_number(rng, &[0, 1, u64::MAX as u128]), fr, ws_string(rng, true), REFRESH_UNITS[ui].0))
                    ));
                }
                _ => {
                    let k = rng.range(0, 10);
                    let s: String = (0..k).map(|_| *rng.pick(ALPHABET)).collect();
                    emit(format!("refresh\tstr\t{}", enc_str(&s)));
                }
            }
        }
    }
    let _ = thorough;
}

// ---------------------------------------------------------------------------------------------------
// composing the text of an intent case (mirrored by Driver/C20.lean)
// ---------------------------------------------------------------------------------------------------
fn compose_lit(kind: &str, f: &[&str]) -> Option<String> {
    if f.len() != 7 {
        return None;
    }
    let units = if kind == "size" { SIZE_UNITS } else { TIME_UNITS };
    if f[0].is_empty() || !f[0].bytes().all(|b| b.is_ascii_digit()) {
        return None;
    }
    let z: usize = f[1].parse().ok()?;
    let ws = dec_str(f[2])?;
    let unit = if f[3] == "-" { None } else { Some(*units.get(f[3].parse::<usize>().ok()?)?) };
    let mask: u64 = f[4].parse().ok()?;
    let ws2 = dec_str(f[5])?;
    let number = format!("{}{}", "0".repeat(z), f[0]);
    let unit = unit.map(|u| apply_mask(u, mask)).unwrap_or_default();
    let m = f[6];
    Some(if m == "-" {
        format!("{}{}{}{}", number, ws, unit, ws2)
    } else if m == "neg" {
        format!("-{}{}{}{}", number, ws, unit, ws2)
    } else if m == "plus" {
        format!("+{}{}{}{}", number, ws, unit, ws2)
    } else if let Some(d) = m.strip_prefix("frac.") {
        if d.is_empty() || !d.bytes().all(|b| b.is_ascii_digit()) {
            return None;
        }
        format!("{}.{}{}{}{}", number, d, ws, unit, ws2)
    } else if let Some(l) = m.strip_prefix("lead.") {
        let l = dec_str(l)?;
        if l.is_empty() {
            return None;
        }
        format!("{}{}{}{}{}", l, number, ws, unit, ws2)
    } else if let Some(g) = m.strip_prefix("gap.") {
        let g = dec_str(g)?;
        if g.is_empty() {
            return None;
        }
        format!("{}{}{}{}{}", number, ws, g, unit, ws2)
    } else if let Some(x) = m.strip_prefix("sfx.") {
        let x = dec_str(x)?;
        if x.is_empty() {
            return None;
        }
        format!("{}{}{}{}{}", number, ws, unit, x, ws2)
    } else {
        return None;
    })
}

fn compose_spans(field: &str) -> Option<String> {
    let mut out = String::new();
    for sp in field.split(',') {
        let p: Vec<&str> = sp.split(';').collect();
        if p.len() != 5 || p[0].is_empty() || !p[0].bytes().all(|b| b.is_ascii_digit()) {
            return None;
        }
        let z: usize = p[1].parse().ok()?;
        let unit = REFRESH_UNITS.get(p[3].parse::<usize>().ok()?)?.0;
        write!(out, "{}{}{}{}{}", "0".repeat(z), p[0], dec_str(p[2])?, unit, dec_str(p[4])?).ok()?;
    }
    Some(out)
}

// ---------------------------------------------------------------------------------------------------
// documents
// ---------------------------------------------------------------------------------------------------
fn yaml_quote(s: &str) -> String {
    let mut o = String::from("\"");
    for c in s.chars() {
        match c {
            '"' => o.push_str("\\\""),
            '\\' => o.push_str("\\\\"),
            ' '..='~' => o.push(c),
            _ => {
                let n = c as u32;
                if n <= 0xff {
                    write!(o, "\\x{:02x}", n).unwrap()
                } else if n <= 0xffff {
                    write!(o, "\\u{:04x}", n).unwrap()
                } else {
                    write!(o, "\\U{:08x}", n).unwrap()
                }
            }
        }
    }
    o.push('"');
    o
}

fn toml_quote(s: &str) -> String {
    let mut o = String::from("\"");
    for c in s.chars() {
        match c {
            '"' => o.push_str("\\\""),
            '\\' => o.push_str("\\\\"),
            ' '..='~' => o.push(c),
            _ => {
                let n = c as u32;
                if n <= 0xffff {
                    write!(o, "\\u{:04x}", n).unwrap()
                } else {
                    write!(o, "\\U{:08x}", n).unwrap()
                }
            }
        }
    }
    o.push('"');
    o
}

fn json_quote(s: &str) -> String {
    serde_json::to_string(s).unwrap()
}

#[derive(Clone, Copy, PartialEq)]
enum Fmt {
    Yaml,
    Json,
    Toml,
}

fn key_of(kind: &str) -> &'static str {
    match kind {
        "size" => "limit",
        "interval" => "interval",
        _ => "refresh_rate",
    }
}

/// the one-field document for the config struct itself
fn direct_doc(fmt: Fmt, key: &str, scalar: &str) -> String {
    match fmt {
        Fmt::Yaml => format!("{}: {}\n", key, scalar),
        Fmt::Json => format!("{{\"{}\": {}}}", key, scalar),
        Fmt::Toml => format!("{} = {}\n", key, scalar),
    }
}

/// a whole log4rs configuration with one rolling_file appender whose trigger carries the scalar
fn cfg_doc(fmt: Fmt, kind: &str, scalar: &str, log: &str) -> String {
    let tkind = if kind == "size" { "size" } else { "time" };
    let key = key_of(kind);
    match fmt {
        Fmt::Yaml => format!(
            "appenders:\n  a:\n    kind: rolling_file\n    path: {}\n    encoder:\n      pattern: \"{{m}}\"\n    policy:\n      trigger:\n        kind: {}\n        {}: {}\n      roller:\n        kind: delete\nroot:\n  level: trace\n  appenders:\n    - a\n",
            yaml_quote(log), tkind, key, scalar
        ),
        Fmt::Json => format!(
            "{{\"appenders\": {{\"a\": {{\"kind\": \"rolling_file\", \"path\": {}, \"encoder\": {{\"pattern\": \"{{m}}\"}}, \"policy\": {{\"trigger\": {{\"kind\": \"{}\", \"{}\": {}}}, \"roller\": {{\"kind\": \"delete\"}}}}}}}}, \"root\": {{\"level\": \"trace\", \"appenders\": [\"a\"]}}}}",
            json_quote(log), tkind, key, scalar
        ),
        Fmt::Toml => format!(
            "[root]\nlevel = \"trace\"\nappenders = [\"a\"]\n[appenders.a]\nkind = \"rolling_file\"\npath = {}\n[appenders.a.encoder]\npattern = \"{{m}}\"\n[appenders.a.policy.roller]\nkind = \"delete\"\n[appenders.a.policy.trigger]\nkind = \"{}\"\n{} = {}\n",
            toml_quote(log), tkind, key, scalar
        ),
    }
}

fn render_interval_dbg(d: &str) -> String {
    for (name, tag) in [
        ("interval: Second(", "second"),
        ("interval: Minute(", "minute"),
        ("interval: Hour(", "hour"),
        ("interval: Day(", "day"),
        ("interval: Week(", "week"),
        ("interval: Month(", "month"),
        ("interval: Year(", "year"),
    ] {
        if let Some(i) = d.find(name) {
            let rest = &d[i + name.len()..];
            if let Some(end) = rest.find(')') {
                return format!("ok:{}:{}", tag, &rest[..end]);
            }
        }
    }
    format!("unparsed:{}", d.replace(['\t', '\n'], " "))
}

fn render_size_dbg(d: &str, marker: &str) -> String {
    match d.find(marker) {
        Some(i) => {
            let rest = &d[i + marker.len()..];
            let end = rest.find(|ch: char| !ch.is_ascii_digit()).unwrap_or(rest.len());
            format!("ok:{}", &rest[..end])
        }
        None => format!("unparsed:{}", d.replace(['\t', '\n'], " ")),
    }
}

fn run_direct(fmt: Fmt, kind: &'static str, doc: String) -> String {
    let r = guarded(move || match kind {
        "size" => {
            let r: Result<SizeTriggerConfig, String> = match fmt {
                Fmt::Yaml => serde_yaml::from_str(&doc).map_err(|e| e.to_string()),
                Fmt::Json => serde_json::from_str(&doc).map_err(|e| e.to_string()),
                Fmt::Toml => toml::from_str(&doc).map_err(|e| e.to_string()),
            };
            match r {
                Ok(c) => render_size_dbg(&format!("{:?}", c), "limit: "),
                Err(_) => "err".to_owned(),
            }
        }
        "interval" => {
            let r: Result<TimeTriggerConfig, String> = match fmt {
                Fmt::Yaml => serde_yaml::from_str(&doc).map_err(|e| e.to_string()),
                Fmt::Json => serde_json::from_str(&doc).map_err(|e| e.to_string()),
                Fmt::Toml => toml::from_str(&doc).map_err(|e| e.to_string()),
            };
            match r {
                Ok(c) => render_interval_dbg(&format!("{:?}", c)),
                Err(_) => "err".to_owned(),
            }
        }
        _ => {
            let r: Result<RawConfig, String> = match fmt {
                Fmt::Yaml => serde_yaml::from_str(&doc).map_err(|e| e.to_string()),
                Fmt::Json => serde_json::from_str(&doc).map_err(|e| e.to_string()),
                Fmt::Toml => toml::from_str(&doc).map_err(|e| e.to_string()),
            };
            match r {
                Ok(c) => match c.refresh_rate() {
                    Some(d) => format!("ok:{}:{}", d.as_secs(), d.subsec_nanos()),
                    None => "none".to_owned(),
                },
                Err(_) => "err".to_owned(),
            }
        }
    });
    r.unwrap_or_else(|_| "PANIC".to_owned())
}

static COUNTER: std::sync::atomic::AtomicU64 = std::sync::atomic::AtomicU64::new(0);

/// a fresh directory under $VERIF_SCRATCH, removed again on drop
struct Scratch(PathBuf);
impl Scratch {
    fn new() -> Scratch {
        let base = std::env::var("VERIF_SCRATCH").unwrap_or_else(|_| "/tmp/verif-scratch".to_owned());
        let n = COUNTER.fetch_add(1, std::sync::atomic::Ordering::SeqCst);
        let p = PathBuf::from(base).join(format!("c20-{}-{}", std::process::id(), n));
        let _ = std::fs::remove_dir_all(&p);
        std::fs::create_dir_all(&p).unwrap();
        Scratch(p)
    }
}
impl Drop for Scratch {
    fn drop(&mut self) {
        let _ = std::fs::remove_dir_all(&self.0);
    }
}

/// the real configuration path; `roll` asks for the rolling run when the parsed limit is small
fn run_cfg(fmt: Fmt, kind: &'static str, scalar: &str, roll: bool) -> String {
    let scratch = Scratch::new();
    let log = scratch.0.join("x.log");
    let logs = log.to_string_lossy().into_owned();
    let doc = cfg_doc(fmt, kind, scalar, &logs);
    let dir = scratch.0.clone();
    let r = guarded(move || {
        let config = match fmt {
            Fmt::Yaml => {
                // the public entry point: file on disk, format by extension, errors reported and the
                // appender dropped
                let file = dir.join("c.yml");
                std::fs::write(&file, &doc).unwrap();
                match log4rs::config::load_config_file(&file, Deserializers::default()) {
                    Ok(c) => c,
                    Err(_) => return "err".to_owned(),
                }
            }
            _ => {
                let raw: Result<RawConfig, String> = if fmt == Fmt::Json {
                    serde_json::from_str(&doc).map_err(|e| e.to_string())
                } else {
                    toml::from_str(&doc).map_err(|e| e.to_string())
                };
                let raw = match raw {
                    Ok(r) => r,
                    Err(_) => return "err".to_owned(),
                };
                let (apps, errs) = raw.appenders_lossy(&Deserializers::default());
                if format!("{:?}", errs).contains("Appender(") != apps.is_empty() {
                    return "CFG-INCONSISTENT".to_owned();
                }
                let (c, _) = log4rs::config::Config::builder().appenders(apps).build_lossy(raw.root());
                c
            }
        };
        let app = match config.appenders().iter().find(|a| a.name() == "a") {
            Some(a) => a,
            None => return "err".to_owned(),
        };
        let d = format!("{:?}", app);
        if kind == "interval" {
            return render_interval_dbg(&d);
        }
        let obs = render_size_dbg(&d, "SizeTrigger { limit: ");
        if !roll {
            return obs;
        }
        let limit: u64 = match obs.strip_prefix("ok:").and_then(|x| x.parse().ok()) {
            Some(l) if l <= ROLL_MAX => l,
            _ => return obs,
        };
        // rolling run at the parsed limit
        let write = |bytes: usize| {
            let msg = "x".repeat(bytes);
            let _ = app.appender().append(
                &log::Record::builder().level(log::Level::Info).target("t").args(format_args!("{}", msg)).build(),
            );
        };
        let len = |p: &std::path::Path| std::fs::metadata(p).map(|m| m.len()).unwrap_or(0);
        if limit > 0 {
            write(limit as usize);
        }
        // the delete roller removes the file; "rolled" = the bytes just written are gone
        let first = if len(&log) == limit { 0 } else { 1 };
        write(1);
        let second = if len(&log) == 0 { 1 } else { 0 };
        format!("{} roll={}{}", obs, first, second)
    });
    r.unwrap_or_else(|_| "PANIC".to_owned())
}

pub const ROLL_MAX: u64 = 2048;

/// does the YAML plain scalar `text` resolve to exactly the string `s`? (decided by the real YAML parser)
fn yaml_plain_is_string(text: &str, s: &str) -> bool {
    if text.is_empty() || text.chars().any(|c| matches!(c, '\n' | '\r' | '\u{85}' | '\u{2028}' | '\u{2029}')) {
        return false;
    }
    match serde_yaml::from_str::<serde_yaml::Value>(&format!("k:\n  kk: {}\n", text)) {
        Ok(serde_yaml::Value::Mapping(m)) => match m.get("k") {
            Some(serde_yaml::Value::Mapping(m2)) => m2.len() == 1 && m2.get("kk") == Some(&serde_yaml::Value::String(s.to_owned())),
            _ => false,
        },
        _ => false,
    }
}

fn merge(legs: Vec<(&'static str, String)>) -> String {
    let first = legs[0].1.clone();
    // the rolling run is appended by one leg only: compare on the part before it
    let head = |s: &str| s.split(" roll=").next().unwrap().to_owned();
    if legs.iter().all(|(_, o)| head(o) == head(&first)) {
        legs.iter().map(|(_, o)| o).find(|o| o.contains(" roll=")).cloned().unwrap_or(first)
    } else {
        let mut s = String::from("LEGS-DISAGREE");
        for (n, o) in legs {
            write!(s, " {}={}", n, o.replace('\t', " ")).unwrap();
        }
        s
    }
}

fn static_kind(kind: &str) -> Option<&'static str> {
    match kind {
        "size" => Some("size"),
        "interval" => Some("interval"),
        "refresh" => Some("refresh"),
        _ => None,
    }
}

fn run_string(kind: &'static str, s: &str) -> String {
    let key = key_of(kind);
    let (y, j, t) = (yaml_quote(s), json_quote(s), toml_quote(s));
    let mut legs = vec![
        ("json", run_direct(Fmt::Json, kind, direct_doc(Fmt::Json, key, &j))),
        ("yaml", run_direct(Fmt::Yaml, kind, direct_doc(Fmt::Yaml, key, &y))),
        ("toml", run_direct(Fmt::Toml, kind, direct_doc(Fmt::Toml, key, &t))),
    ];
    let plain = yaml_plain_is_string(s, s);
    if plain {
        legs.push(("yaml-plain", run_direct(Fmt::Yaml, kind, direct_doc(Fmt::Yaml, key, s))));
    }
    if kind != "refresh" {
        legs.push(("cfg-yaml", run_cfg(Fmt::Yaml, kind, &y, true)));
        legs.push(("cfg-json", run_cfg(Fmt::Json, kind, &j, false)));
        legs.push(("cfg-toml", run_cfg(Fmt::Toml, kind, &t, false)));
        if plain {
            legs.push(("cfg-yaml-plain", run_cfg(Fmt::Yaml, kind, s, false)));
        }
    }
    merge(legs)
}

pub fn exec(fields: &[&str]) -> String {
    if fields.len() < 3 {
        return "bad-case".to_owned();
    }
    let kind = match static_kind(fields[0]) {
        Some(k) => k,
        None => return "bad-case".to_owned(),
    };
    let key = key_of(kind);
    match (fields[1], fields.len()) {
        ("int", 3) => {
            let tok = fields[2];
            let body = tok.strip_prefix('-').unwrap_or(tok);
            if body.is_empty() || !body.bytes().all(|b| b.is_ascii_digit()) || (body.len() > 1 && body.starts_with('0')) || tok == "-0" {
                return "bad-case".to_owned();
            }
            let mut legs = vec![
                ("json", run_direct(Fmt::Json, kind, direct_doc(Fmt::Json, key, tok))),
                ("yaml", run_direct(Fmt::Yaml, kind, direct_doc(Fmt::Yaml, key, tok))),
            ];
            // TOML hands every integer to the visitor as i64 (visit_i64); it has no integers outside i64
            let toml_ok = tok.parse::<i64>().is_ok();
            if toml_ok {
                legs.push(("toml", run_direct(Fmt::Toml, kind, direct_doc(Fmt::Toml, key, tok))));
            }
            if kind != "refresh" {
                legs.push(("cfg-yaml", run_cfg(Fmt::Yaml, kind, tok, true)));
                legs.push(("cfg-json", run_cfg(Fmt::Json, kind, tok, false)));
                if toml_ok {
                    legs.push(("cfg-toml", run_cfg(Fmt::Toml, kind, tok, false)));
                }
            }
            merge(legs)
        }
        ("str", 3) => match dec_str(fields[2]) {
            Some(s) => run_string(kind, &s),
            None => "bad-case".to_owned(),
        },
        ("lit", 9) if kind != "refresh" => match compose_lit(kind, &fields[2..]) {
            Some(s) => run_string(kind, &s),
            None => "bad-case".to_owned(),
        },
        ("spans", 3) if kind == "refresh" => match compose_spans(fields[2]) {
            Some(s) => run_string(kind, &s),
            None => "bad-case".to_owned(),
        },
        ("other", 3) => {
            let (y, j, t): (&str, &str, Option<&str>) = match fields[2] {
                "null" => ("~", "null", None),
                "float" => ("1.5", "1.5", Some("1.5")),
                "ifloat" => ("10.0", "10.0", Some("10.0")),
                "efloat" => ("1e3", "1e3", Some("1e3")),
                "bool" => ("true", "true", Some("true")),
                "seq" => ("[1]", "[1]", Some("[1]")),
                "map" => ("{a: 1}", "{\"a\": 1}", Some("{a = 1}")),
                _ => return "bad-case".to_owned(),
            };
            let mut legs = vec![
                ("json", run_direct(Fmt::Json, kind, direct_doc(Fmt::Json, key, j))),
                ("yaml", run_direct(Fmt::Yaml, kind, direct_doc(Fmt::Yaml, key, y))),
            ];
            if let Some(t) = t {
                legs.push(("toml", run_direct(Fmt::Toml, kind, direct_doc(Fmt::Toml, key, t))));
            }
            if kind != "refresh" {
                legs.push(("cfg-yaml", run_cfg(Fmt::Yaml, kind, y, false)));
                legs.push(("cfg-json", run_cfg(Fmt::Json, kind, j, false)));
                if let Some(t) = t {
                    legs.push(("cfg-toml", run_cfg(Fmt::Toml, kind, t, false)));
                }
            }
            merge(legs)
        }
        ("plain", 6) => {
            let fmt = match fields[2] {
                "yaml" => Fmt::Yaml,
                "json" => Fmt::Json,
                "toml" => Fmt::Toml,
                _ => return "bad-case".to_owned(),
            };
            let text = match dec_str(fields[3]) {
                Some(t) => t,
                None => return "bad-case".to_owned(),
            };
            let mut legs = vec![("direct", run_direct(fmt, kind, direct_doc(fmt, key, &text)))];
            if kind != "refresh" {
                legs.push(("cfg", run_cfg(fmt, kind, &text, fmt == Fmt::Yaml)));
            }
            merge(legs)
        }
        _ => "bad-case".to_owned(),
    }
}

/// child-process entry point (`verif-harness child c20 …`), unused
pub fn child(_args: &[String]) -> i32 {
    2
}
