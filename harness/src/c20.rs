//! C20 — size and interval literals. Real code: the serde visitors behind `SizeTriggerConfig.limit`
//! and `TimeTriggerInterval`, driven through `serde_json` (explicit scalar kinds) and `serde_yaml`.
use crate::proto::*;
use crate::rng::Rng;
use log4rs::append::rolling_file::policy::compound::trigger::{
    size::SizeTriggerConfig,
    time::{TimeTriggerConfig, TimeTriggerInterval},
};

const SIZE_UNITS: &[&str] = &["b", "kb", "kib", "mb", "mib", "gb", "gib", "tb", "tib"];
const TIME_UNITS: &[&str] = &[
    "second", "seconds", "minute", "minutes", "hour", "hours", "day", "days", "week", "weeks", "month", "months",
    "year", "years",
];
const WS: &[&str] = &["", " ", "  ", "\t", "\u{a0}", "\u{2003}", "\u{3000}", "\n", " \t "];
const JUNK: &[&str] = &[
    "x", "k", "bb", "kbs", "kb1", "1", ".5kb", ",5", "e3", "_", "-", "+", "kb kb", "µb", "ｋｂ", "secs", "s", "m", "h",
    "d", "w", "minutes5", "\u{200b}kb", "K", "kB\u{301}", "İb", "\u{212a}b", "\u{212a}ib", "\u{17f}econd", "\u{17f}econds", "day\u{17f}",
    "Ｋｂ", "㎅", "kb\u{0}", "k b", "se conds",
];

fn random_case(rng: &mut Rng, w: &str) -> String {
    w.chars()
        .map(|c| if rng.chance(1, 2) { c.to_ascii_uppercase() } else { c })
        .collect()
}

fn numbers(mults: &[u128], limit: u128) -> Vec<u128> {
    // 0, small, every overflow threshold ± 1, up to 21 digits
    let mut v: Vec<u128> = vec![0, 1, 7, 10, 99, 1023, 1024, 1025, 4294967295, 4294967296];
    for m in mults {
        let q = limit / m;
        for d in [0i128, 1, -1, 2] {
            let x = q as i128 + d;
            if x >= 0 {
                v.push(x as u128);
            }
        }
    }
    for x in [
        (1u128 << 63) - 1,
        1u128 << 63,
        (1u128 << 63) + 1,
        (1u128 << 64) - 1,
        1u128 << 64,
        (1u128 << 64) + 1,
        99999999999999999999,
        100000000000000000000,
        340282366920938463463374607431768211455,
    ] {
        v.push(x);
    }
    v
}

pub fn gen(rng: &mut Rng, n: usize, thorough: bool, emit: &mut dyn FnMut(String)) {
    let size_mults: Vec<u128> = vec![1, 1 << 10, 1 << 20, 1 << 30, 1 << 40];
    let nums_size = numbers(&size_mults, 1u128 << 64);
    let nums_time = numbers(&[1], 1u128 << 63);
    // deterministic block: every unit × every boundary number × three white-space forms
    for (kind, units, nums) in [("size", SIZE_UNITS, &nums_size), ("interval", TIME_UNITS, &nums_time)] {
        for num in nums.iter() {
            emit(format!("{}\tstr\t{}", kind, enc_str(&num.to_string())));
            emit(format!("{}\tint\t{}", kind, num));
            if *num > 0 && *num <= (1u128 << 63) {
                emit(format!("{}\tint\t-{}", kind, num));
            }
            for u in units.iter() {
                for ws in ["", " "] {
                    emit(format!("{}\tstr\t{}", kind, enc_str(&format!("{}{}{}", num, ws, u))));
                }
            }
        }
        // all 2^len case patterns of every unit
        for u in units.iter() {
            let len = u.len();
            let max_patterns = if thorough { 1usize << len } else { (1usize << len).min(16) };
            for mask in 0..max_patterns {
                let w: String = u
                    .chars()
                    .enumerate()
                    .map(|(i, c)| if mask >> i & 1 == 1 { c.to_ascii_uppercase() } else { c })
                    .collect();
                emit(format!("{}\tstr\t{}", kind, enc_str(&format!("3{}", w))));
            }
        }
        for j in JUNK.iter() {
            for pre in ["3", "3 ", "3k", "3 second"] {
                emit(format!("{}\tstr\t{}", kind, enc_str(&format!("{}{}", pre, j))));
            }
        }
        emit(format!("{}\tother\t-", kind));
        emit(format!("{}\tother\tfloat", kind));
        emit(format!("{}\tother\tbool", kind));
    }
    // random stream
    for _ in 0..n {
        let (kind, units, nums) = if rng.chance(1, 2) {
            ("size", SIZE_UNITS, &nums_size)
        } else {
            ("interval", TIME_UNITS, &nums_time)
        };
        let num = if rng.chance(1, 2) {
            rng.pick(nums).to_string()
        } else {
            let digits = rng.range(1, 21);
            let mut s = String::new();
            for i in 0..digits {
                let d = if i == 0 && rng.chance(3, 4) { rng.range(1, 9) } else { rng.range(0, 9) };
                s.push((b'0' + d as u8) as char);
            }
            s
        };
        let lead0 = if rng.chance(1, 10) { "00" } else { "" };
        let s = match rng.below(10) {
            0..=4 => format!("{}{}{}{}{}", lead0, num, rng.pick(WS), { let u: &str = *rng.pick(units); random_case(rng, u) }, if rng.chance(1, 5) { *rng.pick(WS) } else { "" }),
            5 => format!("{}{}", lead0, num),
            6 => format!("{}{}{}", num, rng.pick(WS), rng.pick(JUNK)),
            7 => format!("{}{}{}", rng.pick(&["-", "+", " ", "\t", "x", "."]), num, rng.pick(units)),
            8 => format!("{}.{}{}", num, rng.range(0, 99), rng.pick(units)),
            _ => format!("{}{}{}{}", num, rng.pick(WS), { let u: &str = *rng.pick(units); random_case(rng, u) }, rng.pick(JUNK)),
        };
        emit(format!("{}\tstr\t{}", kind, enc_str(&s)));
    }
}

fn json_scalar(form: &str, payload: &str) -> Option<String> {
    match form {
        "int" => Some(payload.to_owned()),
        "str" => dec_str(payload).map(|s| serde_json::to_string(&s).unwrap()),
        "other" => Some(match payload {
            "float" => "1.5".to_owned(),
            "bool" => "true".to_owned(),
            _ => "null".to_owned(),
        }),
        _ => None,
    }
}

fn yaml_scalar(form: &str, payload: &str) -> Option<String> {
    match form {
        "int" => Some(payload.to_owned()),
        // double-quoted YAML accepts the JSON string syntax
        "str" => dec_str(payload).map(|s| serde_json::to_string(&s).unwrap()),
        "other" => Some(match payload {
            "float" => "1.5".to_owned(),
            "bool" => "true".to_owned(),
            _ => "~".to_owned(),
        }),
        _ => None,
    }
}

fn render_interval(c: &TimeTriggerConfig) -> String {
    // TimeTriggerConfig's fields are private; its Debug output names the interval variant
    let d = format!("{:?}", c);
    for (name, tag) in [
        ("Second(", "second"),
        ("Minute(", "minute"),
        ("Hour(", "hour"),
        ("Day(", "day"),
        ("Week(", "week"),
        ("Month(", "month"),
        ("Year(", "year"),
    ] {
        if let Some(i) = d.find(name) {
            let rest = &d[i + name.len()..];
            let end = rest.find(')').unwrap();
            return format!("ok:{}:{}", tag, &rest[..end]);
        }
    }
    format!("unparsed:{}", d)
}

fn render_size(c: &SizeTriggerConfig) -> String {
    let d = format!("{:?}", c);
    let i = d.find("limit: ").unwrap();
    let rest = &d[i + 7..];
    let end = rest.find(|ch: char| !ch.is_ascii_digit()).unwrap();
    format!("ok:{}", &rest[..end])
}

pub fn exec(fields: &[&str]) -> String {
    if fields.len() != 3 {
        return "bad-case".to_owned();
    }
    let (kind, form, payload) = (fields[0], fields[1], fields[2]);
    let (js, ys) = match (json_scalar(form, payload), yaml_scalar(form, payload)) {
        (Some(j), Some(y)) => (j, y),
        _ => return "bad-case".to_owned(),
    };
    let _ = TimeTriggerInterval::Second(1);
    let run = |doc: String, yaml: bool| -> String {
        let r = guarded(move || match kind {
            "size" => {
                let r: Result<SizeTriggerConfig, String> = if yaml {
                    serde_yaml::from_str(&doc).map_err(|e| e.to_string())
                } else {
                    serde_json::from_str(&doc).map_err(|e| e.to_string())
                };
                match r {
                    Ok(c) => render_size(&c),
                    Err(_) => "err".to_owned(),
                }
            }
            _ => {
                let r: Result<TimeTriggerConfig, String> = if yaml {
                    serde_yaml::from_str(&doc).map_err(|e| e.to_string())
                } else {
                    serde_json::from_str(&doc).map_err(|e| e.to_string())
                };
                match r {
                    Ok(c) => render_interval(&c),
                    Err(_) => "err".to_owned(),
                }
            }
        });
        match r {
            Ok(s) => s,
            Err(_) => "PANIC".to_owned(),
        }
    };
    let key = if kind == "size" { "limit" } else { "interval" };
    let j = run(format!("{{\"{}\": {}}}", key, js), false);
    let y = run(format!("{}: {}\n", key, ys), true);
    // TOML hands every integer to the visitor as i64 (visit_i64), so it exercises the signed path
    // for non-negative values too. TOML has no integers above i64::MAX and no null; those are skipped.
    let toml_doc = match form {
        "int" => payload.parse::<i64>().ok().map(|n| format!("{} = {}\n", key, n)),
        "str" => dec_str(payload).map(|s| format!("{} = {}\n", key, serde_json::to_string(&s).unwrap())),
        "other" => match payload {
            "float" => Some(format!("{} = 1.5\n", key)),
            "bool" => Some(format!("{} = true\n", key)),
            _ => None,
        },
        _ => None,
    };
    let t = toml_doc.map(|doc| {
        let r = guarded(move || match kind {
            "size" => match toml::from_str::<SizeTriggerConfig>(&doc) {
                Ok(c) => render_size(&c),
                Err(_) => "err".to_owned(),
            },
            _ => match toml::from_str::<TimeTriggerConfig>(&doc) {
                Ok(c) => render_interval(&c),
                Err(_) => "err".to_owned(),
            },
        });
        r.unwrap_or_else(|_| "PANIC".to_owned())
    });
    let toml_ok = t.as_ref().map(|t| *t == j).unwrap_or(true);
    if j == y && toml_ok {
        j
    } else {
        format!("FORMATS-DISAGREE json={} yaml={} toml={}", j, y, t.unwrap_or_else(|| "-".to_owned()))
    }
}

/// child-process entry point (`verif-harness child c20 …`), for checks that need process-global state
pub fn child(_args: &[String]) -> i32 {
    2
}
