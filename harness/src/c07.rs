//! C07 — fixed-window roller / delete roller on a scratch tree.
//! case: kind(fw|del) pattern base count env(name:value,…) file init(path:bytes,…) rolls(bytes|-,…)
//! observation: per roll `res|snapshot` joined by `/` (snapshot: `path:bytes,…` sorted, archives
//! whose name ends in .gz/.zst decompressed), or `build-err`.
use crate::proto::*;
use crate::rng::Rng;
use log4rs::append::rolling_file::policy::compound::roll::{
    delete::DeleteRoller, fixed_window::FixedWindowRoller, Roll,
};
use std::io::{Read, Write};
use std::path::{Path, PathBuf};
use std::sync::atomic::{AtomicU64, Ordering};

static COUNTER: AtomicU64 = AtomicU64::new(0);

pub fn scratch_dir(tag: &str) -> PathBuf {
    let base = std::env::var("VERIF_SCRATCH").unwrap_or_else(|_| "/tmp/verif-scratch".to_owned());
    let n = COUNTER.fetch_add(1, Ordering::SeqCst);
    let p = PathBuf::from(base).join(format!("{}-{}-{}", tag, std::process::id(), n));
    let _ = std::fs::remove_dir_all(&p);
    std::fs::create_dir_all(&p).unwrap();
    p
}

/// Run the real code with fd 1 on a device that CANNOT be written (`/dev/full`: every write fails
/// with ENOSPC; where that does not exist, a pipe whose read end is closed: EPIPE — SIGPIPE is
/// ignored by the Rust runtime). stdout is not the observation channel (main.rs keeps a private
/// duplicate for the protocol), and a daemon's stdout being a closed pipe or a full device is an
/// ordinary process condition: anything in the rolled code that `println!`s (the roller used to do
/// so on a failed final step) then panics instead of returning its error, and the executor sees it.
/// Pointing fd 1 at /dev/null here, as this helper did before, hid exactly that.
pub fn quiet_stdout<T>(f: impl FnOnce() -> T) -> T {
    use std::os::unix::io::{AsRawFd, IntoRawFd};
    let _ = std::io::stdout().flush();
    let unwritable: i32 = match std::fs::OpenOptions::new().write(true).open("/dev/full") {
        Ok(f) => f.into_raw_fd(),
        Err(_) => {
            let mut fds = [0i32; 2];
            unsafe {
                libc::pipe(fds.as_mut_ptr());
                libc::close(fds[0]);
            }
            fds[1]
        }
    };
    let devnull = std::fs::OpenOptions::new().write(true).open("/dev/null").unwrap();
    let saved = unsafe { libc::dup(1) };
    unsafe { libc::dup2(unwritable, 1) };
    let r = f();
    // what a failed `println!` left in the std buffer must not reach the next case: drain it into
    // /dev/null before fd 1 is handed back
    unsafe { libc::dup2(devnull.as_raw_fd(), 1) };
    let _ = std::io::stdout().flush();
    unsafe {
        libc::dup2(saved, 1);
        libc::close(saved);
        libc::close(unwritable);
    }
    r
}

/// Run `f` on a thread of its own and give up after `secs`: `None` = it never returned (the thread
/// is leaked, together with whatever it holds). Used for rolls under `background_rotation`: a rotation
/// thread that dies before it sets `ready` makes the next roll wait for ever.
pub fn run_with_timeout<T: Send + 'static>(secs: u64, f: impl FnOnce() -> T + Send + 'static) -> Option<T> {
    let (tx, rx) = std::sync::mpsc::channel();
    let h = std::thread::spawn(move || {
        let _ = tx.send(f());
    });
    match rx.recv_timeout(std::time::Duration::from_secs(secs)) {
        Ok(v) => {
            let _ = h.join();
            Some(v)
        }
        Err(_) => None,
    }
}

pub fn compress_for(path: &str, data: &[u8]) -> Vec<u8> {
    if path.ends_with(".gz") {
        let mut e = flate2::write::GzEncoder::new(Vec::new(), flate2::Compression::default());
        e.write_all(data).unwrap();
        e.finish().unwrap()
    } else if path.ends_with(".zst") {
        zstd::encode_all(data, 3).unwrap()
    } else {
        data.to_vec()
    }
}

pub fn decompress_for(path: &str, data: Vec<u8>) -> Vec<u8> {
    if path.ends_with(".gz") {
        let mut out = Vec::new();
        // strict: `GzDecoder` stops after the first member and never looks at what follows, so an
        // archive that was opened without truncation (old tail left behind a shorter new member)
        // decoded "fine". `MultiGzDecoder` reads to the end of the input: further members are
        // appended (and then differ from the model), anything else is an error — as with zstd.
        match flate2::read::MultiGzDecoder::new(&data[..]).read_to_end(&mut out) {
            Ok(_) => out,
            Err(_) => [b"!undecodable-gz:".to_vec(), data].concat(),
        }
    } else if path.ends_with(".zst") {
        match zstd::decode_all(&data[..]) {
            Ok(out) => out,
            Err(_) => [b"!undecodable-zst:".to_vec(), data].concat(),
        }
    } else {
        data
    }
}

fn walk(root: &Path, dir: &Path, out: &mut Vec<(String, Vec<u8>)>) {
    let rd = match std::fs::read_dir(dir) {
        Ok(r) => r,
        Err(_) => return,
    };
    for e in rd.flatten() {
        let p = e.path();
        let ft = match e.file_type() {
            Ok(t) => t,
            Err(_) => continue,
        };
        if ft.is_dir() {
            walk(root, &p, out);
        } else {
            let rel = p.strip_prefix(root).unwrap().to_string_lossy().replace('\\', "/");
            let data = std::fs::read(&p).unwrap_or_default();
            let data = decompress_for(&rel, data);
            out.push((rel, data));
        }
    }
}

/// recursive snapshot: relative path -> bytes, sorted by path
pub fn snapshot(root: &Path) -> String {
    let mut v = Vec::new();
    walk(root, root, &mut v);
    v.sort();
    let xs: Vec<String> = v.iter().map(|(p, b)| format!("{}:{}", enc_str(p), enc_bytes(b))).collect();
    enc_list(",", &xs)
}

/// number of threads of this process (the harness itself is single-threaded: anything above the
/// baseline is a background rotation thread of the fixed-window roller)
pub fn n_threads() -> usize {
    std::fs::read_dir("/proc/self/task").map(|d| d.count()).unwrap_or(1)
}

/// wait until every background rotation thread has finished; false on timeout
pub fn wait_quiescent(baseline: usize) -> bool {
    let t0 = std::time::Instant::now();
    while n_threads() > baseline {
        if t0.elapsed() > std::time::Duration::from_secs(120) {
            return false;
        }
        std::thread::sleep(std::time::Duration::from_micros(200));
    }
    true
}

/// the temp names of background rotation (`<file with its extension replaced by unix seconds>`,
/// bumped while taken) are replaced by `<stem>.@<rank>` (rank in the order of their contents)
pub fn snapshot_canon(root: &Path, file_rel: &str) -> String {
    let mut v = Vec::new();
    walk(root, root, &mut v);
    let stem = Path::new(file_rel).with_extension("");
    let stem = stem.to_string_lossy().to_string();
    let prefix = format!("{}.", stem);
    // rank by content, not by number: a number freed by a finished rotation is reused within the
    // same second, so the numbers of several stranded temp files do not reflect their age
    let mut temps: Vec<(Vec<u8>, usize)> = vec![];
    for (i, (p, _)) in v.iter().enumerate() {
        if let Some(rest) = p.strip_prefix(&prefix) {
            if rest.len() >= 9 && rest.bytes().all(|b| b.is_ascii_digit()) {
                if rest.parse::<u64>().is_ok() {
                    temps.push((v[i].1.clone(), i));
                }
            }
        }
    }
    temps.sort();
    for (rank, (_, i)) in temps.iter().enumerate() {
        v[*i].0 = format!("{}.@{}", stem, rank);
    }
    v.sort();
    let xs: Vec<String> = v.iter().map(|(p, b)| format!("{}:{}", enc_str(p), enc_bytes(b))).collect();
    enc_list(",", &xs)
}

pub fn write_file(root: &Path, rel: &str, data: &[u8]) -> std::io::Result<()> {
    if rel.is_empty() || rel.ends_with('/') || rel.starts_with('/') {
        return Err(std::io::Error::new(std::io::ErrorKind::InvalidInput, "not a relative file path"));
    }
    let p = root.join(rel);
    if let Some(parent) = p.parent() {
        std::fs::create_dir_all(parent)?;
    }
    std::fs::write(&p, data)
}

fn dec_pairs(s: &str) -> Option<Vec<(String, String)>> {
    dec_list(',', s)
        .iter()
        .map(|e| {
            let mut it = e.splitn(2, ':');
            match (it.next(), it.next()) {
                (Some(a), Some(b)) => Some((a.to_owned(), b.to_owned())),
                _ => None,
            }
        })
        .collect()
}

pub fn exec(fields: &[&str]) -> String {
    // background-rotation cases: two more fields, `@bg` and the schedule (`w` = wait for quiescence
    // and snapshot after this roll, `n` = roll on while the rotation thread is still running)
    let bg: Option<Vec<bool>> = if fields.len() == 10 && fields[8] == "@bg" {
        let sch = dec_list(',', fields[9]);
        if sch.iter().any(|x| x != "w" && x != "n") {
            return "bad-case".to_owned();
        }
        Some(sch.iter().map(|x| x == "w").collect())
    } else if fields.len() == 8 {
        None
    } else {
        return "bad-case".to_owned();
    };
    let kind = fields[0];
    let (pattern, base, count, file) = match (
        dec_str(fields[1]),
        fields[2].parse::<u32>(),
        fields[3].parse::<u32>(),
        dec_str(fields[5]),
    ) {
        (Some(p), Ok(b), Ok(c), Some(f)) => (p, b, c, f),
        _ => return "bad-case".to_owned(),
    };
    let env: Vec<(String, String)> = match dec_pairs(fields[4]) {
        Some(v) => {
            let mut out = vec![];
            for (a, b) in v {
                match (dec_str(&a), dec_str(&b)) {
                    (Some(a), Some(b)) => out.push((a, b)),
                    _ => return "bad-case".to_owned(),
                }
            }
            out
        }
        None => return "bad-case".to_owned(),
    };
    let init: Vec<(String, Vec<u8>)> = match dec_pairs(fields[6]) {
        Some(v) => {
            let mut out = vec![];
            for (a, b) in v {
                match (dec_str(&a), dec_bytes(&b)) {
                    (Some(a), Some(b)) => out.push((a, b)),
                    _ => return "bad-case".to_owned(),
                }
            }
            out
        }
        None => return "bad-case".to_owned(),
    };
    // a rolls element `X<dir>`: the environment removes that directory (with everything in it) between
    // two rolls while the roller object stays alive; `rm_before[i]` = directories removed before roll i
    let mut rolls: Vec<Option<Vec<u8>>> = vec![];
    let mut ops: Vec<Result<usize, String>> = vec![];
    for r in dec_list(',', fields[7]) {
        if let Some(d) = r.strip_prefix('X') {
            match dec_str(d) {
                Some(d) if !d.is_empty() && !d.starts_with('/') && !d.split('/').any(|c| c == "..") => ops.push(Err(d)),
                _ => return "bad-case".to_owned(),
            }
        } else if r == "-" {
            ops.push(Ok(rolls.len()));
            rolls.push(None);
        } else {
            match dec_bytes(&r) {
                Some(b) => {
                    ops.push(Ok(rolls.len()));
                    rolls.push(Some(b))
                }
                None => return "bad-case".to_owned(),
            }
        }
    }
    if bg.is_some() && ops.len() != rolls.len() {
        return "bad-case".to_owned();
    }
    if kind != "fw" && kind != "del" {
        return "bad-case".to_owned();
    }

    let root = scratch_dir("c07");
    for (p, b) in &init {
        if write_file(&root, p, &compress_for(p, b)).is_err() {
            let _ = std::fs::remove_dir_all(&root);
            return "bad-case".to_owned();
        }
    }
    for (k, v) in &env {
        std::env::set_var(k, v);
    }
    let real_pattern = format!("{}/{}", root.display(), pattern);
    let roller: Result<std::sync::Arc<dyn Roll>, ()> = if kind == "del" {
        Ok(std::sync::Arc::new(DeleteRoller::new()))
    } else {
        match guarded(std::panic::AssertUnwindSafe(|| {
            FixedWindowRoller::builder().base(base).build(&real_pattern, count)
        })) {
            Ok(Ok(r)) => Ok(std::sync::Arc::new(r)),
            _ => Err(()),
        }
    };
    let obs = match roller {
        Err(()) => "build-err".to_owned(),
        Ok(roller) => {
            let mut out = vec![];
            let path = root.join(&file);
            if let Some(sched) = &bg {
                if sched.len() != rolls.len() {
                    let _ = std::fs::remove_dir_all(&root);
                    return "bad-case".to_owned();
                }
                // slow the rotation thread down a little so that a roll that does not wait really
                // overlaps with the previous rotation
                log4rs::verif_hooks::set_rotate_point(Some(std::sync::Arc::new(|_i: u32| {
                    std::thread::sleep(std::time::Duration::from_micros(700));
                    Ok(())
                })));
                let baseline = n_threads();
                let o = quiet_stdout(|| {
                    let mut out = vec![];
                    let mut hung = false;
                    for (r, wait) in rolls.iter().zip(sched.iter()) {
                        if hung {
                            // the roller's condition variable is never signalled again
                            out.push("HANG|-".to_owned());
                            continue;
                        }
                        if let Some(b) = r {
                            if write_file(&root, &file, b).is_err() {
                                out.push("harness-cannot-write".to_owned());
                                continue;
                            }
                        }
                        // the call runs on a thread of its own: a rotation thread that died before it
                        // set `ready` makes `roll` wait for ever
                        let (ro, pa) = (roller.clone(), path.clone());
                        let res = run_with_timeout(30, move || guarded(std::panic::AssertUnwindSafe(|| ro.roll(&pa))));
                        let kind = match res {
                            Some(Ok(Ok(()))) => "ok",
                            Some(Ok(Err(_))) => "err",
                            Some(Err(_)) => "PANIC",
                            None => {
                                hung = true;
                                out.push("HANG|-".to_owned());
                                continue;
                            }
                        };
                        if *wait {
                            let q = wait_quiescent(baseline);
                            out.push(format!("{}|{}", if q { kind } else { "TIMEOUT" }, snapshot_canon(&root, &file)));
                        } else {
                            out.push(format!("{}|-", kind));
                        }
                    }
                    if !hung {
                        wait_quiescent(baseline);
                    }
                    out
                });
                log4rs::verif_hooks::set_rotate_point(None);
                out = o;
            } else {
            for op in &ops {
                let r = match op {
                    Ok(i) => &rolls[*i],
                    Err(dir) => {
                        let _ = std::fs::remove_dir_all(root.join(dir));
                        out.push(format!("rm|{}", snapshot(&root)));
                        continue;
                    }
                };
                if let Some(b) = r {
                    if write_file(&root, &file, b).is_err() {
                        out.push("harness-cannot-write".to_owned());
                        continue;
                    }
                }
                let res = quiet_stdout(|| guarded(std::panic::AssertUnwindSafe(|| roller.roll(&path))));
                let kind = match res {
                    Ok(Ok(())) => "ok",
                    Ok(Err(_)) => "err",
                    Err(_) => "PANIC",
                };
                out.push(format!("{}|{}", kind, snapshot(&root)));
            }
            }
            enc_list("/", &out)
        }
    };
    for (k, _) in &env {
        std::env::remove_var(k);
    }
    let _ = std::fs::remove_dir_all(&root);
    obs
}

// ------------------------------------------------------------------------------------------
// generator
// ------------------------------------------------------------------------------------------
struct Shape {
    pattern: &'static str,
    file: &'static str,
    env: &'static [(&'static str, &'static str)],
}

const SHAPES: &[Shape] = &[
    Shape { pattern: "foo.log.{}", file: "foo.log", env: &[] },
    Shape { pattern: "arch/foo.{}.log", file: "foo.log", env: &[] },
    Shape { pattern: "arch{}/foo.log", file: "logs/app.log", env: &[] },
    Shape { pattern: "a{}/foo.{}.log", file: "foo.log", env: &[] },
    Shape { pattern: "x{}y{}", file: "x", env: &[] },
    Shape { pattern: "$ENV{C07_DIR}/foo.{}.log", file: "foo.log", env: &[("C07_DIR", "envdir")] },
    Shape { pattern: "logs/$ENV{C07_TAG}.{}.log", file: "logs/app.log", env: &[("C07_TAG", "app-7")] },
    Shape { pattern: "$ENV{C07_DIR}/n{}/$ENV{C07_TAG}.{}", file: "cur.log", env: &[("C07_DIR", "e"), ("C07_TAG", "t")] },
    Shape { pattern: "$ENV{C07_UNSET}.{}", file: "foo.log", env: &[] },
    Shape { pattern: "foo.{}.log.gz", file: "foo.log", env: &[] },
    Shape { pattern: "arch/foo.{}.zst", file: "foo.log", env: &[] },
    Shape { pattern: "z{}/foo.log.{}.gz", file: "logs/app.log", env: &[] },
];

const SHAPES_THOROUGH: &[Shape] = &[
    Shape { pattern: "ärch/föö.{}.log", file: "föö.log", env: &[] },
    Shape { pattern: "{}", file: "foo.log", env: &[] },
    Shape { pattern: "{}{}", file: "foo.log", env: &[] },
    Shape { pattern: "d/{}/{}/f", file: "d/f", env: &[] },
    Shape { pattern: "foo.log.{}.zst", file: "foo.log", env: &[] },
    Shape { pattern: "$ENV{C07_DIR}/{}.gz", file: "$ENV{C07_DIR}/cur", env: &[("C07_DIR", "gzdir")] },
    Shape { pattern: "a}{}{", file: "a", env: &[] },
];

/// generator-internal encoding of a directory removal inside a rolls list (never a real content:
/// contents are `r<k>:…`, `file<k>`, … and never start with a NUL byte)
const RM_MARK: &[u8] = b"\0rmdir:";

fn rm_op(dir: &str) -> Option<Vec<u8>> {
    let mut v = RM_MARK.to_vec();
    v.extend_from_slice(dir.as_bytes());
    Some(v)
}

/// the directory (relative to the root) that holds the archive of index `i`, if it is not the root
fn dir_of(sh: &Shape, i: u64) -> Option<String> {
    let n = name_of(sh, i);
    n.rfind('/').map(|k| n[..k].to_owned()).filter(|d| !d.is_empty())
}

fn name_of(sh: &Shape, i: u64) -> String {
    let mut s = sh.pattern.replace("{}", &i.to_string());
    for (k, v) in sh.env {
        s = s.replace(&format!("$ENV{{{}}}", k), v);
    }
    s
}

fn content(rng: &mut Rng, k: usize, thorough: bool) -> Vec<u8> {
    let mut v = format!("r{}:", k).into_bytes();
    match rng.below(10) {
        0 => {}
        1 => v.clear(), // empty files (k-th empty content is not distinct — only once per case, see caller)
        2 => {
            for _ in 0..rng.range(1, 40) {
                v.push(rng.below(256) as u8);
            }
        }
        3 if thorough => {
            for _ in 0..rng.range(1000, 5000) {
                v.push(b'a' + rng.below(3) as u8);
            }
        }
        _ => {
            for _ in 0..rng.range(1, 12) {
                v.push(b'a' + rng.below(26) as u8);
            }
            v.push(b'\n');
        }
    }
    v
}

fn emit_case(
    emit: &mut dyn FnMut(String),
    kind: &str,
    sh: &Shape,
    base: u64,
    count: u64,
    init: &[(String, Vec<u8>)],
    rolls: &[Option<Vec<u8>>],
) {
    let env: Vec<String> = sh.env.iter().map(|(k, v)| format!("{}:{}", enc_str(k), enc_str(v))).collect();
    let init_s: Vec<String> = init.iter().map(|(p, b)| format!("{}:{}", enc_str(p), enc_bytes(b))).collect();
    let rolls_s: Vec<String> = rolls
        .iter()
        .map(|r| match r {
            // a content that starts with the marker is a directory removal (see `rm_op`)
            Some(b) if b.starts_with(RM_MARK) => format!("X{}", enc_str(std::str::from_utf8(&b[RM_MARK.len()..]).unwrap())),
            Some(b) => enc_bytes(b),
            None => "-".to_owned(),
        })
        .collect();
    // the active file may itself be written with an $ENV reference in SHAPES_THOROUGH: the roller
    // gets the expanded path (it never expands `file`), so expand here
    let mut file = sh.file.to_owned();
    for (k, v) in sh.env {
        file = file.replace(&format!("$ENV{{{}}}", k), v);
    }
    emit(format!(
        "{}\t{}\t{}\t{}\t{}\t{}\t{}\t{}",
        kind,
        enc_str(sh.pattern),
        base,
        count,
        enc_list(",", &env),
        enc_str(&file),
        enc_list(",", &init_s),
        enc_list(",", &rolls_s)
    ));
}

/// the same case for the background-rotation build: `@bg` and a wait/no-wait schedule per roll
fn emit_case_bg(
    emit: &mut dyn FnMut(String),
    rng: &mut Rng,
    kind: &str,
    sh: &Shape,
    base: u64,
    count: u64,
    init: &[(String, Vec<u8>)],
    rolls: &[Option<Vec<u8>>],
) {
    let n = rolls.len();
    let style = rng.below(3);
    let sched: Vec<String> = (0..n)
        .map(|i| {
            let wait = i + 1 == n || match style {
                0 => true,           // every roll waits: quiescence after each
                1 => false,          // back-to-back rolls, one snapshot at the end
                _ => rng.chance(1, 2),
            };
            (if wait { "w" } else { "n" }).to_owned()
        })
        .collect();
    let mut line = String::new();
    emit_case(&mut |l| line = l, kind, sh, base, count, init, rolls);
    emit(format!("{}\t@bg\t{}", line, enc_list(",", &sched)));
}

fn distinct_rolls(rng: &mut Rng, n: usize, thorough: bool, missing_tail: bool) -> Vec<Option<Vec<u8>>> {
    let mut seen_empty = false;
    let mut out: Vec<Option<Vec<u8>>> = vec![];
    for k in 0..n {
        let mut c = content(rng, k, thorough);
        if c.is_empty() {
            if seen_empty {
                c = format!("r{}:e", k).into_bytes();
            }
            seen_empty = true;
        }
        out.push(Some(c));
    }
    if missing_tail {
        out.push(None);
    }
    // a roll that finds no file, at ANY position (the active log was unlinked while the appender
    // held it open and the trigger fired): the window must stay as it is and the history goes on
    if rng.chance(1, 6) {
        for _ in 0..rng.range(1, 2) {
            let at = rng.range(0, out.len() as u64) as usize;
            out.insert(at, None);
        }
    }
    out
}

pub fn gen(rng: &mut Rng, n: usize, thorough: bool, emit: &mut dyn FnMut(String)) {
    let bases: &[u64] = &[0, 1, 3, 9, 10];
    // deterministic block: every (base, count) with count+2 rolls from an empty tree, plain pattern
    for &b in bases {
        for c in 0..=5u64 {
            let rolls: Vec<Option<Vec<u8>>> = (0..c + 2).map(|k| Some(format!("file{}\n", k).into_bytes())).collect();
            emit_case(emit, "fw", &SHAPES[0], b, c, &[], &rolls);
        }
    }
    emit_case(emit, "del", &SHAPES[0], 0, 0, &[("foo.log.0".to_owned(), b"keep".to_vec())], &[Some(b"x".to_vec()), Some(b"y".to_vec()), None]);
    // builder rejects a pattern without {}
    emit_case(emit, "fw", &Shape { pattern: "foo.log", file: "foo.log", env: &[] }, 0, 2, &[], &[Some(b"x".to_vec())]);
    emit_case(emit, "fw", &Shape { pattern: "foo.{ }.log", file: "foo.log", env: &[] }, 0, 2, &[], &[Some(b"x".to_vec())]);
    // the u32 edge of `base + count - 1` (F11): the first three overflow, the last two do not
    for (b, c) in [(4294967295u64, 2u64), (4294967295, 1), (4294967294, 2), (4294967294, 1), (4294967290, 5), (4294967295, 0)] {
        let rolls: Vec<Option<Vec<u8>>> = (0..3).map(|k| Some(format!("edge{}\n", k).into_bytes())).collect();
        emit_case(emit, "fw", &SHAPES[0], b, c, &[], &rolls);
    }

    // a roll of a missing file in the middle of a history, every compression, full and partly filled
    // windows (deterministic: the random histories add more)
    for sh in [&SHAPES[0], &SHAPES[2], &SHAPES[9], &SHAPES[10]] {
        for (b, c) in [(0u64, 1u64), (0, 2), (1, 3), (9, 4)] {
            for pre in [0u64, 1, c, c + 1] {
                let mut rolls: Vec<Option<Vec<u8>>> = (0..pre).map(|k| Some(format!("m{}\n", k).into_bytes())).collect();
                rolls.push(None);
                rolls.push(None);
                rolls.extend((0..2).map(|k| Some(format!("n{}\n", k).into_bytes())));
                rolls.push(None);
                emit_case(emit, "fw", sh, b, c, &[], &rolls);
            }
        }
    }
    // the reviewer's window [B, A]: pre-existing archives, nothing to roll
    emit_case(
        emit,
        "fw",
        &SHAPES[0],
        0,
        2,
        &[("foo.log.0".to_owned(), b"B".to_vec()), ("foo.log.1".to_owned(), b"A".to_vec())],
        &[None, Some(b"C".to_vec()), None],
    );
    // windows larger than 5 (the shift loop over many slots, two-digit indices next to one-digit ones):
    // from empty past eviction, and from a pre-filled window with a gap
    for &c in &[6u64, 9, 17] {
        for (b, sh) in [(0u64, &SHAPES[0]), (9, &SHAPES[2]), (3, &SHAPES[9])] {
            let rolls: Vec<Option<Vec<u8>>> = (0..c + 2).map(|k| Some(format!("w{}\n", k).into_bytes())).collect();
            emit_case(emit, "fw", sh, b, c, &[], &rolls);
            let init: Vec<(String, Vec<u8>)> = (0..c + 1)
                .filter(|j| *j != 2 && *j != c - 2)
                .map(|j| (name_of(sh, b + j), format!("old{}", j).into_bytes()))
                .collect();
            let rolls: Vec<Option<Vec<u8>>> = (0..3).map(|k| Some(format!("v{}\n", k).into_bytes())).collect();
            emit_case(emit, "fw", sh, b, c, &init, &rolls);
        }
    }

    // large incompressible files through the compressing rollers: a codec that is fed in chunks must not
    // lose the part of a chunk a short write did not take (independently seeded change C07_r5_2)
    let big_sizes: &[usize] = if thorough { &[65_536, 65_537, 100_000, 150_000, 300_000] } else { &[100_000] };
    for sh in [&SHAPES[9], &SHAPES[10]] {
        for &sz in big_sizes {
            let big: Vec<u8> = (0..sz).map(|_| rng.below(256) as u8).collect();
            let rolls = vec![Some(b"small-1\n".to_vec()), Some(big), Some(b"small-2\n".to_vec())];
            emit_case(emit, "fw", sh, 1, 2, &[], &rolls);
        }
    }

    // the environment removes an archive directory between two rolls (clean-up job, operator): the next
    // roll must recreate what it needs, no archive may be lost silently (seeded changes C06_r5_1, C08_r5_1,
    // C17_r5_1 moved the directory creation into the builder)
    for sh in [&SHAPES[1], &SHAPES[2], &SHAPES[3], &SHAPES[11], &SHAPES[5]] {
        for (b, c) in [(0u64, 3u64), (1, 2), (3, 1)] {
            for which in [b, b + c - 1, b + c] {
                if let Some(dir) = dir_of(sh, which) {
                    if sh.file.starts_with(&format!("{}/", dir)) {
                        continue;
                    }
                    let mut rolls: Vec<Option<Vec<u8>>> = (0..c + 1).map(|k| Some(format!("pre{}\n", k).into_bytes())).collect();
                    rolls.push(rm_op(&dir));
                    rolls.extend((0..c + 1).map(|k| Some(format!("post{}\n", k).into_bytes())));
                    emit_case(emit, "fw", sh, b, c, &[], &rolls);
                }
            }
        }
    }

    let mut shapes: Vec<&Shape> = SHAPES.iter().collect();
    if thorough {
        shapes.extend(SHAPES_THOROUGH.iter());
    }
    // background rotation (second harness build, field `@bg`): a deterministic block and a share
    // of the random histories
    for &b in &[0u64, 3] {
        for c in 0..=4u64 {
            for sh in [&SHAPES[0], &SHAPES[2], &SHAPES[9]] {
                let rolls: Vec<Option<Vec<u8>>> = (0..c + 3).map(|k| Some(format!("bg{}\n", k).into_bytes())).collect();
                emit_case_bg(emit, rng, "fw", sh, b, c, &[], &rolls);
            }
        }
    }
    let n_bg = if thorough { n / 32 } else { n / 6 };
    for it in 0..n + n_bg {
        let is_bg = it >= n;
        let sh: &Shape = *rng.pick(&shapes);
        let kind = if !is_bg && rng.chance(1, 12) { "del" } else { "fw" };
        let b = *rng.pick(bases);
        let big = !is_bg && rng.chance(1, 16);
        let c = if is_bg { rng.range(0, 4) } else if big { *rng.pick(&[6u64, 9, 17]) } else { rng.range(0, 5) };
        let max_rolls = if big { c + 3 } else if is_bg { 8 } else if thorough || rng.chance(1, 4) { 12 } else { 7 };
        let n_rolls = rng.range(0, max_rolls) as usize;
        let missing_tail = rng.chance(1, 10);
        let mut rolls = distinct_rolls(rng, n_rolls, thorough, missing_tail);
        if !is_bg && kind == "fw" && rolls.len() >= 2 && rng.chance(1, 6) {
            let j = rng.range(0, c.max(1));
            if let Some(dir) = dir_of(sh, b + j) {
                if !sh.file.contains("$ENV") && !sh.file.starts_with(&format!("{}/", dir)) {
                    let at = rng.range(1, rolls.len() as u64 - 1) as usize;
                    rolls.insert(at, rm_op(&dir));
                }
            }
        }
        // initial tree
        let mut init: Vec<(String, Vec<u8>)> = vec![];
        let add = |init: &mut Vec<(String, Vec<u8>)>, p: String, v: Vec<u8>| {
            if !init.iter().any(|(q, _)| *q == p) && !p.is_empty() && !p.ends_with('/') {
                init.push((p, v));
            }
        };
        let mode = rng.below(4);
        if mode >= 1 {
            // pre-existing archives inside the window: dense prefix, random subset (gaps), or all
            for j in 0..c {
                let keep = match mode {
                    1 => j < rng.range(0, c),
                    2 => rng.chance(1, 2),
                    _ => true,
                };
                if keep {
                    add(&mut init, name_of(sh, b + j), format!("old{}", j).into_bytes());
                }
            }
        }
        if rng.chance(1, 2) {
            // archives just outside the window, textual neighbours of window names
            for i in [b + c, b + c + 1, b.wrapping_sub(1), 10, 11, 100, 20] {
                if i < (1 << 32) && !(i >= b && i < b + c) && rng.chance(1, 2) {
                    add(&mut init, name_of(sh, i), format!("outside{}", i).into_bytes());
                }
            }
            if c > 0 && rng.chance(1, 2) {
                let nm = name_of(sh, b);
                if !nm.ends_with(".gz") && !nm.ends_with(".zst") {
                    add(&mut init, format!("{}0x", nm), b"neighbour-suffix".to_vec());
                    add(&mut init, format!("{}.bak", nm), b"neighbour-bak".to_vec());
                }
            }
        }
        if rng.chance(1, 2) {
            // siblings of the active file and unrelated files
            let f = sh.file;
            for (p, v) in [
                (format!("{}.bak", f), "sibling-bak"),
                (format!("{}x", f), "sibling-x"),
                (f[..f.len() - 1].to_owned(), "sibling-short"),
                ("other/readme.txt".to_owned(), "unrelated"),
                ("zz".to_owned(), ""),
            ] {
                if rng.chance(1, 2) && !p.contains("$ENV") {
                    add(&mut init, p, v.as_bytes().to_vec());
                }
            }
        }
        // never let an initial entry collide with the active file, a window name, or be a directory
        // prefix of another entry
        let file_expanded = {
            let mut f = sh.file.to_owned();
            for (k, v) in sh.env {
                f = f.replace(&format!("$ENV{{{}}}", k), v);
            }
            f
        };
        let window: Vec<String> = (0..c).map(|j| name_of(sh, b + j)).collect();
        let mut all: Vec<String> = init.iter().map(|(p, _)| p.clone()).collect();
        all.push(file_expanded.clone());
        all.extend(window.iter().cloned());
        all.push(name_of(sh, b + c));
        let clash = |p: &String, all: &Vec<String>| {
            all.iter().any(|q| q != p && (q.starts_with(&format!("{}/", p)) || p.starts_with(&format!("{}/", q))))
        };
        let init: Vec<(String, Vec<u8>)> = init
            .iter()
            .filter(|(p, _)| *p != file_expanded && !clash(p, &all))
            .cloned()
            .collect();
        if clash(&file_expanded, &all) || window.iter().any(|w| *w == file_expanded || clash(w, &all)) {
            continue;
        }
        if is_bg {
            // (a missing file with gz/zst makes the rotation thread's compress step fail: the error is
            // only printed, `roll` has already returned Ok)
            emit_case_bg(emit, rng, kind, sh, b, c, &init, &rolls);
        } else {
            emit_case(emit, kind, sh, b, c, &init, &rolls);
        }
    }
}
