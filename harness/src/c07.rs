//! C07 — not implemented yet.
use crate::rng::Rng;

pub fn gen(_rng: &mut Rng, _n: usize, _thorough: bool, _emit: &mut dyn FnMut(String)) {}

pub fn exec(_fields: &[&str]) -> String {
    "unimplemented".to_owned()
}

/// child-process entry point (`verif-harness child c07 …`), for checks that need process-global state
pub fn child(_args: &[String]) -> i32 {
    2
}
