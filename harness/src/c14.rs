//! C14 — configuration documents in YAML / JSON / TOML. A case carries a LOGICAL configuration, a
//! key-order seed and an optional injection; the harness renders the document into the three
//! formats itself, loads each with the real code (lossy: `load_config_file` and the same steps by
//! hand to see the error lists; strict: `serde_*::from_str::<RawConfig>` + `create_raw_config`),
//! installs the result in a `Logger`, sends probe records and reads back what the file-based
//! appenders wrote. For valid documents the same probes also go through the equivalent
//! programmatic configuration.
use crate::proto::*;
use crate::rng::Rng;
use log::{Level, LevelFilter, Log, Record};
use log4rs::append::console::{ConsoleAppender, Target};
use log4rs::append::file::FileAppender;
use log4rs::append::rolling_file::policy::compound::{
    roll::{delete::DeleteRoller, fixed_window::FixedWindowRoller},
    trigger::{onstartup::OnStartUpTrigger, size::SizeTrigger, time::{TimeTrigger, TimeTriggerInterval}},
    CompoundPolicy,
};
use log4rs::append::rolling_file::RollingFileAppender;
use log4rs::append::Append;
use log4rs::config::{Appender, Config, Deserializers, Logger as LoggerCfg, RawConfig, Root};
use log4rs::encode::{json::JsonEncoder, pattern::PatternEncoder, Encode};
use log4rs::filter::threshold::ThresholdFilter;
use std::str::FromStr;
use std::sync::atomic::{AtomicUsize, Ordering};
use std::sync::Arc;

const PROBE_PATTERN: &str = "{l} {t} {m}{n}";
const T0: i64 = 1_700_000_000;

// ------------------------------------------------------------------------------------------------
// serde data model
// ------------------------------------------------------------------------------------------------
#[derive(Clone, Debug, PartialEq)]
enum V {
    Null,
    Bool(bool),
    Int(i128),
    Float,
    Str(String),
    Seq(Vec<V>),
    Map(Vec<(String, V)>),
}

#[derive(Clone, Debug)]
enum Step {
    Key(String),
    Idx(usize),
}

fn set_entry(k: &str, payload: &Option<V>, kvs: &mut Vec<(String, V)>) {
    if let Some(pos) = kvs.iter().position(|kv| kv.0 == k) {
        match payload {
            Some(v) => kvs[pos].1 = v.clone(),
            None => {
                kvs.remove(pos);
            }
        }
    } else if let Some(v) = payload {
        kvs.push((k.to_owned(), v.clone()));
    }
}

/// mirror of `modifyAt` (Pipeline.lean)
fn modify_at(path: &[Step], payload: &Option<V>, v: &mut V) {
    match (path.first(), v) {
        (None, v) => {
            if let Some(p) = payload {
                *v = p.clone();
            }
        }
        (Some(Step::Key(k)), V::Map(kvs)) => {
            if path.len() == 1 {
                set_entry(k, payload, kvs);
            } else {
                for kv in kvs.iter_mut() {
                    if &kv.0 == k {
                        modify_at(&path[1..], payload, &mut kv.1);
                    }
                }
            }
        }
        (Some(Step::Idx(i)), V::Seq(xs)) => {
            if let Some(x) = xs.get_mut(*i) {
                modify_at(&path[1..], payload, x);
            }
        }
        _ => {}
    }
}

/// mirror of `permute` (factorial number system)
fn permute<T>(seed: u64, mut xs: Vec<T>) -> Vec<T> {
    let mut out = Vec::with_capacity(xs.len());
    let mut s = seed;
    while !xs.is_empty() {
        let n = xs.len() as u64;
        let i = (s % n) as usize;
        s /= n;
        out.push(xs.remove(i));
    }
    out
}

fn shuffle(seed: u64, v: V) -> V {
    match v {
        V::Seq(xs) => V::Seq(xs.into_iter().map(|x| shuffle(seed, x)).collect()),
        V::Map(kvs) => V::Map(permute(seed, kvs.into_iter().map(|(k, x)| (k, shuffle(seed, x))).collect())),
        v => v,
    }
}

fn jstr(s: &str) -> String {
    serde_json::to_string(s).unwrap()
}

fn to_json(v: &V) -> String {
    match v {
        V::Null => "null".into(),
        V::Bool(b) => b.to_string(),
        V::Int(n) => n.to_string(),
        V::Float => "1.5".into(),
        V::Str(s) => jstr(s),
        V::Seq(xs) => format!("[{}]", xs.iter().map(to_json).collect::<Vec<_>>().join(", ")),
        V::Map(kvs) => format!(
            "{{{}}}",
            kvs.iter().map(|(k, x)| format!("{}: {}", jstr(k), to_json(x))).collect::<Vec<_>>().join(", ")
        ),
    }
}

fn toml_inline(v: &V) -> String {
    match v {
        V::Null => "\"\"".into(), // unreachable: null entries are dropped, nulls never sit in arrays
        V::Bool(b) => b.to_string(),
        V::Int(n) => n.to_string(),
        V::Float => "1.5".into(),
        V::Str(s) => jstr(s),
        V::Seq(xs) => format!("[{}]", xs.iter().map(toml_inline).collect::<Vec<_>>().join(", ")),
        V::Map(kvs) => {
            let items: Vec<String> = kvs
                .iter()
                .filter(|(_, x)| *x != V::Null)
                .map(|(k, x)| format!("{} = {}", jstr(k), toml_inline(x)))
                .collect();
            if items.is_empty() {
                "{}".into()
            } else {
                format!("{{ {} }}", items.join(", "))
            }
        }
    }
}

/// TOML has no null: null-valued entries are left out. Top-level keys with inline values, so that
/// any key order is expressible.
fn to_toml(v: &V) -> String {
    match v {
        V::Map(kvs) => kvs
            .iter()
            .filter(|(_, x)| *x != V::Null)
            .map(|(k, x)| format!("{} = {}\n", jstr(k), toml_inline(x)))
            .collect(),
        other => format!("value = {}\n", toml_inline(other)),
    }
}

fn yaml_plain_ok(s: &str) -> bool {
    let mut cs = s.chars();
    let first_ok = matches!(cs.next(), Some(c) if c.is_ascii_alphabetic() || c == '_');
    let reserved = ["true", "false", "null", "yes", "no", "on", "off", "y", "n"];
    first_ok && s.chars().all(|c| c.is_ascii_alphanumeric() || c == '_') && !reserved.contains(&s.to_ascii_lowercase().as_str())
}

fn yaml_scalar(s: &str) -> String {
    if yaml_plain_ok(s) {
        s.to_owned()
    } else {
        jstr(s)
    }
}

fn yaml_flow(v: &V) -> String {
    match v {
        V::Null => "~".into(),
        V::Str(s) => yaml_scalar(s),
        V::Seq(xs) => format!("[{}]", xs.iter().map(yaml_flow).collect::<Vec<_>>().join(", ")),
        V::Map(kvs) => format!(
            "{{{}}}",
            kvs.iter().map(|(k, x)| format!("{}: {}", jstr(k), yaml_flow(x))).collect::<Vec<_>>().join(", ")
        ),
        other => to_json(other),
    }
}

/// block style for maps, flow style for sequences and empty maps
fn yaml_block(v: &V, indent: usize, out: &mut String) {
    if let V::Map(kvs) = v {
        for (k, x) in kvs {
            let pad = " ".repeat(indent);
            match x {
                V::Map(inner) if !inner.is_empty() => {
                    out.push_str(&format!("{}{}:\n", pad, yaml_scalar(k)));
                    yaml_block(x, indent + 2, out);
                }
                _ => out.push_str(&format!("{}{}: {}\n", pad, yaml_scalar(k), yaml_flow(x))),
            }
        }
    }
}

fn to_yaml(v: &V) -> String {
    match v {
        V::Map(kvs) if !kvs.is_empty() => {
            let mut s = String::new();
            yaml_block(v, 0, &mut s);
            s
        }
        other => format!("{}\n", yaml_flow(other)),
    }
}

// ------------------------------------------------------------------------------------------------
// logical configuration
// ------------------------------------------------------------------------------------------------
#[derive(Clone, Debug)]
enum Sc {
    Int(i128),
    Str(String),
}

#[derive(Clone, Debug)]
enum Trig {
    Size(Sc),
    Time(Sc, Option<bool>, Option<u64>),
    OnStartUp(Option<u64>),
}

#[derive(Clone, Debug)]
enum Roll {
    Delete,
    Window(Option<u64>, u64),
}

#[derive(Clone, Debug)]
struct Enc {
    kind_explicit: bool,
    json: bool,
    pattern: bool,
}

#[derive(Clone, Debug)]
struct App {
    name: String,
    kind: u8,
    filters: Option<Vec<String>>,
    path: String,
    flag: Option<bool>,
    enc: Option<Enc>,
    target: Option<bool>,
    policy_kind: bool,
    trig: Trig,
    roll: Roll,
}

#[derive(Clone, Debug)]
struct Lg {
    name: String,
    level: String,
    additive: Option<bool>,
    appenders: Option<Vec<String>>,
}

#[derive(Clone, Debug)]
struct Cfg {
    refresh: Option<String>,
    root: Option<(Option<String>, Option<Vec<String>>)>,
    loggers: Vec<Lg>,
    appenders: Vec<App>,
}

struct Case {
    cfg: Cfg,
    probes: Vec<(String, usize)>,
    seed: u64,
    cls: String,
    path: Vec<Step>,
    payload: Option<V>,
    payload_enc: String,
}

fn enc_names(xs: &[String]) -> String {
    enc_list(",", &xs.iter().map(|s| enc_str(s)).collect::<Vec<_>>())
}

fn enc_opt_names(o: &Option<Vec<String>>) -> String {
    match o {
        None => "-".into(),
        Some(xs) => enc_names(xs),
    }
}

fn enc_ob(o: Option<bool>) -> String {
    enc_opt(o, |b| enc_bool(b).to_owned())
}

fn enc_on(o: Option<u64>) -> String {
    enc_opt(o, |n| n.to_string())
}

fn enc_sc(s: &Sc) -> String {
    match s {
        Sc::Int(n) => format!("i{}", n),
        Sc::Str(s) => format!("s{}", enc_str(s)),
    }
}

fn enc_app(a: &App) -> String {
    let trig = match &a.trig {
        Trig::Size(s) => format!("s:{}", enc_sc(s)),
        Trig::Time(s, m, d) => format!("t:{}:{}:{}", enc_sc(s), enc_ob(*m), enc_on(*d)),
        Trig::OnStartUp(m) => format!("o:{}", enc_on(*m)),
    };
    let roll = match &a.roll {
        Roll::Delete => "d".to_owned(),
        Roll::Window(b, n) => format!("w:{}:{}", enc_on(*b), n),
    };
    let enc = match &a.enc {
        None => "-".to_owned(),
        Some(e) => format!("{}{}{}", enc_bool(e.kind_explicit), enc_bool(e.json), enc_bool(e.pattern)),
    };
    [
        enc_str(&a.name),
        a.kind.to_string(),
        match &a.filters {
            None => "-".into(),
            Some(f) => enc_names(f),
        },
        enc_str(&a.path),
        enc_ob(a.flag),
        enc,
        enc_ob(a.target),
        enc_bool(a.policy_kind).to_owned(),
        trig,
        roll,
    ]
    .join("/")
}

fn enc_case(c: &Case) -> String {
    let cfg = &c.cfg;
    let root = match &cfg.root {
        None => "-".to_owned(),
        Some((l, a)) => format!("{}/{}", enc_opt(l.as_ref(), |s| enc_str(s)), enc_opt_names(a)),
    };
    let loggers: Vec<String> = cfg
        .loggers
        .iter()
        .map(|l| format!("{}/{}/{}/{}", enc_str(&l.name), enc_str(&l.level), enc_ob(l.additive), enc_opt_names(&l.appenders)))
        .collect();
    let apps: Vec<String> = cfg.appenders.iter().map(enc_app).collect();
    let probes: Vec<String> = c.probes.iter().map(|(t, l)| format!("{}:{}", enc_str(t), l)).collect();
    let path: Vec<String> = c
        .path
        .iter()
        .map(|s| match s {
            Step::Key(k) => format!("k{}", enc_str(k)),
            Step::Idx(i) => format!("#{}", i),
        })
        .collect();
    [
        enc_opt(cfg.refresh.as_ref(), |s| enc_str(s)),
        root,
        enc_list(";", &loggers),
        enc_list("|", &apps),
        enc_list(",", &probes),
        c.seed.to_string(),
        c.cls.clone(),
        enc_list(",", &path),
        c.payload_enc.clone(),
    ]
    .join("\t")
}

fn dec_names(s: &str) -> Option<Vec<String>> {
    dec_list(',', s).iter().map(|x| dec_str(x)).collect()
}

fn dec_opt_names(s: &str) -> Option<Option<Vec<String>>> {
    if s == "-" {
        Some(None)
    } else {
        dec_names(s).map(Some)
    }
}

fn dec_ob(s: &str) -> Option<Option<bool>> {
    match s {
        "-" => Some(None),
        "0" => Some(Some(false)),
        "1" => Some(Some(true)),
        _ => None,
    }
}

fn dec_on(s: &str) -> Option<Option<u64>> {
    if s == "-" {
        Some(None)
    } else {
        s.parse().ok().map(Some)
    }
}

fn dec_sc(s: &str) -> Option<Sc> {
    if let Some(r) = s.strip_prefix('i') {
        r.parse().ok().map(Sc::Int)
    } else if let Some(r) = s.strip_prefix('s') {
        dec_str(r).map(Sc::Str)
    } else {
        None
    }
}

fn dec_app(s: &str) -> Option<App> {
    let f: Vec<&str> = s.split('/').collect();
    if f.len() != 10 {
        return None;
    }
    let t: Vec<&str> = f[8].split(':').collect();
    let trig = match t.as_slice() {
        ["s", sc] => Trig::Size(dec_sc(sc)?),
        ["t", sc, m, d] => Trig::Time(dec_sc(sc)?, dec_ob(m)?, dec_on(d)?),
        ["o", m] => Trig::OnStartUp(dec_on(m)?),
        _ => return None,
    };
    let r: Vec<&str> = f[9].split(':').collect();
    let roll = match r.as_slice() {
        ["d"] => Roll::Delete,
        ["w", b, n] => Roll::Window(dec_on(b)?, n.parse().ok()?),
        _ => return None,
    };
    let enc = if f[5] == "-" {
        None
    } else {
        let b: Vec<char> = f[5].chars().collect();
        if b.len() != 3 || b.iter().any(|c| *c != '0' && *c != '1') {
            return None;
        }
        Some(Enc { kind_explicit: b[0] == '1', json: b[1] == '1', pattern: b[2] == '1' })
    };
    let kind: u8 = f[1].parse().ok()?;
    if kind > 2 {
        return None;
    }
    Some(App {
        name: dec_str(f[0])?,
        kind,
        filters: if f[2] == "-" { None } else { Some(dec_names(f[2])?) },
        path: dec_str(f[3])?,
        flag: dec_ob(f[4])?,
        enc,
        target: dec_ob(f[6])?,
        policy_kind: match f[7] {
            "0" => false,
            "1" => true,
            _ => return None,
        },
        trig,
        roll,
    })
}

fn dec_payload(s: &str) -> Option<Option<V>> {
    Some(match s {
        "X" => None,
        "N" => Some(V::Null),
        "B0" => Some(V::Bool(false)),
        "B1" => Some(V::Bool(true)),
        "F" => Some(V::Float),
        "M" => Some(V::Map(vec![])),
        "Qi" => Some(V::Seq(vec![V::Int(1)])),
        "Qr" => Some(V::Seq(vec![V::Str("info".into()), V::Seq(vec![])])),
        "Qe" => Some(V::Seq(vec![])),
        "Qf" => Some(V::Seq(vec![V::Map(vec![
            ("kind".to_owned(), V::Str("threshold".into())),
            ("level".to_owned(), V::Str("info".into())),
        ])])),
        _ => {
            if let Some(r) = s.strip_prefix('I') {
                Some(V::Int(r.parse().ok()?))
            } else if let Some(r) = s.strip_prefix('S') {
                Some(V::Str(dec_str(r)?))
            } else {
                return None;
            }
        }
    })
}

fn dec_case(f: &[&str]) -> Option<Case> {
    if f.len() != 9 {
        return None;
    }
    let refresh = if f[0] == "-" { None } else { Some(dec_str(f[0])?) };
    let root = if f[1] == "-" {
        None
    } else {
        let p: Vec<&str> = f[1].split('/').collect();
        if p.len() != 2 {
            return None;
        }
        Some((if p[0] == "-" { None } else { Some(dec_str(p[0])?) }, dec_opt_names(p[1])?))
    };
    let mut loggers = vec![];
    for l in dec_list(';', f[2]) {
        let p: Vec<&str> = l.split('/').collect();
        if p.len() != 4 {
            return None;
        }
        loggers.push(Lg { name: dec_str(p[0])?, level: dec_str(p[1])?, additive: dec_ob(p[2])?, appenders: dec_opt_names(p[3])? });
    }
    let mut appenders = vec![];
    for a in dec_list('|', f[3]) {
        appenders.push(dec_app(&a)?);
    }
    let mut probes = vec![];
    for p in dec_list(',', f[4]) {
        let (t, l) = p.split_once(':')?;
        let l: usize = l.parse().ok()?;
        if !(1..=5).contains(&l) {
            return None;
        }
        probes.push((dec_str(t)?, l));
    }
    let mut path = vec![];
    for s in dec_list(',', f[7]) {
        if let Some(r) = s.strip_prefix('k') {
            path.push(Step::Key(dec_str(r)?));
        } else if let Some(r) = s.strip_prefix('#') {
            path.push(Step::Idx(r.parse().ok()?));
        } else {
            return None;
        }
    }
    Some(Case {
        cfg: Cfg { refresh, root, loggers, appenders },
        probes,
        seed: f[5].parse().ok()?,
        cls: f[6].to_owned(),
        path,
        payload: dec_payload(f[8])?,
        payload_enc: f[8].to_owned(),
    })
}

// ------------------------------------------------------------------------------------------------
// rendering (mirror of `render` in Pipeline.lean)
// ------------------------------------------------------------------------------------------------
fn s(x: &str) -> V {
    V::Str(x.to_owned())
}

fn names(xs: &[String]) -> V {
    V::Seq(xs.iter().map(|x| s(x)).collect())
}

fn opt_entry(kvs: &mut Vec<(String, V)>, k: &str, v: Option<V>) {
    if let Some(v) = v {
        kvs.push((k.to_owned(), v));
    }
}

fn sc_value(x: &Sc) -> V {
    match x {
        Sc::Int(n) => V::Int(*n),
        Sc::Str(t) => s(t),
    }
}

fn render_app(a: &App) -> V {
    let mut m: Vec<(String, V)> = vec![];
    let kind = ["console", "file", "rolling_file"][a.kind as usize];
    m.push(("kind".into(), s(kind)));
    opt_entry(
        &mut m,
        "filters",
        a.filters.as_ref().map(|fs| {
            V::Seq(fs.iter().map(|l| V::Map(vec![("kind".into(), s("threshold")), ("level".into(), s(l))])).collect())
        }),
    );
    if a.kind == 0 {
        opt_entry(&mut m, "target", a.target.map(|b| s(if b { "stderr" } else { "stdout" })));
        opt_entry(&mut m, "tty_only", a.flag.map(V::Bool));
    } else {
        m.push(("path".into(), s(&a.path)));
        opt_entry(&mut m, "append", a.flag.map(V::Bool));
    }
    opt_entry(
        &mut m,
        "encoder",
        a.enc.as_ref().map(|e| {
            let mut em = vec![];
            if e.kind_explicit {
                em.push(("kind".to_owned(), s(if e.json { "json" } else { "pattern" })));
            }
            if e.pattern {
                em.push(("pattern".to_owned(), s(PROBE_PATTERN)));
            }
            V::Map(em)
        }),
    );
    if a.kind == 2 {
        let mut pm = vec![];
        if a.policy_kind {
            pm.push(("kind".to_owned(), s("compound")));
        }
        let trig = match &a.trig {
            Trig::Size(l) => V::Map(vec![("kind".into(), s("size")), ("limit".into(), sc_value(l))]),
            Trig::Time(i, mo, d) => {
                let mut t = vec![("kind".to_owned(), s("time")), ("interval".to_owned(), sc_value(i))];
                opt_entry(&mut t, "modulate", mo.map(V::Bool));
                opt_entry(&mut t, "max_random_delay", d.map(|n| V::Int(n as i128)));
                V::Map(t)
            }
            Trig::OnStartUp(ms) => {
                let mut t = vec![("kind".to_owned(), s("onstartup"))];
                opt_entry(&mut t, "min_size", ms.map(|n| V::Int(n as i128)));
                V::Map(t)
            }
        };
        let roll = match &a.roll {
            Roll::Delete => V::Map(vec![("kind".into(), s("delete"))]),
            Roll::Window(b, n) => {
                let mut r = vec![("kind".to_owned(), s("fixed_window")), ("pattern".to_owned(), s(&format!("{}.{{}}", a.path)))];
                opt_entry(&mut r, "base", b.map(|n| V::Int(n as i128)));
                r.push(("count".into(), V::Int(*n as i128)));
                V::Map(r)
            }
        };
        pm.push(("trigger".into(), trig));
        pm.push(("roller".into(), roll));
        m.push(("policy".into(), V::Map(pm)));
    }
    V::Map(m)
}

fn render(cfg: &Cfg) -> V {
    let mut m: Vec<(String, V)> = vec![];
    opt_entry(&mut m, "refresh_rate", cfg.refresh.as_ref().map(|x| s(x)));
    opt_entry(
        &mut m,
        "root",
        cfg.root.as_ref().map(|(l, a)| {
            let mut r = vec![];
            opt_entry(&mut r, "level", l.as_ref().map(|x| s(x)));
            opt_entry(&mut r, "appenders", a.as_ref().map(|x| names(x)));
            V::Map(r)
        }),
    );
    if !cfg.appenders.is_empty() {
        m.push(("appenders".into(), V::Map(cfg.appenders.iter().map(|a| (a.name.clone(), render_app(a))).collect())));
    }
    if !cfg.loggers.is_empty() {
        m.push((
            "loggers".into(),
            V::Map(
                cfg.loggers
                    .iter()
                    .map(|l| {
                        let mut lm = vec![("level".to_owned(), s(&l.level))];
                        opt_entry(&mut lm, "additive", l.additive.map(V::Bool));
                        opt_entry(&mut lm, "appenders", l.appenders.as_ref().map(|x| names(x)));
                        (l.name.clone(), V::Map(lm))
                    })
                    .collect(),
            ),
        ));
    }
    V::Map(m)
}

/// the document's relative paths (`path` of an appender, `pattern` of its roller) made absolute
fn prefix_paths(doc: &V, base: &str) -> V {
    let mut doc = doc.clone();
    if let V::Map(top) = &mut doc {
        for (k, apps) in top.iter_mut() {
            if k != "appenders" {
                continue;
            }
            if let V::Map(apps) = apps {
                for (_, a) in apps.iter_mut() {
                    if let V::Map(am) = a {
                        for (ak, av) in am.iter_mut() {
                            if ak == "path" {
                                if let V::Str(p) = av {
                                    *p = format!("{}/{}", base, p);
                                }
                            }
                            if ak == "policy" {
                                if let V::Map(pm) = av {
                                    for (pk, pv) in pm.iter_mut() {
                                        if pk == "roller" {
                                            if let V::Map(rm) = pv {
                                                for (rk, rv) in rm.iter_mut() {
                                                    if rk == "pattern" {
                                                        if let V::Str(p) = rv {
                                                            *p = format!("{}/{}", base, p);
                                                        }
                                                    }
                                                }
                                            }
                                        }
                                    }
                                }
                            }
                        }
                    }
                }
            }
        }
    }
    doc
}

// ------------------------------------------------------------------------------------------------
// running the real code
// ------------------------------------------------------------------------------------------------
static COUNTER: AtomicUsize = AtomicUsize::new(0);

fn set_clock(t: i64) {
    log4rs::verif_hooks::set_now(Some(Arc::new(move || Some((t, 0)))));
}

fn level_of(n: usize) -> Level {
    match n {
        1 => Level::Error,
        2 => Level::Warn,
        3 => Level::Info,
        4 => Level::Debug,
        _ => Level::Trace,
    }
}

fn filter_num(l: LevelFilter) -> usize {
    l as usize
}

fn enc_refs(xs: &[String]) -> String {
    enc_names(xs)
}

struct Summary {
    head: String, // rr … berr
    file_apps: Vec<String>,
}

fn summarize(config: &Config, rr: Option<std::time::Duration>, aerr: &[String], berr: &[String], cfg: &Cfg) -> Summary {
    let mut apps: Vec<String> = config.appenders().iter().map(|a| a.name().to_owned()).collect();
    apps.sort();
    let mut loggers: Vec<(String, String)> = config
        .loggers()
        .iter()
        .map(|l| {
            (
                l.name().to_owned(),
                format!("{}:{}:{}:{}", enc_str(l.name()), filter_num(l.level()), enc_bool(l.additive()), enc_refs(l.appenders())),
            )
        })
        .collect();
    loggers.sort();
    let mut aerr = aerr.to_vec();
    aerr.sort();
    let mut berr = berr.to_vec();
    berr.sort();
    let head = format!(
        "rr={} root={}:{} loggers={} apps={} aerr={} berr={}",
        enc_opt(rr, |d| d.as_nanos().to_string()),
        filter_num(config.root().level()),
        enc_refs(config.root().appenders()),
        enc_list(";", &loggers.into_iter().map(|x| x.1).collect::<Vec<_>>()),
        enc_refs(&apps),
        enc_list(",", &aerr),
        enc_list(",", &berr)
    );
    let file_apps = apps
        .into_iter()
        .filter(|n| cfg.appenders.iter().any(|a| &a.name == n && a.kind != 0))
        .collect();
    Summary { head, file_apps }
}

/// names and kinds out of `AppenderErrors`' Debug output: `Appender("name", …)` / `Filter("name", …)`
fn parse_appender_errors(dbg: &str) -> Vec<String> {
    let mut out = vec![];
    for (tag, pat) in [("A", "Appender(\""), ("F", "Filter(\"")] {
        let mut rest = dbg;
        while let Some(i) = rest.find(pat) {
            let after = &rest[i + pat.len() - 1..];
            // a Rust string literal: decode with serde_json after mapping `\u{..}` and `\'`
            let mut end = None;
            let b: Vec<char> = after.chars().collect();
            let mut j = 1;
            while j < b.len() {
                if b[j] == '\\' {
                    j += 2;
                    continue;
                }
                if b[j] == '"' {
                    end = Some(j);
                    break;
                }
                j += 1;
            }
            let end = match end {
                Some(e) => e,
                None => break,
            };
            let lit: String = b[1..end].iter().collect();
            let name = unescape_debug(&lit);
            out.push(format!("{}:{}", tag, enc_str(&name)));
            let consumed: usize = b[..=end].iter().map(|c| c.len_utf8()).sum();
            rest = &after[consumed..];
        }
    }
    out
}

fn unescape_debug(s: &str) -> String {
    let mut out = String::new();
    let cs: Vec<char> = s.chars().collect();
    let mut i = 0;
    while i < cs.len() {
        if cs[i] == '\\' && i + 1 < cs.len() {
            match cs[i + 1] {
                'n' => out.push('\n'),
                't' => out.push('\t'),
                'r' => out.push('\r'),
                '0' => out.push('\0'),
                'u' => {
                    // \u{hex}
                    if let Some(close) = cs[i..].iter().position(|c| *c == '}') {
                        let hex: String = cs[i + 3..i + close].iter().collect();
                        if let Some(c) = u32::from_str_radix(&hex, 16).ok().and_then(char::from_u32) {
                            out.push(c);
                        }
                        i += close + 1;
                        continue;
                    }
                }
                c => out.push(c),
            }
            i += 2;
        } else {
            out.push(cs[i]);
            i += 1;
        }
    }
    out
}

fn parse_raw(fmt: &str, text: &str) -> Result<RawConfig, String> {
    match fmt {
        "yaml" => serde_yaml::from_str(text).map_err(|e| e.to_string()),
        "json" => serde_json::from_str(text).map_err(|e| e.to_string()),
        _ => toml::from_str(text).map_err(|e| e.to_string()),
    }
}

fn rel_path<'a>(cfg: &'a Cfg, name: &str) -> Option<&'a str> {
    cfg.appenders.iter().find(|a| a.name == name).map(|a| a.path.as_str())
}

/// sentinel record straight into every file-based appender, then the probes through a `Logger`
fn drive(config: Config, file_apps: &[String], cfg: &Cfg, probes: &[(String, usize)], base: &str) -> String {
    for a in config.appenders() {
        if file_apps.iter().any(|n| n == a.name()) {
            let _ = a.appender().append(&Record::builder().args(format_args!("S")).level(Level::Error).target("sentinel").build());
        }
    }
    let logger = log4rs::Logger::new(config);
    for (i, (t, l)) in probes.iter().enumerate() {
        logger.log(&Record::builder().args(format_args!("{}", i)).level(level_of(*l)).target(t).build());
    }
    Log::flush(&logger);
    drop(logger);
    let mut files = vec![];
    let mut w = vec![];
    for n in file_apps {
        let app = cfg.appenders.iter().find(|a| &a.name == n).unwrap();
        let path = format!("{}/{}", base, rel_path(cfg, n).unwrap_or(""));
        let content = std::fs::read_to_string(&path).unwrap_or_default();
        let mut lines: Vec<&str> = content.lines().collect();
        let old = if app.kind == 1 {
            if lines.first() == Some(&"old") {
                lines.remove(0);
                "k"
            } else {
                "g"
            }
        } else {
            "-"
        };
        let mut class = "-".to_owned();
        let mut idx: Vec<String> = vec![];
        for (li, line) in lines.iter().enumerate() {
            let (c, msg) = classify(line);
            if li == 0 {
                class = if msg == "S" { c.to_owned() } else { format!("?{}", c) };
            } else {
                idx.push(msg);
            }
        }
        files.push(format!("{}:{}:{}", enc_str(n), class, old));
        w.push(format!("{}:{}", enc_str(n), enc_list(".", &idx)));
    }
    format!("files={} w={}", enc_list(";", &files), enc_list(";", &w))
}

/// encoder format of a line and its message: J json, P the probe pattern, D the default pattern
fn classify(line: &str) -> (&'static str, String) {
    if line.starts_with('{') {
        if let Ok(serde_json::Value::Object(o)) = serde_json::from_str::<serde_json::Value>(line) {
            if let Some(serde_json::Value::String(m)) = o.get("message") {
                return ("J", m.clone());
            }
        }
        return ("?", "?".into());
    }
    let toks: Vec<&str> = line.split(' ').collect();
    if toks.len() == 3 {
        return ("P", toks[2].to_owned());
    }
    if toks.len() >= 5 && toks[toks.len() - 2] == "-" {
        return ("D", toks[toks.len() - 1].to_owned());
    }
    ("?", "?".into())
}

fn run_format(fmt: &str, doc: &V, case: &Case, dir: &str) -> String {
    let base = format!("{}/{}", dir, &fmt[..1]);
    std::fs::create_dir_all(&base).unwrap();
    let text = {
        let d = prefix_paths(doc, &base);
        match fmt {
            "yaml" => to_yaml(&d),
            "json" => to_json(&d),
            _ => to_toml(&d),
        }
    };
    let file = format!("{}/cfg.{}", dir, fmt);
    std::fs::write(&file, &text).unwrap();
    set_clock(T0);
    // strict
    let strict = {
        let text = text.clone();
        let fmt = fmt.to_owned();
        match guarded(move || match parse_raw(&fmt, &text) {
            Err(_) => "err:parse".to_owned(),
            Ok(raw) => match log4rs::config::create_raw_config(raw) {
                Ok(_) => "ok".to_owned(),
                Err(log4rs::config::InitError::Deserializing(_)) => "err:appenders".to_owned(),
                Err(log4rs::config::InitError::BuildConfig(_)) => "err:build".to_owned(),
                Err(_) => "err:other".to_owned(),
            },
        }) {
            Ok(s) => s,
            Err(_) => "PANIC".to_owned(),
        }
    };
    // previous content of the plain file appenders' files
    for a in &case.cfg.appenders {
        if a.kind == 1 && !a.path.is_empty() {
            let _ = std::fs::write(format!("{}/{}", base, a.path), "old\n");
        }
    }
    set_clock(T0);
    let cfg = case.cfg.clone();
    let probes = case.probes.clone();
    let cls = case.cls.clone();
    let (text2, fmt2, file2, base2, dir2) = (text.clone(), fmt.to_owned(), file.clone(), base.clone(), dir.to_owned());
    let lossy = guarded(move || {
        // the public entry point
        let via_file = match log4rs::config::load_config_file(&file2, Deserializers::default()) {
            Err(_) => None,
            Ok(c) => Some(summarize(&c, None, &[], &[], &cfg).head),
        };
        // the same steps by hand, to see the error lists
        let raw = match parse_raw(&fmt2, &text2) {
            Err(_) => return if via_file.is_none() { "lossy=err".to_owned() } else { "lossy=LOADFILE-DIFFERS".to_owned() },
            Ok(r) => r,
        };
        let rr = raw.refresh_rate();
        let (apps, errs) = raw.appenders_lossy(&Deserializers::default());
        let aerr = parse_appender_errors(&format!("{:?}", errs));
        let (config, berrs) = Config::builder().appenders(apps).loggers(raw.loggers()).build_lossy(raw.root());
        let berr: Vec<String> = berrs
            .errors()
            .iter()
            .map(|e| match e {
                log4rs::config::runtime::ConfigError::NonexistentAppender(n) => format!("N:{}", enc_str(n)),
                log4rs::config::runtime::ConfigError::InvalidLoggerName(n) => format!("L:{}", enc_str(n)),
                log4rs::config::runtime::ConfigError::DuplicateAppenderName(n) => format!("DA:{}", enc_str(n)),
                log4rs::config::runtime::ConfigError::DuplicateLoggerName(n) => format!("DL:{}", enc_str(n)),
                _ => "?".to_owned(),
            })
            .collect();
        let sum = summarize(&config, rr, &aerr, &berr, &cfg);
        let same_as_file = via_file.as_deref() == Some(summarize(&config, None, &[], &[], &cfg).head.as_str());
        if !same_as_file {
            return "lossy=LOADFILE-DIFFERS".to_owned();
        }
        set_clock(T0 - 3600);
        let behaviour = drive(config, &sum.file_apps, &cfg, &probes, &base2);
        let prog = if cls == "-" || cls == "null" {
            set_clock(T0);
            let pb = programmatic(&cfg, &probes, &dir2);
            if pb == behaviour {
                "same".to_owned()
            } else {
                format!("DIFFER[{}]", pb)
            }
        } else {
            "skip".to_owned()
        };
        format!("lossy=ok {} {} prog={}", sum.head, behaviour, prog)
    });
    let lossy = match lossy {
        Ok(s) => s,
        Err(_) => "lossy=PANIC".to_owned(),
    };
    format!("{} strict={}", lossy, strict)
}

/// the equivalent programmatic configuration of a (valid) logical configuration, driven by the
/// same sentinel and probes; files under `<dir>/p`
fn programmatic(cfg: &Cfg, probes: &[(String, usize)], dir: &str) -> String {
    let base = format!("{}/p", dir);
    let _ = std::fs::remove_dir_all(&base);
    std::fs::create_dir_all(&base).unwrap();
    let lvl = |t: &str| LevelFilter::from_str(t).unwrap_or(LevelFilter::Off);
    let mut appenders = vec![];
    for a in &cfg.appenders {
        let enc: Option<Box<dyn Encode>> = a.enc.as_ref().map(|e| -> Box<dyn Encode> {
            if e.json {
                Box::new(JsonEncoder::new())
            } else if e.pattern {
                Box::new(PatternEncoder::new(PROBE_PATTERN))
            } else {
                Box::new(PatternEncoder::default())
            }
        });
        let path = format!("{}/{}", base, a.path);
        if a.kind == 1 {
            let _ = std::fs::write(&path, "old\n");
        }
        let boxed: Box<dyn Append> = match a.kind {
            0 => {
                let mut b = ConsoleAppender::builder();
                if let Some(t) = a.target {
                    b = b.target(if t { Target::Stderr } else { Target::Stdout });
                }
                if let Some(t) = a.flag {
                    b = b.tty_only(t);
                }
                if let Some(e) = enc {
                    b = b.encoder(e);
                }
                Box::new(b.build())
            }
            1 => {
                let mut b = FileAppender::builder();
                if let Some(f) = a.flag {
                    b = b.append(f);
                }
                if let Some(e) = enc {
                    b = b.encoder(e);
                }
                Box::new(b.build(&path).unwrap())
            }
            _ => {
                let mut b = RollingFileAppender::builder();
                if let Some(f) = a.flag {
                    b = b.append(f);
                }
                if let Some(e) = enc {
                    b = b.encoder(e);
                }
                // integer-form numbers go into the programmatic components as they are; string
                // forms (all far above any record size) are represented by a large limit
                let trigger: Box<dyn log4rs::append::rolling_file::policy::compound::trigger::Trigger> = match &a.trig {
                    Trig::Size(Sc::Int(n)) => Box::new(SizeTrigger::new(*n as u64)),
                    Trig::Size(Sc::Str(_)) => Box::new(SizeTrigger::new(1 << 40)),
                    Trig::OnStartUp(m) => Box::new(OnStartUpTrigger::new(m.unwrap_or(1))),
                    Trig::Time(i, m, d) => {
                        let interval = match i {
                            Sc::Int(n) => TimeTriggerInterval::Second(*n as i64),
                            Sc::Str(_) => TimeTriggerInterval::Day(1),
                        };
                        Box::new(TimeTrigger::new(TimeTrigger::verif_config(interval, m.unwrap_or(false), d.unwrap_or(0))))
                    }
                };
                let roller: Box<dyn log4rs::append::rolling_file::policy::compound::roll::Roll> = match &a.roll {
                    Roll::Delete => Box::new(DeleteRoller::new()),
                    Roll::Window(b, n) => {
                        let mut rb = FixedWindowRoller::builder();
                        if let Some(b) = b {
                            rb = rb.base(*b as u32);
                        }
                        Box::new(rb.build(&format!("{}.{{}}", path), *n as u32).unwrap())
                    }
                };
                let policy = CompoundPolicy::new(trigger, roller);
                Box::new(b.build(&path, Box::new(policy)).unwrap())
            }
        };
        let mut ab = Appender::builder();
        for f in a.filters.clone().unwrap_or_default() {
            ab = ab.filter(Box::new(ThresholdFilter::new(lvl(&f))));
        }
        appenders.push(ab.build(a.name.clone(), boxed));
    }
    let (rl, ra) = match &cfg.root {
        None => (LevelFilter::Debug, vec![]),
        Some((l, a)) => (l.as_ref().map(|t| lvl(t)).unwrap_or(LevelFilter::Debug), a.clone().unwrap_or_default()),
    };
    let loggers: Vec<LoggerCfg> = cfg
        .loggers
        .iter()
        .map(|l| {
            LoggerCfg::builder()
                .appenders(l.appenders.clone().unwrap_or_default())
                .additive(l.additive.unwrap_or(true))
                .build(l.name.clone(), lvl(&l.level))
        })
        .collect();
    let (config, _) = Config::builder().appenders(appenders).loggers(loggers).build_lossy(Root::builder().appenders(ra).build(rl));
    let mut file_apps: Vec<String> = cfg.appenders.iter().filter(|a| a.kind != 0).map(|a| a.name.clone()).collect();
    file_apps.sort();
    set_clock(T0 - 3600);
    drive(config, &file_apps, cfg, probes, &base)
}

pub fn exec(fields: &[&str]) -> String {
    std::env::set_var("RUST_LIB_BACKTRACE", "0");
    let case = match dec_case(fields) {
        Some(c) => c,
        None => return "bad-case".to_owned(),
    };
    let scratch = std::env::var("VERIF_SCRATCH").unwrap_or_else(|_| "/tmp/verif_scratch".to_owned());
    let dir = format!("{}/c14_{}_{}", scratch, std::process::id(), COUNTER.fetch_add(1, Ordering::SeqCst));
    let _ = std::fs::remove_dir_all(&dir);
    std::fs::create_dir_all(&dir).unwrap();
    let mut doc = render(&case.cfg);
    if case.cls != "-" {
        modify_at(&case.path, &case.payload, &mut doc);
    }
    let doc = shuffle(case.seed, doc);
    let y = run_format("yaml", &doc, &case, &dir);
    let j = run_format("json", &doc, &case, &dir);
    let t = run_format("toml", &doc, &case, &dir);
    log4rs::verif_hooks::set_now(None);
    let _ = std::fs::remove_dir_all(&dir);
    if y == j && j == t {
        format!("formats=agree {}", y)
    } else {
        format!("formats=DISAGREE yaml=[{}] json=[{}] toml=[{}]", y, j, t)
    }
}

// ------------------------------------------------------------------------------------------------
// generation
// ------------------------------------------------------------------------------------------------
const LEVELS: &[&str] = &["off", "error", "warn", "info", "debug", "trace"];
const APP_NAMES: &[&str] = &["a", "b", "c", "d", "e_1", "\u{e4}pp", "x::y", "A"];
const COMPONENTS: &[&str] = &["x", "y", "z", "x1"];
const REFRESH: &[&str] = &["30 seconds", "5 min", "1h", "2 days", "500ms", "1 week", "90s", "1 month", "2years", " 7 d ", "15 us"];
const SIZES: &[&str] = &["10 mb", "1 GB", "500 kb", "2mib", "1048576", "3 Tb", "700000 b"];
const INTERVALS: &[&str] = &["1 day", "2 hours", "1 week", "1 month", "1 year", "30 minutes", "5 seconds", "3600", "2 Days", "10 years"];

fn level_text(rng: &mut Rng) -> String {
    let w: &str = *rng.pick(LEVELS);
    match rng.below(4) {
        0 => w.to_owned(),
        1 => w.to_ascii_uppercase(),
        2 => {
            let mut c = w.chars();
            let f = c.next().unwrap().to_ascii_uppercase();
            format!("{}{}", f, c.as_str())
        }
        _ => w.chars().map(|c| if rng.chance(1, 2) { c.to_ascii_uppercase() } else { c }).collect(),
    }
}

fn opt<T>(rng: &mut Rng, f: impl FnOnce(&mut Rng) -> T) -> Option<T> {
    if rng.chance(1, 2) {
        Some(f(rng))
    } else {
        None
    }
}

fn logger_name(rng: &mut Rng, allow_bad: bool) -> String {
    if allow_bad && rng.chance(1, 12) {
        return (*rng.pick(&["x:y", "", "x::", ":x", "x:::y"])).to_owned();
    }
    let depth = rng.range(1, 3);
    (0..depth).map(|_| (*rng.pick(COMPONENTS)).to_owned()).collect::<Vec<_>>().join("::")
}

fn refs(rng: &mut Rng, apps: &[App], ghost: bool) -> Vec<String> {
    let mut out = vec![];
    for a in apps {
        if rng.chance(1, 2) {
            out.push(a.name.clone());
        }
    }
    if !apps.is_empty() && rng.chance(1, 8) {
        out.push(rng.pick(apps).name.clone()); // attached twice
    }
    if ghost && rng.chance(1, 8) {
        out.push("ghost".to_owned());
    }
    rng.shuffle(&mut out);
    out
}

fn gen_enc(rng: &mut Rng) -> Enc {
    if rng.chance(1, 3) {
        Enc { kind_explicit: true, json: true, pattern: false }
    } else {
        Enc { kind_explicit: rng.chance(1, 2), json: false, pattern: rng.chance(2, 3) }
    }
}

/// integer-form boundary values: 0, 1 and one large value (TOML hands every integer to the visitor
/// as i64, YAML / JSON hand the non-negative ones as u64 — the visitors must agree on them)
fn boundary(rng: &mut Rng, large: u64) -> u64 {
    match rng.below(3) {
        0 => 0,
        1 => 1,
        _ => large,
    }
}

fn gen_trig(rng: &mut Rng, which: u64) -> Trig {
    match which {
        0 => Trig::Size(match rng.below(6) {
            0 | 1 => Sc::Int(boundary(rng, i64::MAX as u64) as i128),
            2 => Sc::Int(rng.range(100_000, 1 << 40) as i128),
            _ => Sc::Str((*rng.pick(SIZES)).to_owned()),
        }),
        1 => Trig::Time(
            match rng.below(6) {
                0 | 1 => Sc::Int(boundary(rng, i64::MAX as u64) as i128),
                2 => Sc::Int(rng.range(1, 100_000) as i128),
                _ => Sc::Str((*rng.pick(INTERVALS)).to_owned()),
            },
            opt(rng, |r| r.chance(1, 2)),
            opt(rng, |r| if r.chance(1, 2) { boundary(r, i64::MAX as u64) } else { r.range(0, 100) }),
        ),
        _ => Trig::OnStartUp(opt(rng, |r| if r.chance(1, 2) { boundary(r, i64::MAX as u64) } else { r.range(1, 1000) })),
    }
}

fn gen_roll(rng: &mut Rng, window: bool) -> Roll {
    if window {
        let base = opt(rng, |r| if r.chance(1, 2) { boundary(r, u32::MAX as u64) } else { r.range(0, 3) });
        let mut count = if rng.chance(1, 2) { boundary(rng, u32::MAX as u64) } else { rng.range(0, 5) };
        // valid configurations keep the window representable (base + count - 1 <= u32::MAX); the
        // unrepresentable one is an injection (class ctor)
        if count > 0 && base.unwrap_or(0) + (count - 1) > u32::MAX as u64 {
            count = u32::MAX as u64 - base.unwrap_or(0) + 1;
        }
        Roll::Window(base, count)
    } else {
        Roll::Delete
    }
}

fn gen_app(rng: &mut Rng, name: &str, idx: usize, kind: u8) -> App {
    let mut a = gen_app_raw(rng, name, idx, kind);
    // a trigger that really fires during the probes must not meet a window of billions of
    // archives (one rotation visits every index; that is C07's subject, not a config question)
    let may_roll = match &a.trig {
        Trig::Size(Sc::Int(n)) => *n < 100_000,
        Trig::OnStartUp(Some(0)) => true,
        _ => false,
    };
    if may_roll {
        if let Roll::Window(_, n) = &mut a.roll {
            if *n > 1000 {
                *n = 1;
            }
        }
    }
    a
}

fn gen_app_raw(rng: &mut Rng, name: &str, idx: usize, kind: u8) -> App {
    App {
        name: name.to_owned(),
        kind,
        filters: match rng.below(4) {
            0 => None,
            1 => Some(vec![]),
            2 => Some(vec![level_text(rng)]),
            _ => Some(vec![level_text(rng), level_text(rng)]),
        },
        path: format!("f{}.log", idx),
        flag: if kind == 0 { Some(true) } else { opt(rng, |r| r.chance(1, 2)) },
        enc: opt(rng, gen_enc),
        target: if kind == 0 { Some(true) } else { None },
        policy_kind: rng.chance(1, 2),
        trig: {
            let w = rng.below(3);
            gen_trig(rng, w)
        },
        roll: {
            let w = rng.chance(1, 2);
            gen_roll(rng, w)
        },
    }
}

fn gen_cfg(rng: &mut Rng, max_apps: u64) -> Cfg {
    let n_apps = rng.range(0, max_apps) as usize;
    let mut pool: Vec<&str> = APP_NAMES.to_vec();
    rng.shuffle(&mut pool);
    let appenders: Vec<App> = (0..n_apps)
        .map(|i| {
            let kind = match rng.below(7) {
                0 => 0,
                1..=3 => 1,
                _ => 2,
            };
            gen_app(rng, pool[i], i, kind)
        })
        .collect();
    let n_loggers = rng.range(0, 4) as usize;
    let mut loggers: Vec<Lg> = vec![];
    for _ in 0..n_loggers {
        let name = logger_name(rng, true);
        if loggers.iter().any(|l| l.name == name) {
            continue;
        }
        loggers.push(Lg {
            name,
            level: level_text(rng),
            additive: opt(rng, |r| r.chance(1, 2)),
            appenders: opt(rng, |r| refs(r, &appenders, true)),
        });
    }
    Cfg {
        refresh: if rng.chance(1, 3) { Some((*rng.pick(REFRESH)).to_owned()) } else { None },
        root: if rng.chance(1, 6) { None } else { Some((opt(rng, level_text), opt(rng, |r| refs(r, &appenders, true)))) },
        loggers,
        appenders,
    }
}

fn gen_probes(rng: &mut Rng, cfg: &Cfg) -> Vec<(String, usize)> {
    let n = rng.range(0, 6);
    (0..n)
        .map(|_| {
            let t = if !cfg.loggers.is_empty() && rng.chance(1, 2) {
                let l = rng.pick(&cfg.loggers).name.clone();
                let l = if l.is_empty() || l.contains(' ') { "x".to_owned() } else { l };
                if rng.chance(1, 2) {
                    format!("{}::{}", l, rng.pick(COMPONENTS))
                } else {
                    l
                }
            } else {
                logger_name(rng, false)
            };
            (t, rng.range(1, 5) as usize)
        })
        .collect()
}

fn k(x: &str) -> Step {
    Step::Key(x.to_owned())
}

fn app_path(a: &App, rest: &[&str]) -> Vec<Step> {
    let mut p = vec![k("appenders"), k(&a.name)];
    p.extend(rest.iter().map(|x| k(x)));
    p
}

/// Every field name that is legal in SOME section, with a value of the type it has there. An
/// unknown-key injection uses the fresh name `zzz` and each of these names, wherever the name is
/// NOT a field of the target section (a helper shared between sections must not swallow another
/// section's reserved key).
fn foreign_keys() -> Vec<(&'static str, Vec<String>)> {
    let st = |x: &str| format!("S{}", enc_str(x));
    vec![
        ("kind", vec![st("x")]),
        ("filters", vec!["Qe".into(), "Qf".into(), "I7".into()]),
        ("appenders", vec!["Qe".into()]),
        ("level", vec![st("info")]),
        ("additive", vec!["B1".into()]),
        ("path", vec![st("p.log")]),
        ("append", vec!["B1".into()]),
        ("encoder", vec!["M".into()]),
        ("policy", vec!["M".into()]),
        ("trigger", vec!["M".into()]),
        ("roller", vec!["M".into()]),
        ("pattern", vec![st("{m}")]),
        ("base", vec!["I0".into()]),
        ("count", vec!["I1".into()]),
        ("limit", vec!["I1".into()]),
        ("interval", vec!["I1".into()]),
        ("modulate", vec!["B1".into()]),
        ("max_random_delay", vec!["I0".into()]),
        ("min_size", vec!["I1".into()]),
        ("target", vec![st("stdout")]),
        ("tty_only", vec!["B0".into()]),
        ("refresh_rate", vec![st("30s")]),
        ("root", vec!["M".into()]),
        ("loggers", vec!["M".into()]),
    ]
}

/// unknown-key injections for one denying section: `base` is the path of the section, `fields`
/// its own field names
fn unknown_keys(v: &mut Vec<(&'static str, Vec<Step>, String)>, base: &[Step], fields: &[&str]) {
    for (name, payloads) in foreign_keys() {
        if fields.contains(&name) {
            continue;
        }
        for p in payloads {
            let mut path = base.to_vec();
            path.push(k(name));
            v.push(("unk", path, p));
        }
    }
}

/// (class, path, payload) choices applicable to the configuration
fn injections(cfg: &Cfg) -> Vec<(&'static str, Vec<Step>, String)> {
    let mut v: Vec<(&'static str, Vec<Step>, String)> = vec![];
    let st = |x: &str| format!("S{}", enc_str(x));
    v.push(("unk", vec![k("zzz")], "I1".into()));
    unknown_keys(&mut v, &[], &["refresh_rate", "root", "appenders", "loggers"]);
    v.push(("typ", vec![k("refresh_rate")], "I30".into()));
    v.push(("typ", vec![k("refresh_rate")], st("30")));
    v.push(("typ", vec![k("appenders")], "Qi".into()));
    v.push(("typ", vec![k("loggers")], st("x")));
    v.push(("typ", vec![k("root")], "I1".into()));
    v.push(("seqs", vec![k("root")], "Qr".into()));
    if cfg.refresh.is_none() {
        v.push(("null", vec![k("refresh_rate")], "N".into()));
    }
    if cfg.root.is_some() {
        v.push(("unk", vec![k("root"), k("zzz")], "I1".into()));
        unknown_keys(&mut v, &[k("root")], &["level", "appenders"]);
        v.push(("typ", vec![k("root"), k("level")], "I3".into()));
        v.push(("typ", vec![k("root"), k("level")], st("verbose")));
        v.push(("typ", vec![k("root"), k("appenders")], st("a")));
    }
    for l in &cfg.loggers {
        let p = |rest: &str| vec![k("loggers"), k(&l.name), k(rest)];
        v.push(("unk", p("zzz"), "B1".into()));
        unknown_keys(&mut v, &[k("loggers"), k(&l.name)], &["level", "appenders", "additive"]);
        v.push(("typ", p("additive"), st("true")));
        v.push(("typ", p("additive"), "I1".into()));
        v.push(("typ", p("level"), "Qi".into()));
        v.push(("typ", p("appenders"), "M".into()));
        v.push(("typ", vec![k("loggers"), k(&l.name)], st("x")));
        v.push(("miss", p("level"), "X".into()));
    }
    for a in &cfg.appenders {
        v.push(("unk", app_path(a, &["zzz"]), "I1".into()));
        unknown_keys(
            &mut v,
            &app_path(a, &[]),
            match a.kind {
                0 => &["kind", "filters", "target", "encoder", "tty_only"],
                1 => &["kind", "filters", "path", "encoder", "append"],
                _ => &["kind", "filters", "path", "append", "encoder", "policy"],
            },
        );
        v.push(("kind", app_path(a, &["kind"]), st("bogus")));
        v.push(("typ", app_path(a, &["kind"]), "I5".into()));
        v.push(("miss", app_path(a, &["kind"]), "X".into()));
        v.push(("typ", app_path(a, &["filters"]), "M".into()));
        v.push(("typ", app_path(a, &["encoder"]), "Qi".into()));
        v.push(("typ", vec![k("appenders"), k(&a.name)], "I1".into()));
        if a.enc.is_none() {
            v.push(("null", app_path(a, &["encoder"]), "N".into()));
        }
        if let Some(e) = &a.enc {
            v.push(("unk", app_path(a, &["encoder", "zzz"]), "I1".into()));
            unknown_keys(&mut v, &app_path(a, &["encoder"]), if e.json { &["kind"] } else { &["kind", "pattern"] });
            v.push(("kind", app_path(a, &["encoder", "kind"]), st("bogus")));
            v.push(("typ", app_path(a, &["encoder", "kind"]), "I1".into()));
            if !e.json {
                v.push(("typ", app_path(a, &["encoder", "pattern"]), "I1".into()));
                if !e.pattern {
                    v.push(("null", app_path(a, &["encoder", "pattern"]), "N".into()));
                }
            }
        }
        if let Some(fs) = &a.filters {
            for i in 0..fs.len() {
                let fp = |rest: Option<&str>| {
                    let mut p = app_path(a, &["filters"]);
                    p.push(Step::Idx(i));
                    if let Some(r) = rest {
                        p.push(k(r));
                    }
                    p
                };
                v.push(("unk", fp(Some("zzz")), "I1".into()));
                v.push(("kind", fp(Some("kind")), st("bogus")));
                v.push(("typ", fp(Some("kind")), "I5".into()));
                v.push(("miss", fp(Some("kind")), "X".into()));
                v.push(("typ", fp(Some("level")), "I3".into()));
                v.push(("typ", fp(Some("level")), st("loud")));
                v.push(("miss", fp(Some("level")), "X".into()));
                v.push(("typ", fp(None), "I1".into()));
            }
        }
        if a.kind == 0 {
            v.push(("typ", app_path(a, &["tty_only"]), "I1".into()));
            v.push(("typ", app_path(a, &["target"]), st("Stderr")));
        } else {
            v.push(("typ", app_path(a, &["path"]), "I5".into()));
            v.push(("miss", app_path(a, &["path"]), "X".into()));
            v.push(("badpath", app_path(a, &["path"]), "S_".into()));
            v.push(("typ", app_path(a, &["append"]), st("true")));
            if a.flag.is_none() {
                v.push(("null", app_path(a, &["append"]), "N".into()));
            }
        }
        if a.kind == 2 {
            v.push(("unk", app_path(a, &["policy", "zzz"]), "I1".into()));
            unknown_keys(&mut v, &app_path(a, &["policy"]), &["kind", "trigger", "roller"]);
            unknown_keys(
                &mut v,
                &app_path(a, &["policy", "trigger"]),
                match &a.trig {
                    Trig::Size(_) => &["kind", "limit"],
                    Trig::Time(..) => &["kind", "interval", "modulate", "max_random_delay"],
                    Trig::OnStartUp(_) => &["kind", "min_size"],
                },
            );
            unknown_keys(
                &mut v,
                &app_path(a, &["policy", "roller"]),
                match &a.roll {
                    Roll::Delete => &["kind"],
                    Roll::Window(..) => &["kind", "pattern", "base", "count"],
                },
            );
            v.push(("kind", app_path(a, &["policy", "kind"]), st("bogus")));
            v.push(("typ", app_path(a, &["policy"]), st("x")));
            v.push(("miss", app_path(a, &["policy"]), "X".into()));
            v.push(("miss", app_path(a, &["policy", "trigger"]), "X".into()));
            v.push(("miss", app_path(a, &["policy", "roller"]), "X".into()));
            v.push(("unk", app_path(a, &["policy", "trigger", "zzz"]), "I1".into()));
            v.push(("unk", app_path(a, &["policy", "roller", "zzz"]), "I1".into()));
            v.push(("kind", app_path(a, &["policy", "trigger", "kind"]), st("bogus")));
            v.push(("kind", app_path(a, &["policy", "roller", "kind"]), st("bogus")));
            v.push(("miss", app_path(a, &["policy", "trigger", "kind"]), "X".into()));
            v.push(("miss", app_path(a, &["policy", "roller", "kind"]), "X".into()));
            match &a.trig {
                Trig::Size(_) => {
                    v.push(("num", app_path(a, &["policy", "trigger", "limit"]), "I-5".into()));
                    v.push(("typ", app_path(a, &["policy", "trigger", "limit"]), "B1".into()));
                    v.push(("typ", app_path(a, &["policy", "trigger", "limit"]), st("10 parsecs")));
                    v.push(("miss", app_path(a, &["policy", "trigger", "limit"]), "X".into()));
                }
                Trig::Time(_, m, _) => {
                    let cls = if *m == Some(true) { "zeromod" } else { "zero" };
                    v.push((cls, app_path(a, &["policy", "trigger", "interval"]), "I0".into()));
                    v.push(("big", app_path(a, &["policy", "trigger", "interval"]), "I9223372036854775807".into()));
                    v.push(("num", app_path(a, &["policy", "trigger", "interval"]), "I-1".into()));
                    // string forms whose number does not fit i64: rejected, never wrapped
                    v.push(("num", app_path(a, &["policy", "trigger", "interval"]), st("9223372036854775808")));
                    v.push(("num", app_path(a, &["policy", "trigger", "interval"]), st("18446744073709551615 seconds")));
                    v.push(("num", app_path(a, &["policy", "trigger", "interval"]), st("9223372036854775808 days")));
                    v.push(("num", app_path(a, &["policy", "trigger", "max_random_delay"]), "I-1".into()));
                    v.push(("typ", app_path(a, &["policy", "trigger", "interval"]), st("1 fortnight")));
                    v.push(("typ", app_path(a, &["policy", "trigger", "modulate"]), st("yes")));
                }
                Trig::OnStartUp(_) => {
                    v.push(("num", app_path(a, &["policy", "trigger", "min_size"]), "I-1".into()));
                    v.push(("typ", app_path(a, &["policy", "trigger", "min_size"]), "F".into()));
                }
            }
            if let Roll::Window(b, _) = &a.roll {
                v.push(("num", app_path(a, &["policy", "roller", "count"]), "I-1".into()));
                v.push(("num", app_path(a, &["policy", "roller", "base"]), "I4294967296".into()));
                v.push(("num", app_path(a, &["policy", "roller", "count"]), "I4294967296".into()));
                v.push(("typ", app_path(a, &["policy", "roller", "count"]), st("3")));
                v.push(("miss", app_path(a, &["policy", "roller", "count"]), "X".into()));
                v.push(("ctor", app_path(a, &["policy", "roller", "pattern"]), st("nobraces.log")));
                if let Roll::Window(_, n) = &a.roll {
                    if *n >= 2 {
                        // last index of the window above u32::MAX: the builder refuses it
                        v.push(("ctor", app_path(a, &["policy", "roller", "base"]), "I4294967295".into()));
                    }
                }
                if b.is_none() {
                    v.push(("null", app_path(a, &["policy", "roller", "base"]), "N".into()));
                }
            }
        }
    }
    v
}

fn emit_case(emit: &mut dyn FnMut(String), cfg: &Cfg, probes: &[(String, usize)], seed: u64, inj: Option<&(&'static str, Vec<Step>, String)>) {
    let (cls, path, payload_enc) = match inj {
        None => ("-".to_owned(), vec![], "N".to_owned()),
        Some((c, p, e)) => ((*c).to_owned(), p.clone(), e.clone()),
    };
    let c = Case { cfg: cfg.clone(), probes: probes.to_vec(), seed, cls, path, payload: None, payload_enc };
    emit(enc_case(&c));
}

/// one configuration that has every section, for the deterministic injection block
fn full_cfg() -> Cfg {
    let mk = |name: &str, idx: usize, kind: u8, trig: Trig, roll: Roll, enc: Option<Enc>| App {
        name: name.to_owned(),
        kind,
        filters: Some(vec!["info".to_owned(), "TRACE".to_owned()]),
        path: format!("f{}.log", idx),
        flag: if kind == 0 { Some(true) } else { None },
        enc,
        target: if kind == 0 { Some(true) } else { None },
        policy_kind: false,
        trig,
        roll,
    };
    let p = Some(Enc { kind_explicit: false, json: false, pattern: true });
    let j = Some(Enc { kind_explicit: true, json: true, pattern: false });
    Cfg {
        refresh: None,
        root: Some((Some("info".into()), Some(vec!["a".into(), "r1".into()]))),
        loggers: vec![
            Lg { name: "x".into(), level: "debug".into(), additive: None, appenders: Some(vec!["r2".into(), "r3".into()]) },
            Lg { name: "x::y".into(), level: "Trace".into(), additive: Some(false), appenders: Some(vec!["a".into(), "r4".into()]) },
        ],
        appenders: vec![
            mk("a", 0, 1, Trig::OnStartUp(None), Roll::Delete, p.clone()),
            mk("c", 1, 0, Trig::OnStartUp(None), Roll::Delete, p.clone()),
            mk("r1", 2, 2, Trig::Size(Sc::Str("10 mb".into())), Roll::Window(None, 3), j),
            mk("r2", 3, 2, Trig::Time(Sc::Str("1 day".into()), Some(true), None), Roll::Delete, p.clone()),
            mk("r3", 4, 2, Trig::Time(Sc::Int(3600), None, Some(5)), Roll::Window(Some(1), 2), None),
            mk("r4", 5, 2, Trig::OnStartUp(Some(10)), Roll::Delete, Some(Enc { kind_explicit: true, json: false, pattern: false })),
        ],
    }
}

pub fn gen(rng: &mut Rng, n: usize, thorough: bool, emit: &mut dyn FnMut(String)) {
    // deterministic block: the full configuration, valid in several key orders, then with every
    // applicable injection
    let full = full_cfg();
    let full_probes: Vec<(String, usize)> = vec![
        ("x".into(), 3),
        ("x::y::z".into(), 5),
        ("x::z".into(), 4),
        ("q".into(), 3),
        ("q".into(), 4),
        ("x::y".into(), 1),
    ];
    for seed in [0u64, 1, 7, 123456789, 4294967295] {
        emit_case(emit, &full, &full_probes, seed, None);
    }
    let all = injections(&full);
    for (i, inj) in all.iter().enumerate() {
        emit_case(emit, &full, &full_probes, (i as u64) * 7919 + 3, Some(inj));
    }
    // integer-form boundary values of every numeric leaf, one rolling appender each, attached to
    // the root and probed
    {
        let large = i64::MAX as u64;
        let mut variants: Vec<(Trig, Roll)> = vec![];
        for v in [0u64, 1, large] {
            variants.push((Trig::Size(Sc::Int(v as i128)), Roll::Delete));
            variants.push((Trig::Size(Sc::Int(v as i128)), Roll::Window(None, 2)));
            variants.push((Trig::OnStartUp(Some(v)), Roll::Window(Some(1), 1)));
            variants.push((Trig::OnStartUp(Some(v)), Roll::Delete));
            variants.push((Trig::Time(Sc::Int(v as i128), Some(false), Some(v)), Roll::Delete));
            variants.push((Trig::Time(Sc::Int(v as i128), Some(true), None), Roll::Delete));
        }
        for b in [0u64, 1, u32::MAX as u64] {
            for n in [0u64, 1, u32::MAX as u64] {
                if n > 0 && b + (n - 1) > u32::MAX as u64 {
                    continue;
                }
                variants.push((Trig::Size(Sc::Str("10 mb".into())), Roll::Window(Some(b), n)));
            }
        }
        for (i, (trig, roll)) in variants.into_iter().enumerate() {
            let cfg = Cfg {
                refresh: None,
                root: Some((Some("info".into()), Some(vec!["r".into()]))),
                loggers: vec![],
                appenders: vec![App {
                    name: "r".into(),
                    kind: 2,
                    filters: None,
                    path: "r.log".into(),
                    flag: None,
                    enc: Some(Enc { kind_explicit: false, json: false, pattern: true }),
                    target: None,
                    policy_kind: i % 2 == 0,
                    trig,
                    roll,
                }],
            };
            emit_case(emit, &cfg, &[("x".into(), 3), ("y".into(), 2), ("z".into(), 5)], i as u64, None);
        }
    }
    // the empty document
    emit_case(emit, &Cfg { refresh: None, root: None, loggers: vec![], appenders: vec![] }, &[], 0, None);
    // random stream
    let max_apps = if thorough { 5 } else { 4 };
    for _ in 0..n {
        let cfg = gen_cfg(rng, max_apps);
        let probes = gen_probes(rng, &cfg);
        let seed = rng.below(1 << 32);
        if rng.chance(2, 5) {
            emit_case(emit, &cfg, &probes, seed, None);
        } else {
            // class first, so that rare classes (zeromod, big, ctor, badpath, null, seqs) are as
            // frequent as the common ones
            let inj = injections(&cfg);
            let mut classes: Vec<&'static str> = inj.iter().map(|x| x.0).collect();
            classes.sort();
            classes.dedup();
            let cls = *rng.pick(&classes);
            let of_cls: Vec<_> = inj.into_iter().filter(|x| x.0 == cls).collect();
            let pick = rng.pick(&of_cls).clone();
            emit_case(emit, &cfg, &probes, seed, Some(&pick));
        }
    }
}

/// child-process entry point (`verif-harness child c14 …`), for checks that need process-global state
pub fn child(_args: &[String]) -> i32 {
    2
}
