//! C14 — configuration documents in YAML / JSON / TOML. A case carries a LOGICAL configuration, a
//! key-order seed and an optional injection; the harness renders the document into the three
//! formats itself, loads each with the real code (lossy: `load_config_file` and the same steps by
//! hand to see the error lists; strict: `serde_*::from_str::<RawConfig>` + `create_raw_config`),
//! installs the result in a `Logger`, sends probe records and reads back what the file-based
//! appenders wrote. For valid documents the same probes also go through the equivalent
//! programmatic configuration.
use crate::proto::*;
use crate::rng::Rng;
use log::{Level, LevelFilter, Log, Record};
use log4rs::append::console::{ConsoleAppender, Target};
use log4rs::append::file::FileAppender;
use log4rs::append::rolling_file::policy::compound::{
    roll::{delete::DeleteRoller, fixed_window::FixedWindowRoller},
    trigger::{onstartup::OnStartUpTrigger, size::SizeTrigger, time::{TimeTrigger, TimeTriggerInterval}},
    CompoundPolicy,
};
use log4rs::append::rolling_file::RollingFileAppender;
use log4rs::append::Append;
use log4rs::config::{Appender, Config, Deserializers, Logger as LoggerCfg, RawConfig, Root};
use log4rs::encode::{json::JsonEncoder, pattern::PatternEncoder, Encode};
use log4rs::filter::threshold::ThresholdFilter;
use std::str::FromStr;
use std::sync::atomic::{AtomicUsize, Ordering};
use std::sync::Arc;

/// mirror of `patternTexts` (Pipeline.lean): three-token patterns whose last token is the message
const PATTERNS: &[&str] = &["{l} {t} {m}{n}", "{t} {l} {m}{n}", "{l} [{t}] {m}{n}"];
const DEFAULT_PATTERN: &str = "{d} {l} {t} - {m}{n}";
const T0: i64 = 1_700_000_000;

// ------------------------------------------------------------------------------------------------
// serde data model
// ------------------------------------------------------------------------------------------------
#[derive(Clone, Debug, PartialEq)]
enum V {
    Null,
    Bool(bool),
    Int(i128),
    Float,
    Str(String),
    Seq(Vec<V>),
    Map(Vec<(String, V)>),
}

#[derive(Clone, Debug)]
enum Step {
    Key(String),
    Idx(usize),
}

fn set_entry(k: &str, payload: &Option<V>, kvs: &mut Vec<(String, V)>) {
    if let Some(pos) = kvs.iter().position(|kv| kv.0 == k) {
        match payload {
            Some(v) => kvs[pos].1 = v.clone(),
            None => {
                kvs.remove(pos);
            }
        }
    } else if let Some(v) = payload {
        kvs.push((k.to_owned(), v.clone()));
    }
}

/// mirror of `modifyAt` (Pipeline.lean)
fn modify_at(path: &[Step], payload: &Option<V>, v: &mut V) {
    match (path.first(), v) {
        (None, v) => {
            if let Some(p) = payload {
                *v = p.clone();
            }
        }
        (Some(Step::Key(k)), V::Map(kvs)) => {
            if path.len() == 1 {
                set_entry(k, payload, kvs);
            } else {
                for kv in kvs.iter_mut() {
                    if &kv.0 == k {
                        modify_at(&path[1..], payload, &mut kv.1);
                    }
                }
            }
        }
        (Some(Step::Idx(i)), V::Seq(xs)) => {
            if let Some(x) = xs.get_mut(*i) {
                modify_at(&path[1..], payload, x);
            }
        }
        _ => {}
    }
}

/// mirror of `permute` (factorial number system)
fn permute<T>(seed: u64, mut xs: Vec<T>) -> Vec<T> {
    let mut out = Vec::with_capacity(xs.len());
    let mut s = seed;
    while !xs.is_empty() {
        let n = xs.len() as u64;
        let i = (s % n) as usize;
        s /= n;
        out.push(xs.remove(i));
    }
    out
}

fn shuffle(seed: u64, v: V) -> V {
    match v {
        V::Seq(xs) => V::Seq(xs.into_iter().map(|x| shuffle(seed, x)).collect()),
        V::Map(kvs) => V::Map(permute(seed, kvs.into_iter().map(|(k, x)| (k, shuffle(seed, x))).collect())),
        v => v,
    }
}

fn jstr(s: &str) -> String {
    serde_json::to_string(s).unwrap()
}

fn to_json(v: &V) -> String {
    match v {
        V::Null => "null".into(),
        V::Bool(b) => b.to_string(),
        V::Int(n) => n.to_string(),
        V::Float => "1.5".into(),
        V::Str(s) => jstr(s),
        V::Seq(xs) => format!("[{}]", xs.iter().map(to_json).collect::<Vec<_>>().join(", ")),
        V::Map(kvs) => format!(
            "{{{}}}",
            kvs.iter().map(|(k, x)| format!("{}: {}", jstr(k), to_json(x))).collect::<Vec<_>>().join(", ")
        ),
    }
}

fn toml_inline(v: &V) -> String {
    match v {
        V::Null => "\"\"".into(), // unreachable: null entries are dropped, nulls never sit in arrays
        V::Bool(b) => b.to_string(),
        V::Int(n) => n.to_string(),
        V::Float => "1.5".into(),
        V::Str(s) => jstr(s),
        V::Seq(xs) => format!("[{}]", xs.iter().map(toml_inline).collect::<Vec<_>>().join(", ")),
        V::Map(kvs) => {
            let items: Vec<String> = kvs
                .iter()
                .filter(|(_, x)| *x != V::Null)
                .map(|(k, x)| format!("{} = {}", jstr(k), toml_inline(x)))
                .collect();
            if items.is_empty() {
                "{}".into()
            } else {
                format!("{{ {} }}", items.join(", "))
            }
        }
    }
}

fn toml_is_table(v: &V) -> bool {
    matches!(v, V::Map(m) if !m.is_empty())
}

/// `[a.b.c]` table-header style: inside a table first the entries that are not tables (scalars,
/// arrays — arrays of tables inline), then one header per sub-table
fn toml_tables(path: &[String], kvs: &[(String, V)], out: &mut String) {
    for (k, x) in kvs.iter().filter(|(_, x)| *x != V::Null && !toml_is_table(x)) {
        out.push_str(&format!("{} = {}\n", jstr(k), toml_inline(x)));
    }
    for (k, x) in kvs.iter().filter(|(_, x)| toml_is_table(x)) {
        if let V::Map(m) = x {
            let mut p = path.to_vec();
            p.push(jstr(k));
            out.push_str(&format!("\n[{}]\n", p.join(".")));
            toml_tables(&p, m, out);
        }
    }
}

/// TOML has no null: null-valued entries are left out. Two styles (chosen by the case's seed):
/// top-level keys with inline values — any key order is expressible —, or `[table]` headers, the
/// way TOML configurations are usually written.
fn to_toml(v: &V, style: u64) -> String {
    match v {
        V::Map(kvs) if style & 1 == 1 => {
            let mut out = String::new();
            toml_tables(&[], kvs, &mut out);
            out
        }
        V::Map(kvs) => kvs
            .iter()
            .filter(|(_, x)| *x != V::Null)
            .map(|(k, x)| format!("{} = {}\n", jstr(k), toml_inline(x)))
            .collect(),
        other => format!("value = {}\n", toml_inline(other)),
    }
}

/// may the text stand unquoted in YAML and still be a string. `plain` style: every text that the
/// YAML 1.2 core schema keeps a string (so `off`, `no`, `y`, `30 seconds`, `INFO` stay unquoted);
/// otherwise only identifier-like words that no YAML version resolves to something else.
fn yaml_plain_ok(s: &str, plain: bool) -> bool {
    let first = match s.chars().next() {
        Some(c) => c,
        None => return false,
    };
    let lower = s.to_ascii_lowercase();
    if plain {
        let core = ["true", "false", "null"];
        let body_ok = s.chars().all(|c| c.is_ascii_alphanumeric() || c == '_' || c == ' ');
        let starts_ok = first.is_ascii_alphabetic() || first == '_' || (first.is_ascii_digit() && s.contains(' '));
        body_ok && starts_ok && !s.ends_with(' ') && !core.contains(&lower.as_str())
    } else {
        let reserved = ["true", "false", "null", "yes", "no", "on", "off", "y", "n"];
        (first.is_ascii_alphabetic() || first == '_') && s.chars().all(|c| c.is_ascii_alphanumeric() || c == '_') && !reserved.contains(&lower.as_str())
    }
}

fn yaml_scalar(s: &str, plain: bool) -> String {
    if yaml_plain_ok(s, plain) {
        s.to_owned()
    } else {
        jstr(s)
    }
}

fn yaml_flow(v: &V, plain: bool) -> String {
    match v {
        V::Null => "~".into(),
        V::Str(s) => yaml_scalar(s, plain),
        V::Seq(xs) => format!("[{}]", xs.iter().map(|x| yaml_flow(x, plain)).collect::<Vec<_>>().join(", ")),
        V::Map(kvs) => format!(
            "{{{}}}",
            kvs.iter().map(|(k, x)| format!("{}: {}", jstr(k), yaml_flow(x, plain))).collect::<Vec<_>>().join(", ")
        ),
        other => to_json(other),
    }
}

/// block style for maps; sequences in flow style, or (plain style) as block sequences whose map
/// items are written in flow style
fn yaml_block(v: &V, indent: usize, plain: bool, out: &mut String) {
    if let V::Map(kvs) = v {
        for (k, x) in kvs {
            let pad = " ".repeat(indent);
            match x {
                V::Map(inner) if !inner.is_empty() => {
                    out.push_str(&format!("{}{}:\n", pad, yaml_scalar(k, plain)));
                    yaml_block(x, indent + 2, plain, out);
                }
                V::Seq(items) if plain && !items.is_empty() => {
                    out.push_str(&format!("{}{}:\n", pad, yaml_scalar(k, plain)));
                    for it in items {
                        out.push_str(&format!("{}  - {}\n", pad, yaml_flow(it, plain)));
                    }
                }
                _ => out.push_str(&format!("{}{}: {}\n", pad, yaml_scalar(k, plain), yaml_flow(x, plain))),
            }
        }
    }
}

fn to_yaml(v: &V, style: u64) -> String {
    let plain = (style >> 1) & 1 == 1;
    match v {
        V::Map(kvs) if !kvs.is_empty() => {
            let mut s = String::new();
            yaml_block(v, 0, plain, &mut s);
            s
        }
        other => format!("{}\n", yaml_flow(other, plain)),
    }
}

// ------------------------------------------------------------------------------------------------
// logical configuration
// ------------------------------------------------------------------------------------------------
#[derive(Clone, Debug)]
enum Sc {
    Int(i128),
    Str(String),
}

#[derive(Clone, Debug)]
enum Trig {
    Size(Sc),
    Time(Sc, Option<bool>, Option<u64>),
    OnStartUp(Option<u64>),
}

#[derive(Clone, Debug)]
enum Roll {
    Delete,
    Window(Option<u64>, u64),
}

#[derive(Clone, Debug)]
struct Enc {
    kind_explicit: bool,
    json: bool,
    pattern: Option<u8>,
}

#[derive(Clone, Debug)]
struct App {
    name: String,
    kind: u8,
    filters: Option<Vec<String>>,
    path: String,
    flag: Option<bool>,
    enc: Option<Enc>,
    target: Option<bool>,
    policy_kind: bool,
    trig: Trig,
    roll: Roll,
}

#[derive(Clone, Debug)]
struct Lg {
    name: String,
    level: String,
    additive: Option<bool>,
    appenders: Option<Vec<String>>,
}

#[derive(Clone, Debug)]
struct Cfg {
    refresh: Option<String>,
    root: Option<(Option<String>, Option<Vec<String>>)>,
    loggers: Vec<Lg>,
    appenders: Vec<App>,
}

#[derive(Clone, Debug)]
struct Inj {
    cls: String,
    path: Vec<Step>,
    payload: Option<V>,
    payload_enc: String,
}

struct Case {
    cfg: Cfg,
    probes: Vec<(String, usize)>,
    seed: u64,
    injs: Vec<Inj>,
}

fn enc_names(xs: &[String]) -> String {
    enc_list(",", &xs.iter().map(|s| enc_str(s)).collect::<Vec<_>>())
}

fn enc_opt_names(o: &Option<Vec<String>>) -> String {
    match o {
        None => "-".into(),
        Some(xs) => enc_names(xs),
    }
}

fn enc_ob(o: Option<bool>) -> String {
    enc_opt(o, |b| enc_bool(b).to_owned())
}

fn enc_on(o: Option<u64>) -> String {
    enc_opt(o, |n| n.to_string())
}

fn enc_sc(s: &Sc) -> String {
    match s {
        Sc::Int(n) => format!("i{}", n),
        Sc::Str(s) => format!("s{}", enc_str(s)),
    }
}

fn enc_app(a: &App) -> String {
    let trig = match &a.trig {
        Trig::Size(s) => format!("s:{}", enc_sc(s)),
        Trig::Time(s, m, d) => format!("t:{}:{}:{}", enc_sc(s), enc_ob(*m), enc_on(*d)),
        Trig::OnStartUp(m) => format!("o:{}", enc_on(*m)),
    };
    let roll = match &a.roll {
        Roll::Delete => "d".to_owned(),
        Roll::Window(b, n) => format!("w:{}:{}", enc_on(*b), n),
    };
    let enc = match &a.enc {
        None => "-".to_owned(),
        Some(e) => format!("{}{}{}", enc_bool(e.kind_explicit), enc_bool(e.json), e.pattern.map(|i| i + 1).unwrap_or(0)),
    };
    [
        enc_str(&a.name),
        a.kind.to_string(),
        match &a.filters {
            None => "-".into(),
            Some(f) => enc_names(f),
        },
        enc_str(&a.path),
        enc_ob(a.flag),
        enc,
        enc_ob(a.target),
        enc_bool(a.policy_kind).to_owned(),
        trig,
        roll,
    ]
    .join("/")
}

fn enc_case(c: &Case) -> String {
    let cfg = &c.cfg;
    let root = match &cfg.root {
        None => "-".to_owned(),
        Some((l, a)) => format!("{}/{}", enc_opt(l.as_ref(), |s| enc_str(s)), enc_opt_names(a)),
    };
    let loggers: Vec<String> = cfg
        .loggers
        .iter()
        .map(|l| format!("{}/{}/{}/{}", enc_str(&l.name), enc_str(&l.level), enc_ob(l.additive), enc_opt_names(&l.appenders)))
        .collect();
    let apps: Vec<String> = cfg.appenders.iter().map(enc_app).collect();
    let probes: Vec<String> = c.probes.iter().map(|(t, l)| format!("{}:{}", enc_str(t), l)).collect();
    let enc_path = |path: &[Step]| -> String {
        let v: Vec<String> = path
            .iter()
            .map(|s| match s {
                Step::Key(k) => format!("k{}", enc_str(k)),
                Step::Idx(i) => format!("#{}", i),
            })
            .collect();
        enc_list(",", &v)
    };
    // several simultaneous injections: classes joined by `+`, paths and payloads by `|`
    let (cls, path, payload) = if c.injs.is_empty() {
        ("-".to_owned(), "~".to_owned(), "N".to_owned())
    } else {
        (
            c.injs.iter().map(|i| i.cls.clone()).collect::<Vec<_>>().join("+"),
            c.injs.iter().map(|i| enc_path(&i.path)).collect::<Vec<_>>().join("|"),
            c.injs.iter().map(|i| i.payload_enc.clone()).collect::<Vec<_>>().join("|"),
        )
    };
    [
        enc_opt(cfg.refresh.as_ref(), |s| enc_str(s)),
        root,
        enc_list(";", &loggers),
        enc_list("|", &apps),
        enc_list(",", &probes),
        c.seed.to_string(),
        cls,
        path,
        payload,
    ]
    .join("\t")
}

fn dec_names(s: &str) -> Option<Vec<String>> {
    dec_list(',', s).iter().map(|x| dec_str(x)).collect()
}

fn dec_opt_names(s: &str) -> Option<Option<Vec<String>>> {
    if s == "-" {
        Some(None)
    } else {
        dec_names(s).map(Some)
    }
}

fn dec_ob(s: &str) -> Option<Option<bool>> {
    match s {
        "-" => Some(None),
        "0" => Some(Some(false)),
        "1" => Some(Some(true)),
        _ => None,
    }
}

fn dec_on(s: &str) -> Option<Option<u64>> {
    if s == "-" {
        Some(None)
    } else {
        s.parse().ok().map(Some)
    }
}

fn dec_sc(s: &str) -> Option<Sc> {
    if let Some(r) = s.strip_prefix('i') {
        r.parse().ok().map(Sc::Int)
    } else if let Some(r) = s.strip_prefix('s') {
        dec_str(r).map(Sc::Str)
    } else {
        None
    }
}

fn dec_app(s: &str) -> Option<App> {
    let f: Vec<&str> = s.split('/').collect();
    if f.len() != 10 {
        return None;
    }
    let t: Vec<&str> = f[8].split(':').collect();
    let trig = match t.as_slice() {
        ["s", sc] => Trig::Size(dec_sc(sc)?),
        ["t", sc, m, d] => Trig::Time(dec_sc(sc)?, dec_ob(m)?, dec_on(d)?),
        ["o", m] => Trig::OnStartUp(dec_on(m)?),
        _ => return None,
    };
    let r: Vec<&str> = f[9].split(':').collect();
    let roll = match r.as_slice() {
        ["d"] => Roll::Delete,
        ["w", b, n] => Roll::Window(dec_on(b)?, n.parse().ok()?),
        _ => return None,
    };
    let enc = if f[5] == "-" {
        None
    } else {
        let b: Vec<char> = f[5].chars().collect();
        if b.len() != 3 || b[..2].iter().any(|c| *c != '0' && *c != '1') || !('0'..='3').contains(&b[2]) {
            return None;
        }
        Some(Enc { kind_explicit: b[0] == '1', json: b[1] == '1', pattern: if b[2] == '0' { None } else { Some(b[2] as u8 - b'1') } })
    };
    let kind: u8 = f[1].parse().ok()?;
    if kind > 2 {
        return None;
    }
    Some(App {
        name: dec_str(f[0])?,
        kind,
        filters: if f[2] == "-" { None } else { Some(dec_names(f[2])?) },
        path: dec_str(f[3])?,
        flag: dec_ob(f[4])?,
        enc,
        target: dec_ob(f[6])?,
        policy_kind: match f[7] {
            "0" => false,
            "1" => true,
            _ => return None,
        },
        trig,
        roll,
    })
}

fn dec_payload(s: &str) -> Option<Option<V>> {
    Some(match s {
        "X" => None,
        "N" => Some(V::Null),
        "B0" => Some(V::Bool(false)),
        "B1" => Some(V::Bool(true)),
        "F" => Some(V::Float),
        "M" => Some(V::Map(vec![])),
        "Qi" => Some(V::Seq(vec![V::Int(1)])),
        "Qr" => Some(V::Seq(vec![V::Str("info".into()), V::Seq(vec![])])),
        "Qe" => Some(V::Seq(vec![])),
        // a whole document / a logger section as a sequence (fields by position)
        "Qd" => Some(V::Seq(vec![V::Null, V::Map(vec![("level".to_owned(), V::Str("warn".into()))])])),
        "Ql" => Some(V::Seq(vec![V::Str("info".into())])),
        "Qf" => Some(V::Seq(vec![V::Map(vec![
            ("kind".to_owned(), V::Str("threshold".into())),
            ("level".to_owned(), V::Str("info".into())),
        ])])),
        _ => {
            if let Some(r) = s.strip_prefix('I') {
                Some(V::Int(r.parse().ok()?))
            } else if let Some(r) = s.strip_prefix('S') {
                Some(V::Str(dec_str(r)?))
            } else {
                return None;
            }
        }
    })
}

fn dec_case(f: &[&str]) -> Option<Case> {
    if f.len() != 9 {
        return None;
    }
    let refresh = if f[0] == "-" { None } else { Some(dec_str(f[0])?) };
    let root = if f[1] == "-" {
        None
    } else {
        let p: Vec<&str> = f[1].split('/').collect();
        if p.len() != 2 {
            return None;
        }
        Some((if p[0] == "-" { None } else { Some(dec_str(p[0])?) }, dec_opt_names(p[1])?))
    };
    let mut loggers = vec![];
    for l in dec_list(';', f[2]) {
        let p: Vec<&str> = l.split('/').collect();
        if p.len() != 4 {
            return None;
        }
        loggers.push(Lg { name: dec_str(p[0])?, level: dec_str(p[1])?, additive: dec_ob(p[2])?, appenders: dec_opt_names(p[3])? });
    }
    let mut appenders = vec![];
    for a in dec_list('|', f[3]) {
        appenders.push(dec_app(&a)?);
    }
    let mut probes = vec![];
    for p in dec_list(',', f[4]) {
        let (t, l) = p.split_once(':')?;
        let l: usize = l.parse().ok()?;
        if !(1..=5).contains(&l) {
            return None;
        }
        probes.push((dec_str(t)?, l));
    }
    let clss: Vec<&str> = f[6].split('+').collect();
    let (paths, payloads): (Vec<&str>, Vec<&str>) =
        if clss.len() <= 1 { (vec![f[7]], vec![f[8]]) } else { (f[7].split('|').collect(), f[8].split('|').collect()) };
    if clss.len() != paths.len() || clss.len() != payloads.len() {
        return None;
    }
    let mut injs = vec![];
    for i in 0..clss.len() {
        let mut path = vec![];
        for s in dec_list(',', paths[i]) {
            if let Some(r) = s.strip_prefix('k') {
                path.push(Step::Key(dec_str(r)?));
            } else if let Some(r) = s.strip_prefix('#') {
                path.push(Step::Idx(r.parse().ok()?));
            } else {
                return None;
            }
        }
        let payload = dec_payload(payloads[i])?;
        if clss[i] != "-" {
            injs.push(Inj { cls: clss[i].to_owned(), path, payload, payload_enc: payloads[i].to_owned() });
        }
    }
    Some(Case { cfg: Cfg { refresh, root, loggers, appenders }, probes, seed: f[5].parse().ok()?, injs })
}

// ------------------------------------------------------------------------------------------------
// rendering (mirror of `render` in Pipeline.lean)
// ------------------------------------------------------------------------------------------------
fn s(x: &str) -> V {
    V::Str(x.to_owned())
}

fn names(xs: &[String]) -> V {
    V::Seq(xs.iter().map(|x| s(x)).collect())
}

fn opt_entry(kvs: &mut Vec<(String, V)>, k: &str, v: Option<V>) {
    if let Some(v) = v {
        kvs.push((k.to_owned(), v));
    }
}

fn sc_value(x: &Sc) -> V {
    match x {
        Sc::Int(n) => V::Int(*n),
        Sc::Str(t) => s(t),
    }
}

fn render_app(a: &App) -> V {
    let mut m: Vec<(String, V)> = vec![];
    let kind = ["console", "file", "rolling_file"][a.kind as usize];
    m.push(("kind".into(), s(kind)));
    opt_entry(
        &mut m,
        "filters",
        a.filters.as_ref().map(|fs| {
            V::Seq(fs.iter().map(|l| V::Map(vec![("kind".into(), s("threshold")), ("level".into(), s(l))])).collect())
        }),
    );
    if a.kind == 0 {
        opt_entry(&mut m, "target", a.target.map(|b| s(if b { "stderr" } else { "stdout" })));
        opt_entry(&mut m, "tty_only", a.flag.map(V::Bool));
    } else {
        m.push(("path".into(), s(&a.path)));
        opt_entry(&mut m, "append", a.flag.map(V::Bool));
    }
    opt_entry(
        &mut m,
        "encoder",
        a.enc.as_ref().map(|e| {
            let mut em = vec![];
            if e.kind_explicit {
                em.push(("kind".to_owned(), s(if e.json { "json" } else { "pattern" })));
            }
            if let Some(i) = e.pattern {
                em.push(("pattern".to_owned(), s(PATTERNS[i as usize])));
            }
            V::Map(em)
        }),
    );
    if a.kind == 2 {
        let mut pm = vec![];
        if a.policy_kind {
            pm.push(("kind".to_owned(), s("compound")));
        }
        let trig = match &a.trig {
            Trig::Size(l) => V::Map(vec![("kind".into(), s("size")), ("limit".into(), sc_value(l))]),
            Trig::Time(i, mo, d) => {
                let mut t = vec![("kind".to_owned(), s("time")), ("interval".to_owned(), sc_value(i))];
                opt_entry(&mut t, "modulate", mo.map(V::Bool));
                opt_entry(&mut t, "max_random_delay", d.map(|n| V::Int(n as i128)));
                V::Map(t)
            }
            Trig::OnStartUp(ms) => {
                let mut t = vec![("kind".to_owned(), s("onstartup"))];
                opt_entry(&mut t, "min_size", ms.map(|n| V::Int(n as i128)));
                V::Map(t)
            }
        };
        let roll = match &a.roll {
            Roll::Delete => V::Map(vec![("kind".into(), s("delete"))]),
            Roll::Window(b, n) => {
                let mut r = vec![("kind".to_owned(), s("fixed_window")), ("pattern".to_owned(), s(&format!("{}.{{}}", a.path)))];
                opt_entry(&mut r, "base", b.map(|n| V::Int(n as i128)));
                r.push(("count".into(), V::Int(*n as i128)));
                V::Map(r)
            }
        };
        pm.push(("trigger".into(), trig));
        pm.push(("roller".into(), roll));
        m.push(("policy".into(), V::Map(pm)));
    }
    V::Map(m)
}

fn render(cfg: &Cfg) -> V {
    let mut m: Vec<(String, V)> = vec![];
    opt_entry(&mut m, "refresh_rate", cfg.refresh.as_ref().map(|x| s(x)));
    opt_entry(
        &mut m,
        "root",
        cfg.root.as_ref().map(|(l, a)| {
            let mut r = vec![];
            opt_entry(&mut r, "level", l.as_ref().map(|x| s(x)));
            opt_entry(&mut r, "appenders", a.as_ref().map(|x| names(x)));
            V::Map(r)
        }),
    );
    if !cfg.appenders.is_empty() {
        m.push(("appenders".into(), V::Map(cfg.appenders.iter().map(|a| (a.name.clone(), render_app(a))).collect())));
    }
    if !cfg.loggers.is_empty() {
        m.push((
            "loggers".into(),
            V::Map(
                cfg.loggers
                    .iter()
                    .map(|l| {
                        let mut lm = vec![("level".to_owned(), s(&l.level))];
                        opt_entry(&mut lm, "additive", l.additive.map(V::Bool));
                        opt_entry(&mut lm, "appenders", l.appenders.as_ref().map(|x| names(x)));
                        (l.name.clone(), V::Map(lm))
                    })
                    .collect(),
            ),
        ));
    }
    V::Map(m)
}

/// the document's relative paths (`path` of an appender, `pattern` of its roller) made absolute
fn prefix_paths(doc: &V, base: &str) -> V {
    let mut doc = doc.clone();
    if let V::Map(top) = &mut doc {
        for (k, apps) in top.iter_mut() {
            if k != "appenders" {
                continue;
            }
            if let V::Map(apps) = apps {
                for (_, a) in apps.iter_mut() {
                    if let V::Map(am) = a {
                        for (ak, av) in am.iter_mut() {
                            if ak == "path" {
                                if let V::Str(p) = av {
                                    *p = format!("{}/{}", base, p);
                                }
                            }
                            if ak == "policy" {
                                if let V::Map(pm) = av {
                                    for (pk, pv) in pm.iter_mut() {
                                        if pk == "roller" {
                                            if let V::Map(rm) = pv {
                                                for (rk, rv) in rm.iter_mut() {
                                                    if rk == "pattern" {
                                                        if let V::Str(p) = rv {
                                                            *p = format!("{}/{}", base, p);
                                                        }
                                                    }
                                                }
                                            }
                                        }
                                    }
                                }
                            }
                        }
                    }
                }
            }
        }
    }
    doc
}

// ------------------------------------------------------------------------------------------------
// running the real code
// ------------------------------------------------------------------------------------------------
static COUNTER: AtomicUsize = AtomicUsize::new(0);

fn set_clock(t: i64) {
    log4rs::verif_hooks::set_now(Some(Arc::new(move || Some((t, 0)))));
}

fn level_of(n: usize) -> Level {
    match n {
        1 => Level::Error,
        2 => Level::Warn,
        3 => Level::Info,
        4 => Level::Debug,
        _ => Level::Trace,
    }
}

fn filter_num(l: LevelFilter) -> usize {
    l as usize
}

fn enc_refs(xs: &[String]) -> String {
    enc_names(xs)
}

struct Summary {
    head: String, // rr … berr
    file_apps: Vec<String>,
}

fn summarize(config: &Config, rr: Option<std::time::Duration>, aerr: &[String], berr: &[String], cfg: &Cfg) -> Summary {
    let mut apps: Vec<String> = config.appenders().iter().map(|a| a.name().to_owned()).collect();
    apps.sort();
    let mut loggers: Vec<(String, String)> = config
        .loggers()
        .iter()
        .map(|l| {
            (
                l.name().to_owned(),
                format!("{}:{}:{}:{}", enc_str(l.name()), filter_num(l.level()), enc_bool(l.additive()), enc_refs(l.appenders())),
            )
        })
        .collect();
    loggers.sort();
    let mut aerr = aerr.to_vec();
    aerr.sort();
    let mut berr = berr.to_vec();
    berr.sort();
    let head = format!(
        "rr={} root={}:{} loggers={} apps={} aerr={} berr={}",
        enc_opt(rr, |d| d.as_nanos().to_string()),
        filter_num(config.root().level()),
        enc_refs(config.root().appenders()),
        enc_list(";", &loggers.into_iter().map(|x| x.1).collect::<Vec<_>>()),
        enc_refs(&apps),
        enc_list(",", &aerr),
        enc_list(",", &berr)
    );
    let file_apps = apps
        .into_iter()
        .filter(|n| cfg.appenders.iter().any(|a| &a.name == n && a.kind != 0))
        .collect();
    Summary { head, file_apps }
}

/// names and kinds out of `AppenderErrors`' Debug output: `Appender("name", …)` / `Filter("name", …)`
fn parse_appender_errors(dbg: &str) -> Vec<String> {
    let mut out = vec![];
    for (tag, pat) in [("A", "Appender(\""), ("F", "Filter(\"")] {
        let mut rest = dbg;
        while let Some(i) = rest.find(pat) {
            let after = &rest[i + pat.len() - 1..];
            // a Rust string literal: decode with serde_json after mapping `\u{..}` and `\'`
            let mut end = None;
            let b: Vec<char> = after.chars().collect();
            let mut j = 1;
            while j < b.len() {
                if b[j] == '\\' {
                    j += 2;
                    continue;
                }
                if b[j] == '"' {
                    end = Some(j);
                    break;
                }
                j += 1;
            }
            let end = match end {
                Some(e) => e,
                None => break,
            };
            let lit: String = b[1..end].iter().collect();
            let name = unescape_debug(&lit);
            out.push(format!("{}:{}", tag, enc_str(&name)));
            let consumed: usize = b[..=end].iter().map(|c| c.len_utf8()).sum();
            rest = &after[consumed..];
        }
    }
    out
}

fn unescape_debug(s: &str) -> String {
    let mut out = String::new();
    let cs: Vec<char> = s.chars().collect();
    let mut i = 0;
    while i < cs.len() {
        if cs[i] == '\\' && i + 1 < cs.len() {
            match cs[i + 1] {
                'n' => out.push('\n'),
                't' => out.push('\t'),
                'r' => out.push('\r'),
                '0' => out.push('\0'),
                'u' => {
                    // \u{hex}
                    if let Some(close) = cs[i..].iter().position(|c| *c == '}') {
                        let hex: String = cs[i + 3..i + close].iter().collect();
                        if let Some(c) = u32::from_str_radix(&hex, 16).ok().and_then(char::from_u32) {
                            out.push(c);
                        }
                        i += close + 1;
                        continue;
                    }
                }
                c => out.push(c),
            }
            i += 2;
        } else {
            out.push(cs[i]);
            i += 1;
        }
    }
    out
}

fn parse_raw(fmt: &str, text: &str) -> Result<RawConfig, String> {
    match fmt {
        "yaml" => serde_yaml::from_str(text).map_err(|e| e.to_string()),
        "json" => serde_json::from_str(text).map_err(|e| e.to_string()),
        _ => toml::from_str(text).map_err(|e| e.to_string()),
    }
}

fn rel_path<'a>(cfg: &'a Cfg, name: &str) -> Option<&'a str> {
    cfg.appenders.iter().find(|a| a.name == name).map(|a| a.path.as_str())
}

/// Runs `f` with the process's stdout and stderr (fds 1 and 2) redirected into two files and
/// returns what reached each. Used for console appenders only: the protocol channel itself is
/// never written to while redirected (the caller's buffered writer is flushed by `main`, later).
fn capture_console(dir: &str, f: impl FnOnce()) -> (String, String) {
    use std::io::Write;
    use std::os::unix::io::AsRawFd;
    let (po, pe) = (format!("{}/cap.out", dir), format!("{}/cap.err", dir));
    let fo = std::fs::File::create(&po).unwrap();
    let fe = std::fs::File::create(&pe).unwrap();
    let _ = std::io::stdout().flush();
    let _ = std::io::stderr().flush();
    unsafe {
        let so = libc::dup(1);
        let se = libc::dup(2);
        libc::dup2(fo.as_raw_fd(), 1);
        libc::dup2(fe.as_raw_fd(), 2);
        f();
        let _ = std::io::stdout().flush();
        let _ = std::io::stderr().flush();
        libc::dup2(so, 1);
        libc::dup2(se, 2);
        libc::close(so);
        libc::close(se);
    }
    drop(fo);
    drop(fe);
    (std::fs::read_to_string(&po).unwrap_or_default(), std::fs::read_to_string(&pe).unwrap_or_default())
}

/// a Rust string literal at the start of `s` (Debug output): its value and the rest
fn take_literal(s: &str) -> Option<(String, &str)> {
    let b: Vec<char> = s.chars().collect();
    if b.first() != Some(&'"') {
        return None;
    }
    let mut j = 1;
    while j < b.len() {
        if b[j] == '\\' {
            j += 2;
            continue;
        }
        if b[j] == '"' {
            let lit: String = b[1..j].iter().collect();
            let consumed: usize = b[..=j].iter().map(|c| c.len_utf8()).sum();
            return Some((unescape_debug(&lit), &s[consumed..]));
        }
        j += 1;
    }
    None
}

fn after<'a>(s: &'a str, pat: &str) -> Option<&'a str> {
    s.find(pat).map(|i| &s[i + pat.len()..])
}

fn take_number(s: &str) -> String {
    s.chars().take_while(|c| c.is_ascii_digit() || *c == '-').collect()
}

fn strip_base<'a>(p: &'a str, base: &str) -> &'a str {
    p.strip_prefix(base).map(|r| r.strip_prefix('/').unwrap_or(r)).unwrap_or(p)
}

/// The parameters of a constructed appender, read off its `Debug` output (every component of
/// log4rs derives or implements `Debug` with its configuration fields). `console_out`: where the
/// sentinel record of a console appender went.
fn params_of(name: &str, dbg: &str, base: &str, console_out: &str) -> String {
    let enc = match after(dbg, "encoder: ") {
        Some(r) if r.starts_with("JsonEncoder") => "J".to_owned(),
        Some(r) => match after(r, "pattern: ").and_then(take_literal) {
            Some((p, _)) => format!("P{}", enc_str(&p)),
            None => "?".to_owned(),
        },
        None => "?".to_owned(),
    };
    if dbg.starts_with("ConsoleAppender") {
        let do_write = after(dbg, "do_write: ").map(|r| r.starts_with("true")).unwrap_or(false);
        // the streams of a check run are not terminals: do_write = !tty_only
        return format!("{}/c/{}/{}/{}", enc_str(name), enc_bool(!do_write), enc, console_out);
    }
    let path = after(dbg, "path: ").and_then(take_literal).map(|x| x.0).unwrap_or_default();
    let path = enc_str(strip_base(&path, base));
    if dbg.starts_with("FileAppender") {
        return format!("{}/f/{}/{}", enc_str(name), path, enc);
    }
    let append = after(dbg, "append: ").map(|r| r.starts_with("true")).unwrap_or(false);
    let trig = match after(dbg, "trigger: ") {
        Some(r) if r.starts_with("SizeTrigger") => format!("s{}", take_number(after(r, "limit: ").unwrap_or(""))),
        Some(r) if r.starts_with("OnStartUpTrigger") => format!("o{}", take_number(after(r, "min_size: ").unwrap_or(""))),
        Some(r) if r.starts_with("TimeTrigger") => {
            let iv = after(r, "interval: ").unwrap_or("");
            let unit: String = iv.chars().take_while(|c| c.is_ascii_alphabetic()).collect();
            let n = take_number(after(iv, "(").unwrap_or(""));
            let m = after(r, "modulate: ").map(|x| x.starts_with("true")).unwrap_or(false);
            let d = take_number(after(r, "max_random_delay: ").unwrap_or(""));
            format!("t{}:{}:{}:{}", unit.to_ascii_lowercase(), n, enc_bool(m), d)
        }
        _ => "?".to_owned(),
    };
    let roll = match after(dbg, "roller: ") {
        Some(r) if r.starts_with("DeleteRoller") => "d".to_owned(),
        Some(r) if r.starts_with("FixedWindowRoller") => {
            let pat = after(r, "pattern: ").and_then(take_literal).map(|x| x.0).unwrap_or_default();
            format!(
                "w{}:{}:{}",
                take_number(after(r, "base: ").unwrap_or("")),
                take_number(after(r, "count: ").unwrap_or("")),
                enc_str(strip_base(&pat, base))
            )
        }
        _ => "?".to_owned(),
    };
    format!("{}/r/{}/{}/{}/{}/{}", enc_str(name), path, enc_bool(append), enc, trig, roll)
}

/// Parameters of every appender (Debug output + where a console appender writes), then a sentinel
/// record straight into every file-based appender, then the probes through a `Logger`.
fn drive(config: Config, file_apps: &[String], cfg: &Cfg, probes: &[(String, usize)], base: &str, dir: &str) -> String {
    let mut params: Vec<(String, String)> = vec![];
    for a in config.appenders() {
        let dbg = format!("{:?}", a.appender());
        let mut out = "-".to_owned();
        if dbg.starts_with("ConsoleAppender") {
            let (o, e) = capture_console(dir, || {
                let _ = a.appender().append(&Record::builder().args(format_args!("S")).level(Level::Error).target("sentinel").build());
                a.appender().flush();
            });
            out = match (o.is_empty(), e.is_empty()) {
                (true, true) => "-".to_owned(),
                (false, true) => "o".to_owned(),
                (true, false) => "e".to_owned(),
                _ => "oe".to_owned(),
            };
        }
        params.push((a.name().to_owned(), params_of(a.name(), &dbg, base, &out)));
    }
    params.sort();
    for a in config.appenders() {
        if file_apps.iter().any(|n| n == a.name()) {
            let _ = a.appender().append(&Record::builder().args(format_args!("S")).level(Level::Error).target("sentinel").build());
        }
    }
    // console appenders that really write would corrupt the protocol channel: keep fds 1 and 2
    // redirected while the probes run
    let (_o, _e) = capture_console(dir, || {
        let logger = log4rs::Logger::new(config);
        for (i, (t, l)) in probes.iter().enumerate() {
            logger.log(&Record::builder().args(format_args!("{}", i)).level(level_of(*l)).target(t).build());
        }
        Log::flush(&logger);
        drop(logger);
    });
    let mut files = vec![];
    let mut w = vec![];
    for n in file_apps {
        let app = cfg.appenders.iter().find(|a| &a.name == n).unwrap();
        let path = format!("{}/{}", base, rel_path(cfg, n).unwrap_or(""));
        let content = std::fs::read_to_string(&path).unwrap_or_default();
        let mut lines: Vec<&str> = content.lines().collect();
        let old = if app.kind == 1 {
            if lines.first() == Some(&"old") {
                lines.remove(0);
                "k"
            } else {
                "g"
            }
        } else {
            "-"
        };
        let mut class = "-".to_owned();
        let mut idx: Vec<String> = vec![];
        for (li, line) in lines.iter().enumerate() {
            let (c, msg) = classify(line);
            if li == 0 {
                class = if msg == "S" { c.to_owned() } else { format!("?{}", c) };
            } else {
                idx.push(msg);
            }
        }
        files.push(format!("{}:{}:{}", enc_str(n), class, old));
        w.push(format!("{}:{}", enc_str(n), enc_list(".", &idx)));
    }
    format!(
        "params={} files={} w={}",
        enc_list(";", &params.into_iter().map(|x| x.1).collect::<Vec<_>>()),
        enc_list(";", &files),
        enc_list(";", &w)
    )
}

/// encoder format of a line and its message: J json, P a three-token pattern, D the default pattern
fn classify(line: &str) -> (&'static str, String) {
    if line.starts_with('{') {
        if let Ok(serde_json::Value::Object(o)) = serde_json::from_str::<serde_json::Value>(line) {
            if let Some(serde_json::Value::String(m)) = o.get("message") {
                return ("J", m.clone());
            }
        }
        return ("?", "?".into());
    }
    let toks: Vec<&str> = line.split(' ').collect();
    if toks.len() == 3 {
        return ("P", toks[2].to_owned());
    }
    if toks.len() >= 5 && toks[toks.len() - 2] == "-" {
        return ("D", toks[toks.len() - 1].to_owned());
    }
    ("?", "?".into())
}

fn render_text(fmt: &str, d: &V, style: u64) -> String {
    match fmt {
        "yaml" => to_yaml(d, style),
        "json" => to_json(d),
        _ => to_toml(d, style),
    }
}

fn run_format(fmt: &str, doc: &V, case: &Case, dir: &str) -> String {
    let base = format!("{}/{}", dir, &fmt[..1]);
    std::fs::create_dir_all(&base).unwrap();
    let text = render_text(fmt, &prefix_paths(doc, &base), case.seed);
    let file = format!("{}/cfg.{}", dir, fmt);
    std::fs::write(&file, &text).unwrap();
    set_clock(T0);
    // strict
    let strict = {
        let text = text.clone();
        let fmt = fmt.to_owned();
        match guarded(move || match parse_raw(&fmt, &text) {
            Err(_) => "err:parse".to_owned(),
            Ok(raw) => match log4rs::config::create_raw_config(raw) {
                Ok(_) => "ok".to_owned(),
                Err(log4rs::config::InitError::Deserializing(_)) => "err:appenders".to_owned(),
                Err(log4rs::config::InitError::BuildConfig(_)) => "err:build".to_owned(),
                Err(_) => "err:other".to_owned(),
            },
        }) {
            Ok(s) => s,
            Err(_) => "PANIC".to_owned(),
        }
    };
    // previous content of the plain file appenders' files
    for a in &case.cfg.appenders {
        if a.kind == 1 && !a.path.is_empty() {
            let f = format!("{}/{}", base, a.path);
            if let Some(parent) = std::path::Path::new(&f).parent() {
                let _ = std::fs::create_dir_all(parent);
            }
            let _ = std::fs::write(f, "old\n");
        }
    }
    set_clock(T0);
    let cfg = case.cfg.clone();
    let probes = case.probes.clone();
    let with_prog = case.injs.iter().all(|i| i.cls == "null");
    let (text2, fmt2, file2, base2, dir2) = (text.clone(), fmt.to_owned(), file.clone(), base.clone(), dir.to_owned());
    let lossy = guarded(move || {
        // the public entry point; what it REPORTS goes to stderr (`handle_error`), one line
        // `log4rs: …` per error: count them
        let mut loaded = None;
        let (_, reported) = capture_console(&dir2, || {
            loaded = Some(log4rs::config::load_config_file(&file2, Deserializers::default()));
        });
        let n_reported = reported.lines().filter(|l| l.starts_with("log4rs: ")).count();
        let via_file = match loaded.unwrap() {
            Err(_) => None,
            Ok(c) => Some(summarize(&c, None, &[], &[], &cfg).head),
        };
        // the same steps by hand, to see the error lists
        let raw = match parse_raw(&fmt2, &text2) {
            Err(_) => return if via_file.is_none() { "lossy=err".to_owned() } else { "lossy=LOADFILE-DIFFERS".to_owned() },
            Ok(r) => r,
        };
        let rr = raw.refresh_rate();
        let (apps, errs) = raw.appenders_lossy(&Deserializers::default());
        let aerr = parse_appender_errors(&format!("{:?}", errs));
        let (config, berrs) = Config::builder().appenders(apps).loggers(raw.loggers()).build_lossy(raw.root());
        let berr: Vec<String> = berrs
            .errors()
            .iter()
            .map(|e| match e {
                log4rs::config::runtime::ConfigError::NonexistentAppender(n) => format!("N:{}", enc_str(n)),
                log4rs::config::runtime::ConfigError::InvalidLoggerName(n) => format!("L:{}", enc_str(n)),
                log4rs::config::runtime::ConfigError::DuplicateAppenderName(n) => format!("DA:{}", enc_str(n)),
                log4rs::config::runtime::ConfigError::DuplicateLoggerName(n) => format!("DL:{}", enc_str(n)),
                _ => "?".to_owned(),
            })
            .collect();
        let sum = summarize(&config, rr, &aerr, &berr, &cfg);
        let same_as_file = via_file.as_deref() == Some(summarize(&config, None, &[], &[], &cfg).head.as_str());
        if !same_as_file {
            return "lossy=LOADFILE-DIFFERS".to_owned();
        }
        set_clock(T0 - 3600);
        let behaviour = drive(config, &sum.file_apps, &cfg, &probes, &base2, &dir2);
        let prog = if with_prog {
            set_clock(T0);
            let pb = programmatic(&cfg, &probes, &dir2);
            if pb == behaviour {
                "same".to_owned()
            } else {
                format!("DIFFER[{}]", pb)
            }
        } else {
            "skip".to_owned()
        };
        format!("lossy=ok {} rep={} {} prog={}", sum.head, n_reported, behaviour, prog)
    });
    let lossy = match lossy {
        Ok(s) => s,
        Err(_) => "lossy=PANIC".to_owned(),
    };
    format!("{} strict={}", lossy, strict)
}

/// the numbers the generator's size and interval texts stand for — written down here, NOT obtained
/// from the crate's own parser, so that the programmatic twin is independent of it
const SIZE_TABLE: &[(&str, u64)] = &[
    ("10 mb", 10 * 1024 * 1024),
    ("1 GB", 1 << 30),
    ("500 kb", 500 * 1024),
    ("2mib", 2 << 20),
    ("1048576", 1048576),
    ("3 Tb", 3 << 40),
    ("700000 b", 700000),
    ("16 EB", 0),
];
const INTERVAL_TABLE: &[(&str, &str, i64)] = &[
    ("1 day", "day", 1),
    ("2 hours", "hour", 2),
    ("1 week", "week", 1),
    ("1 month", "month", 1),
    ("1 year", "year", 1),
    ("30 minutes", "minute", 30),
    ("5 seconds", "second", 5),
    ("3600", "second", 3600),
    ("2 Days", "day", 2),
    ("10 years", "year", 10),
];

fn interval_of(unit: &str, n: i64) -> TimeTriggerInterval {
    match unit {
        "second" => TimeTriggerInterval::Second(n),
        "minute" => TimeTriggerInterval::Minute(n),
        "hour" => TimeTriggerInterval::Hour(n),
        "day" => TimeTriggerInterval::Day(n),
        "week" => TimeTriggerInterval::Week(n),
        "month" => TimeTriggerInterval::Month(n),
        _ => TimeTriggerInterval::Year(n),
    }
}

/// The equivalent programmatic configuration of a (valid) logical configuration — the same
/// components built through the public builders with the numbers, patterns, targets and flags the
/// logical configuration states — driven by the same sentinel and probes; files under `<dir>/p`.
/// An appender whose component builder refuses it is not part of the configuration.
fn programmatic(cfg: &Cfg, probes: &[(String, usize)], dir: &str) -> String {
    let base = format!("{}/p", dir);
    let _ = std::fs::remove_dir_all(&base);
    std::fs::create_dir_all(&base).unwrap();
    let lvl = |t: &str| LevelFilter::from_str(t).unwrap_or(LevelFilter::Off);
    let mut appenders = vec![];
    let mut built: Vec<String> = vec![];
    for a in &cfg.appenders {
        let enc: Option<Box<dyn Encode>> = a.enc.as_ref().map(|e| -> Box<dyn Encode> {
            if e.json {
                Box::new(JsonEncoder::new())
            } else if let Some(i) = e.pattern {
                Box::new(PatternEncoder::new(PATTERNS[i as usize]))
            } else {
                Box::new(PatternEncoder::default())
            }
        });
        let path = format!("{}/{}", base, a.path);
        if a.kind == 1 && !a.path.is_empty() {
            if let Some(parent) = std::path::Path::new(&path).parent() {
                let _ = std::fs::create_dir_all(parent);
            }
            let _ = std::fs::write(&path, "old\n");
        }
        let boxed: Option<Box<dyn Append>> = match a.kind {
            0 => {
                let mut b = ConsoleAppender::builder();
                if let Some(t) = a.target {
                    b = b.target(if t { Target::Stderr } else { Target::Stdout });
                }
                if let Some(t) = a.flag {
                    b = b.tty_only(t);
                }
                if let Some(e) = enc {
                    b = b.encoder(e);
                }
                Some(Box::new(b.build()))
            }
            1 => {
                let mut b = FileAppender::builder();
                if let Some(f) = a.flag {
                    b = b.append(f);
                }
                if let Some(e) = enc {
                    b = b.encoder(e);
                }
                b.build(&path).ok().map(|x| Box::new(x) as Box<dyn Append>)
            }
            _ => {
                let mut b = RollingFileAppender::builder();
                if let Some(f) = a.flag {
                    b = b.append(f);
                }
                if let Some(e) = enc {
                    b = b.encoder(e);
                }
                let trigger: Option<Box<dyn log4rs::append::rolling_file::policy::compound::trigger::Trigger>> = match &a.trig {
                    Trig::Size(Sc::Int(n)) => u64::try_from(*n).ok().map(|n| Box::new(SizeTrigger::new(n)) as _),
                    Trig::Size(Sc::Str(t)) => SIZE_TABLE.iter().find(|e| e.0 == t).map(|e| Box::new(SizeTrigger::new(e.1)) as _),
                    Trig::OnStartUp(m) => Some(Box::new(OnStartUpTrigger::new(m.unwrap_or(1)))),
                    Trig::Time(i, m, d) => {
                        let interval = match i {
                            Sc::Int(n) => i64::try_from(*n).ok().filter(|n| *n >= 0).map(TimeTriggerInterval::Second),
                            Sc::Str(t) => INTERVAL_TABLE.iter().find(|e| e.0 == t).map(|e| interval_of(e.1, e.2)),
                        };
                        interval.map(|iv| Box::new(TimeTrigger::new(TimeTrigger::verif_config(iv, m.unwrap_or(false), d.unwrap_or(0)))) as _)
                    }
                };
                let roller: Option<Box<dyn log4rs::append::rolling_file::policy::compound::roll::Roll>> = match &a.roll {
                    Roll::Delete => Some(Box::new(DeleteRoller::new())),
                    Roll::Window(b, n) => {
                        let mut rb = FixedWindowRoller::builder();
                        let mut ok = u32::try_from(*n).is_ok();
                        if let Some(b) = b {
                            match u32::try_from(*b) {
                                Ok(b) => rb = rb.base(b),
                                Err(_) => ok = false,
                            }
                        }
                        if ok {
                            rb.build(&format!("{}.{{}}", path), *n as u32).ok().map(|x| Box::new(x) as _)
                        } else {
                            None
                        }
                    }
                };
                match (trigger, roller) {
                    (Some(t), Some(r)) => b.build(&path, Box::new(CompoundPolicy::new(t, r))).ok().map(|x| Box::new(x) as Box<dyn Append>),
                    _ => None,
                }
            }
        };
        let boxed = match boxed {
            Some(b) => b,
            None => continue,
        };
        let levels: Option<Vec<LevelFilter>> = a.filters.clone().unwrap_or_default().iter().map(|f| LevelFilter::from_str(f).ok()).collect();
        let levels = match levels {
            Some(l) => l,
            None => continue,
        };
        let mut ab = Appender::builder();
        for f in levels {
            ab = ab.filter(Box::new(ThresholdFilter::new(f)));
        }
        built.push(a.name.clone());
        appenders.push(ab.build(a.name.clone(), boxed));
    }
    let (rl, ra) = match &cfg.root {
        None => (LevelFilter::Debug, vec![]),
        Some((l, a)) => (l.as_ref().map(|t| lvl(t)).unwrap_or(LevelFilter::Debug), a.clone().unwrap_or_default()),
    };
    let loggers: Vec<LoggerCfg> = cfg
        .loggers
        .iter()
        .map(|l| {
            LoggerCfg::builder()
                .appenders(l.appenders.clone().unwrap_or_default())
                .additive(l.additive.unwrap_or(true))
                .build(l.name.clone(), lvl(&l.level))
        })
        .collect();
    let (config, _) = Config::builder().appenders(appenders).loggers(loggers).build_lossy(Root::builder().appenders(ra).build(rl));
    let mut file_apps: Vec<String> = cfg.appenders.iter().filter(|a| a.kind != 0 && built.contains(&a.name)).map(|a| a.name.clone()).collect();
    file_apps.sort();
    set_clock(T0 - 3600);
    drive(config, &file_apps, cfg, probes, &base, dir)
}

/// class `dupkey`: a second entry with the key at the end of the path (mirror of `addDup`)
fn add_dup(path: &[Step], x: &V, v: &mut V) {
    if let (Some(Step::Key(k)), V::Map(kvs)) = (path.first(), v) {
        if path.len() == 1 {
            kvs.push((k.clone(), x.clone()));
        } else {
            for kv in kvs.iter_mut() {
                if &kv.0 == k {
                    add_dup(&path[1..], x, &mut kv.1);
                }
            }
        }
    }
}

/// class `ext`: the YAML rendering stored under an arbitrary file name, `load_config_file` only
fn run_ext(fname: &str, doc: &V, case: &Case, dir: &str) -> String {
    let base = format!("{}/y", dir);
    std::fs::create_dir_all(&base).unwrap();
    let text = to_yaml(&prefix_paths(doc, &base), case.seed);
    let file = format!("{}/{}", dir, fname);
    std::fs::write(&file, &text).unwrap();
    set_clock(T0);
    let cfg = case.cfg.clone();
    match guarded(move || match log4rs::config::load_config_file(&file, Deserializers::default()) {
        Ok(c) => {
            let h = summarize(&c, None, &[], &[], &cfg).head;
            // head = "rr=- root=… loggers=… apps=… aerr=~ berr=~"
            let h = h.strip_prefix("rr=- ").unwrap_or(&h).to_owned();
            let h = h.strip_suffix(" aerr=~ berr=~").unwrap_or(&h).to_owned();
            format!("ext=ok {}", h)
        }
        Err(e) => match e.downcast_ref::<log4rs::config::FormatError>() {
            Some(log4rs::config::FormatError::UnsupportedFormat(_)) => "ext=err:unsupported".to_owned(),
            Some(log4rs::config::FormatError::UnknownFormat) => "ext=err:unknown".to_owned(),
            Some(_) => "ext=err:feature".to_owned(),
            None => "ext=err:parse".to_owned(),
        },
    }) {
        Ok(s) => s,
        Err(_) => "ext=PANIC".to_owned(),
    }
}

pub fn exec(fields: &[&str]) -> String {
    std::env::set_var("RUST_LIB_BACKTRACE", "0");
    let case = match dec_case(fields) {
        Some(c) => c,
        None => return "bad-case".to_owned(),
    };
    let scratch = std::env::var("VERIF_SCRATCH").unwrap_or_else(|_| "/tmp/verif_scratch".to_owned());
    let dir = format!("{}/c14_{}_{}", scratch, std::process::id(), COUNTER.fetch_add(1, Ordering::SeqCst));
    let _ = std::fs::remove_dir_all(&dir);
    std::fs::create_dir_all(&dir).unwrap();
    let mut doc = render(&case.cfg);
    for i in &case.injs {
        if i.cls == "ext" {
            continue;
        }
        if i.cls == "dupkey" {
            if let Some(x) = &i.payload {
                add_dup(&i.path, x, &mut doc);
            }
        } else {
            modify_at(&i.path, &i.payload, &mut doc);
        }
    }
    let doc = shuffle(case.seed, doc);
    if let Some(i) = case.injs.iter().find(|i| i.cls == "ext") {
        let fname = match &i.payload {
            Some(V::Str(s)) => s.clone(),
            _ => String::new(),
        };
        let r = run_ext(&fname, &doc, &case, &dir);
        log4rs::verif_hooks::set_now(None);
        let _ = std::fs::remove_dir_all(&dir);
        return r;
    }
    let y = run_format("yaml", &doc, &case, &dir);
    let j = run_format("json", &doc, &case, &dir);
    let t = run_format("toml", &doc, &case, &dir);
    log4rs::verif_hooks::set_now(None);
    let _ = std::fs::remove_dir_all(&dir);
    if y == j && j == t {
        format!("formats=agree {}", y)
    } else {
        format!("formats=DISAGREE yaml=[{}] json=[{}] toml=[{}]", y, j, t)
    }
}

// ------------------------------------------------------------------------------------------------
// generation
// ------------------------------------------------------------------------------------------------
const LEVELS: &[&str] = &["off", "error", "warn", "info", "debug", "trace"];
const APP_NAMES: &[&str] = &["a", "b", "c", "d", "e_1", "\u{e4}pp", "x::y", "A", "\u{65e5}\u{5fd7}", "no", "off"];
const COMPONENTS: &[&str] = &["x", "y", "z", "x1", "\u{fc}b"];
const REFRESH: &[&str] = &[
    "30 seconds", "5 min", "1h", "2 days", "500ms", "1 week", "90s", "1 month", "2years", " 7 d ", "15 us",
    // several spans, and the u64 boundary of the seconds count
    "1h 30m", "2min 15s 10ms", "1day 1h1m", "18446744073709551615s", "18446744073709551615 ns", "584542046090 years", "18446744073709551615s 999999999ns", "1 0 s",
];
const SIZES: &[&str] = &["10 mb", "1 GB", "500 kb", "2mib", "1048576", "3 Tb", "700000 b"];
const INTERVALS: &[&str] = &["1 day", "2 hours", "1 week", "1 month", "1 year", "30 minutes", "5 seconds", "3600", "2 Days", "10 years"];

fn level_text(rng: &mut Rng) -> String {
    let w: &str = *rng.pick(LEVELS);
    match rng.below(4) {
        0 => w.to_owned(),
        1 => w.to_ascii_uppercase(),
        2 => {
            let mut c = w.chars();
            let f = c.next().unwrap().to_ascii_uppercase();
            format!("{}{}", f, c.as_str())
        }
        _ => w.chars().map(|c| if rng.chance(1, 2) { c.to_ascii_uppercase() } else { c }).collect(),
    }
}

fn opt<T>(rng: &mut Rng, f: impl FnOnce(&mut Rng) -> T) -> Option<T> {
    if rng.chance(1, 2) {
        Some(f(rng))
    } else {
        None
    }
}

fn logger_name(rng: &mut Rng, allow_bad: bool) -> String {
    if allow_bad && rng.chance(1, 12) {
        return (*rng.pick(&["x:y", "", "x::", ":x", "x:::y"])).to_owned();
    }
    let depth = rng.range(1, 3);
    (0..depth).map(|_| (*rng.pick(COMPONENTS)).to_owned()).collect::<Vec<_>>().join("::")
}

fn refs(rng: &mut Rng, apps: &[App], ghost: bool) -> Vec<String> {
    let mut out = vec![];
    for a in apps {
        if rng.chance(1, 2) {
            out.push(a.name.clone());
        }
    }
    if !apps.is_empty() && rng.chance(1, 8) {
        out.push(rng.pick(apps).name.clone()); // attached twice
    }
    if ghost && rng.chance(1, 8) {
        out.push("ghost".to_owned());
    }
    rng.shuffle(&mut out);
    out
}

fn gen_enc(rng: &mut Rng) -> Enc {
    if rng.chance(1, 3) {
        Enc { kind_explicit: true, json: true, pattern: None }
    } else {
        Enc { kind_explicit: rng.chance(1, 2), json: false, pattern: if rng.chance(2, 3) { Some(rng.below(PATTERNS.len() as u64) as u8) } else { None } }
    }
}

/// integer-form boundary values: 0, 1 and one large value (TOML hands every integer to the visitor
/// as i64, YAML / JSON hand the non-negative ones as u64 — the visitors must agree on them)
fn boundary(rng: &mut Rng, large: u64) -> u64 {
    match rng.below(3) {
        0 => 0,
        1 => 1,
        _ => large,
    }
}

fn gen_trig(rng: &mut Rng, which: u64) -> Trig {
    match which {
        0 => Trig::Size(match rng.below(6) {
            // u64::MAX: a valid limit that TOML cannot write (its integers are i64)
            0 | 1 => {
                let large = if rng.chance(1, 3) { u64::MAX } else { i64::MAX as u64 };
                Sc::Int(boundary(rng, large) as i128)
            }
            2 => Sc::Int(rng.range(100_000, 1 << 40) as i128),
            _ => Sc::Str((*rng.pick(SIZES)).to_owned()),
        }),
        1 => Trig::Time(
            match rng.below(6) {
                0 | 1 => Sc::Int(boundary(rng, i64::MAX as u64) as i128),
                2 => Sc::Int(rng.range(1, 100_000) as i128),
                _ => Sc::Str((*rng.pick(INTERVALS)).to_owned()),
            },
            opt(rng, |r| r.chance(1, 2)),
            opt(rng, |r| if r.chance(1, 2) { boundary(r, i64::MAX as u64) } else { r.range(0, 100) }),
        ),
        _ => Trig::OnStartUp(opt(rng, |r| if r.chance(1, 2) { boundary(r, i64::MAX as u64) } else { r.range(1, 1000) })),
    }
}

fn gen_roll(rng: &mut Rng, window: bool) -> Roll {
    if window {
        let base = opt(rng, |r| if r.chance(1, 2) { boundary(r, u32::MAX as u64) } else { r.range(0, 3) });
        let mut count = if rng.chance(1, 2) { boundary(rng, u32::MAX as u64) } else { rng.range(0, 5) };
        // most configurations keep the window representable (base + count - 1 <= u32::MAX); an
        // unrepresentable one is a logical configuration whose appender cannot be built: it is
        // reported and dropped, by the document loader and by the programmatic builder alike
        if count > 0 && base.unwrap_or(0) + (count - 1) > u32::MAX as u64 && !rng.chance(1, 4) {
            count = u32::MAX as u64 - base.unwrap_or(0) + 1;
        }
        Roll::Window(base, count)
    } else {
        Roll::Delete
    }
}

fn gen_app(rng: &mut Rng, name: &str, idx: usize, kind: u8) -> App {
    let mut a = gen_app_raw(rng, name, idx, kind);
    // a trigger that really fires during the probes must not meet a window of billions of
    // archives (one rotation visits every index; that is C07's subject, not a config question)
    let may_roll = match &a.trig {
        Trig::Size(Sc::Int(n)) => *n < 100_000,
        Trig::OnStartUp(Some(0)) => true,
        _ => false,
    };
    if may_roll {
        if let Roll::Window(_, n) = &mut a.roll {
            if *n > 1000 {
                *n = 1;
            }
        }
    }
    a
}

fn gen_app_raw(rng: &mut Rng, name: &str, idx: usize, kind: u8) -> App {
    App {
        name: name.to_owned(),
        kind,
        filters: match rng.below(4) {
            0 => None,
            1 => Some(vec![]),
            2 => Some(vec![level_text(rng)]),
            _ => Some(vec![level_text(rng), level_text(rng)]),
        },
        path: if rng.chance(1, 6) { format!("l\u{f6}g {}/f.log", idx) } else { format!("f{}.log", idx) },
        // console appenders write for real (tty_only absent or false): the harness keeps fds 1 and 2
        // redirected while they do
        flag: opt(rng, |r| r.chance(1, 2)),
        enc: opt(rng, gen_enc),
        target: if kind == 0 { opt(rng, |r| r.chance(1, 2)) } else { None },
        policy_kind: rng.chance(1, 2),
        trig: {
            let w = rng.below(3);
            gen_trig(rng, w)
        },
        roll: {
            let w = rng.chance(1, 2);
            gen_roll(rng, w)
        },
    }
}

fn gen_cfg(rng: &mut Rng, max_apps: u64) -> Cfg {
    let n_apps = rng.range(0, max_apps) as usize;
    let mut pool: Vec<&str> = APP_NAMES.to_vec();
    rng.shuffle(&mut pool);
    let appenders: Vec<App> = (0..n_apps)
        .map(|i| {
            let kind = match rng.below(7) {
                0 => 0,
                1..=3 => 1,
                _ => 2,
            };
            gen_app(rng, pool[i], i, kind)
        })
        .collect();
    let n_loggers = rng.range(0, 4) as usize;
    let mut loggers: Vec<Lg> = vec![];
    for _ in 0..n_loggers {
        let name = logger_name(rng, true);
        if loggers.iter().any(|l| l.name == name) {
            continue;
        }
        loggers.push(Lg {
            name,
            level: level_text(rng),
            additive: opt(rng, |r| r.chance(1, 2)),
            appenders: opt(rng, |r| refs(r, &appenders, true)),
        });
    }
    Cfg {
        refresh: if rng.chance(1, 3) { Some((*rng.pick(REFRESH)).to_owned()) } else { None },
        root: if rng.chance(1, 6) { None } else { Some((opt(rng, level_text), opt(rng, |r| refs(r, &appenders, true)))) },
        loggers,
        appenders,
    }
}

fn gen_probes(rng: &mut Rng, cfg: &Cfg) -> Vec<(String, usize)> {
    let n = rng.range(0, 6);
    (0..n)
        .map(|_| {
            let t = if !cfg.loggers.is_empty() && rng.chance(1, 2) {
                let l = rng.pick(&cfg.loggers).name.clone();
                let l = if l.is_empty() || l.contains(' ') { "x".to_owned() } else { l };
                if rng.chance(1, 2) {
                    format!("{}::{}", l, rng.pick(COMPONENTS))
                } else {
                    l
                }
            } else {
                logger_name(rng, false)
            };
            (t, rng.range(1, 5) as usize)
        })
        .collect()
}

fn k(x: &str) -> Step {
    Step::Key(x.to_owned())
}

fn app_path(a: &App, rest: &[&str]) -> Vec<Step> {
    let mut p = vec![k("appenders"), k(&a.name)];
    p.extend(rest.iter().map(|x| k(x)));
    p
}

/// Every field name that is legal in SOME section, with a value of the type it has there. An
/// unknown-key injection uses the fresh name `zzz` and each of these names, wherever the name is
/// NOT a field of the target section (a helper shared between sections must not swallow another
/// section's reserved key).
fn foreign_keys() -> Vec<(&'static str, Vec<String>)> {
    let st = |x: &str| format!("S{}", enc_str(x));
    vec![
        ("kind", vec![st("x")]),
        ("filters", vec!["Qe".into(), "Qf".into(), "I7".into()]),
        ("appenders", vec!["Qe".into()]),
        ("level", vec![st("info")]),
        ("additive", vec!["B1".into()]),
        ("path", vec![st("p.log")]),
        ("append", vec!["B1".into()]),
        ("encoder", vec!["M".into()]),
        ("policy", vec!["M".into()]),
        ("trigger", vec!["M".into()]),
        ("roller", vec!["M".into()]),
        ("pattern", vec![st("{m}")]),
        ("base", vec!["I0".into()]),
        ("count", vec!["I1".into()]),
        ("limit", vec!["I1".into()]),
        ("interval", vec!["I1".into()]),
        ("modulate", vec!["B1".into()]),
        ("max_random_delay", vec!["I0".into()]),
        ("min_size", vec!["I1".into()]),
        ("target", vec![st("stdout")]),
        ("tty_only", vec!["B0".into()]),
        ("refresh_rate", vec![st("30s")]),
        ("root", vec!["M".into()]),
        ("loggers", vec!["M".into()]),
    ]
}

/// unknown-key injections for one denying section: `base` is the path of the section, `fields`
/// its own field names
fn unknown_keys(v: &mut Vec<(&'static str, Vec<Step>, String)>, base: &[Step], fields: &[&str]) {
    for (name, payloads) in foreign_keys() {
        if fields.contains(&name) {
            continue;
        }
        for p in payloads {
            let mut path = base.to_vec();
            path.push(k(name));
            v.push(("unk", path, p));
        }
    }
}

/// (class, path, payload) choices applicable to the configuration
fn injections(cfg: &Cfg) -> Vec<(&'static str, Vec<Step>, String)> {
    let mut v: Vec<(&'static str, Vec<Step>, String)> = vec![];
    let st = |x: &str| format!("S{}", enc_str(x));
    v.push(("unk", vec![k("zzz")], "I1".into()));
    unknown_keys(&mut v, &[], &["refresh_rate", "root", "appenders", "loggers"]);
    v.push(("typ", vec![k("refresh_rate")], "I30".into()));
    v.push(("typ", vec![k("refresh_rate")], st("30")));
    v.push(("typ", vec![k("refresh_rate")], st("1.5 fortnights")));
    // one nanosecond more than u64::MAX seconds and 999999999 ns: not representable
    v.push(("durmax", vec![k("refresh_rate")], st("18446744073709551615s 1000000000ns")));
    v.push(("durmax", vec![k("refresh_rate")], st("18446744073709551615s 999999999ns 1ns")));
    v.push(("typ", vec![k("appenders")], "Qi".into()));
    v.push(("typ", vec![k("loggers")], st("x")));
    v.push(("typ", vec![k("root")], "I1".into()));
    v.push(("seqs", vec![k("root")], "Qr".into()));
    // … at document level (JSON: a top-level array) and at logger level
    v.push(("seqs", vec![], "Qd".into()));
    for l in &cfg.loggers {
        v.push(("seqs", vec![k("loggers"), k(&l.name)], "Ql".into()));
    }
    // `null` where a section (not an Option field) is expected — the YAML way of writing an empty
    // section; TOML cannot write it, the key is then simply absent there. Only for keys the
    // logical configuration does not have.
    if cfg.root.is_none() {
        v.push(("nullsec", vec![k("root")], "N".into()));
    }
    if cfg.appenders.is_empty() {
        v.push(("nullsec", vec![k("appenders")], "N".into()));
    }
    if cfg.loggers.is_empty() {
        v.push(("nullsec", vec![k("loggers")], "N".into()));
    }
    if let Some((l, a)) = &cfg.root {
        if l.is_none() {
            v.push(("nullsec", vec![k("root"), k("level")], "N".into()));
        }
        if a.is_none() {
            v.push(("nullsec", vec![k("root"), k("appenders")], "N".into()));
        }
        // a duplicated key in a derived struct: serde's `duplicate field` (YAML, JSON), a parse error (TOML)
        v.push(("dupkey", vec![k("root")], "M".into()));
        if l.is_some() {
            v.push(("dupkey", vec![k("root"), k("level")], st("trace")));
        }
    }
    if cfg.refresh.is_some() {
        v.push(("dupkey", vec![k("refresh_rate")], st("5s")));
    }
    for l in &cfg.loggers {
        v.push(("dupkey", vec![k("loggers"), k(&l.name), k("level")], st("off")));
        if l.appenders.is_none() {
            v.push(("nullsec", vec![k("loggers"), k(&l.name), k("appenders")], "N".into()));
        }
        if l.additive.is_none() {
            v.push(("nullsec", vec![k("loggers"), k(&l.name), k("additive")], "N".into()));
        }
    }
    for a in &cfg.appenders {
        if a.filters.is_none() {
            v.push(("nullsec", app_path(a, &["filters"]), "N".into()));
        }
    }
    if cfg.refresh.is_none() {
        v.push(("null", vec![k("refresh_rate")], "N".into()));
    }
    if cfg.root.is_some() {
        v.push(("unk", vec![k("root"), k("zzz")], "I1".into()));
        unknown_keys(&mut v, &[k("root")], &["level", "appenders"]);
        v.push(("typ", vec![k("root"), k("level")], "I3".into()));
        v.push(("typ", vec![k("root"), k("level")], st("verbose")));
        v.push(("typ", vec![k("root"), k("appenders")], st("a")));
    }
    for l in &cfg.loggers {
        let p = |rest: &str| vec![k("loggers"), k(&l.name), k(rest)];
        v.push(("unk", p("zzz"), "B1".into()));
        unknown_keys(&mut v, &[k("loggers"), k(&l.name)], &["level", "appenders", "additive"]);
        v.push(("typ", p("additive"), st("true")));
        v.push(("typ", p("additive"), "I1".into()));
        v.push(("typ", p("level"), "Qi".into()));
        v.push(("typ", p("appenders"), "M".into()));
        v.push(("typ", vec![k("loggers"), k(&l.name)], st("x")));
        v.push(("miss", p("level"), "X".into()));
    }
    for a in &cfg.appenders {
        v.push(("unk", app_path(a, &["zzz"]), "I1".into()));
        unknown_keys(
            &mut v,
            &app_path(a, &[]),
            match a.kind {
                0 => &["kind", "filters", "target", "encoder", "tty_only"],
                1 => &["kind", "filters", "path", "encoder", "append"],
                _ => &["kind", "filters", "path", "append", "encoder", "policy"],
            },
        );
        v.push(("kind", app_path(a, &["kind"]), st("bogus")));
        v.push(("typ", app_path(a, &["kind"]), "I5".into()));
        v.push(("miss", app_path(a, &["kind"]), "X".into()));
        v.push(("typ", app_path(a, &["filters"]), "M".into()));
        v.push(("typ", app_path(a, &["encoder"]), "Qi".into()));
        v.push(("typ", vec![k("appenders"), k(&a.name)], "I1".into()));
        if a.enc.is_none() {
            v.push(("null", app_path(a, &["encoder"]), "N".into()));
        }
        if let Some(e) = &a.enc {
            v.push(("unk", app_path(a, &["encoder", "zzz"]), "I1".into()));
            unknown_keys(&mut v, &app_path(a, &["encoder"]), if e.json { &["kind"] } else { &["kind", "pattern"] });
            v.push(("kind", app_path(a, &["encoder", "kind"]), st("bogus")));
            v.push(("typ", app_path(a, &["encoder", "kind"]), "I1".into()));
            if !e.json {
                v.push(("typ", app_path(a, &["encoder", "pattern"]), "I1".into()));
                if e.pattern.is_none() {
                    v.push(("null", app_path(a, &["encoder", "pattern"]), "N".into()));
                }
            }
        }
        if let Some(fs) = &a.filters {
            for i in 0..fs.len() {
                let fp = |rest: Option<&str>| {
                    let mut p = app_path(a, &["filters"]);
                    p.push(Step::Idx(i));
                    if let Some(r) = rest {
                        p.push(k(r));
                    }
                    p
                };
                v.push(("unk", fp(Some("zzz")), "I1".into()));
                v.push(("kind", fp(Some("kind")), st("bogus")));
                v.push(("typ", fp(Some("kind")), "I5".into()));
                v.push(("miss", fp(Some("kind")), "X".into()));
                v.push(("typ", fp(Some("level")), "I3".into()));
                v.push(("typ", fp(Some("level")), st("loud")));
                v.push(("miss", fp(Some("level")), "X".into()));
                v.push(("typ", fp(None), "I1".into()));
            }
        }
        if a.kind == 0 {
            v.push(("typ", app_path(a, &["tty_only"]), "I1".into()));
            v.push(("typ", app_path(a, &["target"]), st("Stderr")));
        } else {
            v.push(("typ", app_path(a, &["path"]), "I5".into()));
            v.push(("miss", app_path(a, &["path"]), "X".into()));
            v.push(("badpath", app_path(a, &["path"]), "S_".into()));
            v.push(("typ", app_path(a, &["append"]), st("true")));
            if a.flag.is_none() {
                v.push(("null", app_path(a, &["append"]), "N".into()));
            }
        }
        if a.kind == 2 {
            v.push(("unk", app_path(a, &["policy", "zzz"]), "I1".into()));
            unknown_keys(&mut v, &app_path(a, &["policy"]), &["kind", "trigger", "roller"]);
            unknown_keys(
                &mut v,
                &app_path(a, &["policy", "trigger"]),
                match &a.trig {
                    Trig::Size(_) => &["kind", "limit"],
                    Trig::Time(..) => &["kind", "interval", "modulate", "max_random_delay"],
                    Trig::OnStartUp(_) => &["kind", "min_size"],
                },
            );
            unknown_keys(
                &mut v,
                &app_path(a, &["policy", "roller"]),
                match &a.roll {
                    Roll::Delete => &["kind"],
                    Roll::Window(..) => &["kind", "pattern", "base", "count"],
                },
            );
            v.push(("kind", app_path(a, &["policy", "kind"]), st("bogus")));
            v.push(("typ", app_path(a, &["policy"]), st("x")));
            v.push(("miss", app_path(a, &["policy"]), "X".into()));
            v.push(("miss", app_path(a, &["policy", "trigger"]), "X".into()));
            v.push(("miss", app_path(a, &["policy", "roller"]), "X".into()));
            v.push(("unk", app_path(a, &["policy", "trigger", "zzz"]), "I1".into()));
            v.push(("unk", app_path(a, &["policy", "roller", "zzz"]), "I1".into()));
            v.push(("kind", app_path(a, &["policy", "trigger", "kind"]), st("bogus")));
            v.push(("kind", app_path(a, &["policy", "roller", "kind"]), st("bogus")));
            v.push(("miss", app_path(a, &["policy", "trigger", "kind"]), "X".into()));
            v.push(("miss", app_path(a, &["policy", "roller", "kind"]), "X".into()));
            match &a.trig {
                Trig::Size(_) => {
                    v.push(("num", app_path(a, &["policy", "trigger", "limit"]), "I-5".into()));
                    v.push(("typ", app_path(a, &["policy", "trigger", "limit"]), "B1".into()));
                    v.push(("typ", app_path(a, &["policy", "trigger", "limit"]), st("10 parsecs")));
                    // string forms whose product does not fit u64: rejected, never wrapped or truncated
                    v.push(("num", app_path(a, &["policy", "trigger", "limit"]), st("16777216 tb")));
                    v.push(("num", app_path(a, &["policy", "trigger", "limit"]), st("18014398509481984 kb")));
                    v.push(("num", app_path(a, &["policy", "trigger", "limit"]), st("18446744073709551616")));
                    v.push(("miss", app_path(a, &["policy", "trigger", "limit"]), "X".into()));
                }
                Trig::Time(_, m, _) => {
                    let cls = if *m == Some(true) { "zeromod" } else { "zero" };
                    v.push((cls, app_path(a, &["policy", "trigger", "interval"]), "I0".into()));
                    v.push(("big", app_path(a, &["policy", "trigger", "interval"]), "I9223372036854775807".into()));
                    v.push(("num", app_path(a, &["policy", "trigger", "interval"]), "I-1".into()));
                    // string forms whose number does not fit i64: rejected, never wrapped
                    v.push(("num", app_path(a, &["policy", "trigger", "interval"]), st("9223372036854775808")));
                    v.push(("num", app_path(a, &["policy", "trigger", "interval"]), st("18446744073709551615 seconds")));
                    v.push(("num", app_path(a, &["policy", "trigger", "interval"]), st("9223372036854775808 days")));
                    v.push(("num", app_path(a, &["policy", "trigger", "max_random_delay"]), "I-1".into()));
                    v.push(("typ", app_path(a, &["policy", "trigger", "interval"]), st("1 fortnight")));
                    v.push(("typ", app_path(a, &["policy", "trigger", "modulate"]), st("yes")));
                }
                Trig::OnStartUp(_) => {
                    v.push(("num", app_path(a, &["policy", "trigger", "min_size"]), "I-1".into()));
                    v.push(("typ", app_path(a, &["policy", "trigger", "min_size"]), "F".into()));
                }
            }
            if let Roll::Window(b, _) = &a.roll {
                v.push(("num", app_path(a, &["policy", "roller", "count"]), "I-1".into()));
                v.push(("num", app_path(a, &["policy", "roller", "base"]), "I4294967296".into()));
                v.push(("num", app_path(a, &["policy", "roller", "count"]), "I4294967296".into()));
                v.push(("typ", app_path(a, &["policy", "roller", "count"]), st("3")));
                v.push(("miss", app_path(a, &["policy", "roller", "count"]), "X".into()));
                v.push(("ctor", app_path(a, &["policy", "roller", "pattern"]), st("nobraces.log")));
                if let Roll::Window(_, n) = &a.roll {
                    if *n >= 2 {
                        // last index of the window above u32::MAX: the builder refuses it
                        v.push(("ctor", app_path(a, &["policy", "roller", "base"]), "I4294967295".into()));
                    }
                }
                if b.is_none() {
                    v.push(("null", app_path(a, &["policy", "roller", "base"]), "N".into()));
                }
            }
        }
    }
    v
}

type InjSpec = (&'static str, Vec<Step>, String);

fn emit_multi(emit: &mut dyn FnMut(String), cfg: &Cfg, probes: &[(String, usize)], seed: u64, injs: &[InjSpec]) {
    let injs = injs.iter().map(|(c, p, e)| Inj { cls: (*c).to_owned(), path: p.clone(), payload: None, payload_enc: e.clone() }).collect();
    let c = Case { cfg: cfg.clone(), probes: probes.to_vec(), seed, injs };
    emit(enc_case(&c));
}

fn emit_case(emit: &mut dyn FnMut(String), cfg: &Cfg, probes: &[(String, usize)], seed: u64, inj: Option<&InjSpec>) {
    match inj {
        None => emit_multi(emit, cfg, probes, seed, &[]),
        Some(i) => emit_multi(emit, cfg, probes, seed, &[i.clone()]),
    }
}

fn same_step(a: &Step, b: &Step) -> bool {
    match (a, b) {
        (Step::Key(x), Step::Key(y)) => x == y,
        (Step::Idx(x), Step::Idx(y)) => x == y,
        _ => false,
    }
}

/// two injections can be applied together when neither sits at or below the other's target (the
/// second would then hit something the first removed or replaced) and neither touches the file
/// name or the document as a whole
fn compatible(a: &InjSpec, b: &InjSpec) -> bool {
    let n = a.1.len().min(b.1.len());
    let prefix = (0..n).all(|i| same_step(&a.1[i], &b.1[i]));
    // (`durmax` panics the parser: what else is wrong with the document is then seen or not
    // depending on the key order — it stays a single injection)
    let solo = ["ext", "seqs", "durmax"];
    !prefix && !solo.contains(&a.0) && !solo.contains(&b.0) && !a.1.is_empty() && !b.1.is_empty()
}

/// one configuration that has every section, for the deterministic injection block
fn full_cfg() -> Cfg {
    let mk = |name: &str, idx: usize, kind: u8, trig: Trig, roll: Roll, enc: Option<Enc>| App {
        name: name.to_owned(),
        kind,
        filters: Some(vec!["info".to_owned(), "TRACE".to_owned()]),
        path: format!("f{}.log", idx),
        flag: if kind == 0 { Some(true) } else { None },
        enc,
        target: if kind == 0 { Some(true) } else { None },
        policy_kind: false,
        trig,
        roll,
    };
    let p = Some(Enc { kind_explicit: false, json: false, pattern: Some(0) });
    let j = Some(Enc { kind_explicit: true, json: true, pattern: None });
    Cfg {
        refresh: None,
        root: Some((Some("info".into()), Some(vec!["a".into(), "r1".into()]))),
        loggers: vec![
            Lg { name: "x".into(), level: "debug".into(), additive: None, appenders: Some(vec!["r2".into(), "r3".into()]) },
            Lg { name: "x::y".into(), level: "Trace".into(), additive: Some(false), appenders: Some(vec!["a".into(), "r4".into()]) },
        ],
        appenders: vec![
            mk("a", 0, 1, Trig::OnStartUp(None), Roll::Delete, p.clone()),
            mk("c", 1, 0, Trig::OnStartUp(None), Roll::Delete, p.clone()),
            mk("r1", 2, 2, Trig::Size(Sc::Str("10 mb".into())), Roll::Window(None, 3), j),
            mk("r2", 3, 2, Trig::Time(Sc::Str("1 day".into()), Some(true), None), Roll::Delete, p.clone()),
            mk("r3", 4, 2, Trig::Time(Sc::Int(3600), None, Some(5)), Roll::Window(Some(1), 2), None),
            mk("r4", 5, 2, Trig::OnStartUp(Some(10)), Roll::Delete, Some(Enc { kind_explicit: true, json: false, pattern: None })),
        ],
    }
}

pub fn gen(rng: &mut Rng, n: usize, thorough: bool, emit: &mut dyn FnMut(String)) {
    // deterministic block: the full configuration, valid in several key orders, then with every
    // applicable injection
    let full = full_cfg();
    let full_probes: Vec<(String, usize)> = vec![
        ("x".into(), 3),
        ("x::y::z".into(), 5),
        ("x::z".into(), 4),
        ("q".into(), 3),
        ("q".into(), 4),
        ("x::y".into(), 1),
    ];
    for seed in [0u64, 1, 7, 123456789, 4294967295] {
        emit_case(emit, &full, &full_probes, seed, None);
    }
    let all = injections(&full);
    for (i, inj) in all.iter().enumerate() {
        emit_case(emit, &full, &full_probes, (i as u64) * 7919 + 3, Some(inj));
    }
    // integer-form boundary values of every numeric leaf, one rolling appender each, attached to
    // the root and probed
    {
        let mut variants: Vec<(Trig, Roll)> = vec![];
        // u64::MAX is valid for limit, min_size and max_random_delay; TOML cannot write it
        for v in [0u64, 1, i64::MAX as u64, u64::MAX] {
            if v == u64::MAX {
                variants.push((Trig::Size(Sc::Int(v as i128)), Roll::Delete));
                variants.push((Trig::OnStartUp(Some(v)), Roll::Delete));
                variants.push((Trig::Time(Sc::Int(5), Some(false), Some(v)), Roll::Delete));
                continue;
            }
            variants.push((Trig::Size(Sc::Int(v as i128)), Roll::Delete));
            variants.push((Trig::Size(Sc::Int(v as i128)), Roll::Window(None, 2)));
            variants.push((Trig::OnStartUp(Some(v)), Roll::Window(Some(1), 1)));
            variants.push((Trig::OnStartUp(Some(v)), Roll::Delete));
            variants.push((Trig::Time(Sc::Int(v as i128), Some(false), Some(v)), Roll::Delete));
            variants.push((Trig::Time(Sc::Int(v as i128), Some(true), None), Roll::Delete));
        }
        for b in [0u64, 1, u32::MAX as u64] {
            for n in [0u64, 1, u32::MAX as u64] {
                // (an unrepresentable window is kept: that appender cannot be built)
                variants.push((Trig::Size(Sc::Str("10 mb".into())), Roll::Window(Some(b), n)));
            }
        }
        for (i, (trig, roll)) in variants.into_iter().enumerate() {
            let cfg = Cfg {
                refresh: None,
                root: Some((Some("info".into()), Some(vec!["r".into()]))),
                loggers: vec![],
                appenders: vec![App {
                    name: "r".into(),
                    kind: 2,
                    filters: None,
                    path: "r.log".into(),
                    flag: None,
                    enc: Some(Enc { kind_explicit: false, json: false, pattern: Some((i % 3) as u8) }),
                    target: None,
                    policy_kind: i % 2 == 0,
                    trig,
                    roll,
                }],
            };
            emit_case(emit, &cfg, &[("x".into(), 3), ("y".into(), 2), ("z".into(), 5)], i as u64, None);
        }
    }
    // console appenders: every target × tty_only × encoder form, all of them attached to the root
    {
        let mut apps = vec![];
        let mut i = 0;
        for target in [None, Some(false), Some(true)] {
            for flag in [None, Some(false), Some(true)] {
                let enc = match i % 4 {
                    0 => None,
                    1 => Some(Enc { kind_explicit: true, json: true, pattern: None }),
                    2 => Some(Enc { kind_explicit: false, json: false, pattern: Some(1) }),
                    _ => Some(Enc { kind_explicit: true, json: false, pattern: None }),
                };
                apps.push(App {
                    name: format!("c{}", i),
                    kind: 0,
                    filters: if i % 2 == 0 { None } else { Some(vec!["warn".into()]) },
                    path: "_".into(),
                    flag,
                    enc,
                    target,
                    policy_kind: false,
                    trig: Trig::OnStartUp(None),
                    roll: Roll::Delete,
                });
                i += 1;
            }
        }
        let names: Vec<String> = apps.iter().map(|a| a.name.clone()).collect();
        let cfg = Cfg { refresh: Some("1h 30m".into()), root: Some((Some("trace".into()), Some(names))), loggers: vec![], appenders: apps };
        for seed in [0u64, 1, 2, 3] {
            emit_case(emit, &cfg, &[("x".into(), 3), ("y".into(), 1)], seed, None);
        }
        let all = injections(&cfg);
        for (i, inj) in all.iter().enumerate().filter(|(i, _)| i % 7 == 0) {
            emit_case(emit, &cfg, &[("x".into(), 3)], i as u64, Some(inj));
        }
    }
    // file names: the extension decides the format, case-sensitively
    for (i, fname) in ["cfg.yml", "cfg.yaml", "cfg.YAML", "cfg.Yml", "cfg", "cfg.", ".yaml", "cfg.yaml.bak", "cfg.txt", "a.b.yml", "cfg.ya ml"].iter().enumerate() {
        let inj: InjSpec = ("ext", vec![], format!("S{}", enc_str(fname)));
        emit_case(emit, &full, &full_probes, i as u64, Some(&inj));
    }
    // pairs of simultaneous defects in the full configuration: two broken appenders, a broken filter
    // inside a broken appender, an appender-level defect together with a document-level one, …
    {
        let a_kind: InjSpec = ("kind", vec![k("appenders"), k("a"), k("kind")], format!("S{}", enc_str("bogus")));
        let a_path: InjSpec = ("miss", vec![k("appenders"), k("a"), k("path")], "X".into());
        let a_f0: InjSpec = ("typ", vec![k("appenders"), k("a"), k("filters"), Step::Idx(0), k("level")], "I3".into());
        let a_f1: InjSpec = ("kind", vec![k("appenders"), k("a"), k("filters"), Step::Idx(1), k("kind")], format!("S{}", enc_str("bogus")));
        let a_f1env: InjSpec = ("miss", vec![k("appenders"), k("a"), k("filters"), Step::Idx(1), k("kind")], "X".into());
        let r1_roll: InjSpec = ("unk", vec![k("appenders"), k("r1"), k("policy"), k("roller"), k("filters")], "Qe".into());
        let r2_trig: InjSpec = ("num", vec![k("appenders"), k("r2"), k("policy"), k("trigger"), k("interval")], "I-1".into());
        let r2_zero: InjSpec = ("zeromod", vec![k("appenders"), k("r2"), k("policy"), k("trigger"), k("interval")], "I0".into());
        let root_unk: InjSpec = ("unk", vec![k("root"), k("zzz")], "I1".into());
        let a_env: InjSpec = ("miss", vec![k("appenders"), k("a"), k("kind")], "X".into());
        let pairs: Vec<Vec<InjSpec>> = vec![
            vec![a_kind.clone(), r1_roll.clone()],
            vec![a_path.clone(), r2_trig.clone()],
            vec![a_f0.clone(), a_f1.clone()],
            vec![a_f0.clone(), a_path.clone()],
            vec![a_f1.clone(), a_kind.clone()],
            vec![a_f1env.clone(), a_path.clone()],
            vec![a_f0.clone(), a_env.clone()],
            vec![a_kind.clone(), root_unk.clone()],
            vec![r1_roll.clone(), r2_zero.clone()],
            vec![a_f0.clone(), r2_zero.clone()],
            vec![a_kind.clone(), r1_roll.clone(), r2_trig.clone()],
        ];
        for (i, p) in pairs.iter().enumerate() {
            emit_multi(emit, &full, &full_probes, i as u64 * 31 + 5, p);
        }
    }
    // the empty document
    emit_case(emit, &Cfg { refresh: None, root: None, loggers: vec![], appenders: vec![] }, &[], 0, None);
    // random stream
    let max_apps = if thorough { 5 } else { 4 };
    for _ in 0..n {
        let cfg = gen_cfg(rng, max_apps);
        let probes = gen_probes(rng, &cfg);
        let seed = rng.below(1 << 32);
        if rng.chance(2, 5) {
            emit_case(emit, &cfg, &probes, seed, None);
        } else {
            // class first, so that rare classes (zeromod, big, ctor, badpath, null, seqs) are as
            // frequent as the common ones
            let inj = injections(&cfg);
            let mut classes: Vec<&'static str> = inj.iter().map(|x| x.0).collect();
            classes.sort();
            classes.dedup();
            let cls = *rng.pick(&classes);
            let of_cls: Vec<_> = inj.into_iter().filter(|x| x.0 == cls).collect();
            let pick = rng.pick(&of_cls).clone();
            // one time in four a second, independent defect in the same document
            let second: Vec<InjSpec> = if rng.chance(1, 4) {
                let all = injections(&cfg);
                let cands: Vec<_> = all.into_iter().filter(|x| compatible(x, &pick)).collect();
                if cands.is_empty() { vec![] } else { vec![rng.pick(&cands).clone()] }
            } else {
                vec![]
            };
            let mut both = vec![pick];
            both.extend(second);
            emit_multi(emit, &cfg, &probes, seed, &both);
        }
    }
}

/// child-process entry point (`verif-harness child c14 …`), for checks that need process-global state
pub fn child(_args: &[String]) -> i32 {
    2
}
