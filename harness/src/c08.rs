//! C08 — failed / interrupted rotations of the real RollingFileAppender + CompoundPolicy +
//! FixedWindowRoller, with a scripted trigger.
//! case: mode(1 append|0 truncate) pre(0|1) pattern base count file init(path:bytes,…)
//!       ops(a:<bytes>:<0|1> | r | o | u ,…) faults(n:k,…) crash(-|n:k)
//! observation: per op `res|boundaries|final` joined by `/` (see lean/Driver/C08.lean).
//!  * faults: `verif_hooks::set_rotate_point` callback returns Err at the k-th step of the n-th
//!    rotation attempt; `o`/`u` place/remove a non-empty directory at the top archive name (a real
//!    filesystem failure of the first shift / of the final move when count = 1).
//!  * crash: at the k-th step boundary of the n-th attempt the directory is copied (crash image);
//!    the rest of the history runs on the image with a FRESH appender.
//!  * `p` … `v`: in between, everything the appender does runs under the effective uid 65534, which
//!    owns the log file and the directory `arch/` of the archives but may not modify the directory
//!    of the log file (root-owned, 0755): a REAL failure inside the final step — `rename` is refused,
//!    the copy fallback succeeds, the source cannot be removed. Needs a harness running as root.
//!  * step number 4294967294 (the argument `u32::MAX - 1` of the hook point between the compressing
//!    copy and the removal of its source) in `faults` / `crash`: fault / crash image INSIDE the final
//!    step of a compressing pattern.
use crate::c07::{compress_for, decompress_for, n_threads, quiet_stdout, run_with_timeout, scratch_dir, snapshot_canon, wait_quiescent, write_file};
use crate::proto::*;
use crate::rng::Rng;
use log4rs::append::rolling_file::policy::compound::{
    roll::fixed_window::FixedWindowRoller,
    trigger::{size::SizeTrigger, Trigger},
    CompoundPolicy,
};
use log4rs::append::rolling_file::{LogFile, RollingFileAppender};
use log4rs::append::Append;
use log4rs::encode::pattern::PatternEncoder;
use std::path::{Path, PathBuf};
use std::sync::atomic::{AtomicBool, Ordering};
use std::sync::{Arc, Mutex};

#[derive(Debug)]
struct ScriptTrigger {
    pre: bool,
    answer: Arc<AtomicBool>,
}

impl Trigger for ScriptTrigger {
    fn trigger(&self, _file: &LogFile) -> anyhow::Result<bool> {
        Ok(self.answer.load(Ordering::SeqCst))
    }
    fn is_pre_process(&self) -> bool {
        self.pre
    }
}

struct Hook {
    root: PathBuf,
    image: PathBuf,
    step: usize,
    boundaries: Vec<String>,
    fail_at: Option<usize>,
    crash_at: Option<usize>,
    crash_on_completion: bool,
    crashed: bool,
    /// fail / die at the hook point inside the compressing final step
    fail_mid: bool,
    crash_mid: bool,
}

/// recursive snapshot as `c07::snapshot`, but a symbolic link to a directory is followed (op `x`:
/// `arch/` lives on another filesystem)
fn walk_follow(root: &Path, dir: &Path, out: &mut Vec<(String, Vec<u8>)>) {
    let rd = match std::fs::read_dir(dir) {
        Ok(r) => r,
        Err(_) => return,
    };
    for e in rd.flatten() {
        let p = e.path();
        if p.is_dir() {
            walk_follow(root, &p, out);
        } else {
            let rel = p.strip_prefix(root).unwrap().to_string_lossy().replace('\\', "/");
            let data = std::fs::read(&p).unwrap_or_default();
            let data = decompress_for(&rel, data);
            out.push((rel, data));
        }
    }
}

fn snapshot(root: &Path) -> String {
    let mut v = Vec::new();
    walk_follow(root, root, &mut v);
    v.sort();
    let xs: Vec<String> = v.iter().map(|(p, b)| format!("{}:{}", enc_str(p), enc_bytes(b))).collect();
    enc_list(",", &xs)
}

/// a directory on a filesystem other than the scratch directory's, if there is one (`/dev/shm`)
fn other_filesystem(root: &Path) -> Option<PathBuf> {
    use std::os::unix::fs::MetadataExt;
    let shm = Path::new("/dev/shm");
    let a = std::fs::metadata(shm).ok()?.dev();
    let b = std::fs::metadata(root).ok()?.dev();
    if a == b {
        return None;
    }
    let d = shm.join(format!("verif-{}", root.file_name()?.to_string_lossy()));
    let _ = std::fs::remove_dir_all(&d);
    std::fs::create_dir_all(&d).ok()?;
    Some(d)
}

/// op `x`: `arch/` becomes a symbolic link to a directory on another filesystem (what is in it
/// moves along): `rename` of the log file into it fails with EXDEV and `move_file` takes its
/// copy + remove fallback — successfully
fn cross_mount(root: &Path) -> Option<PathBuf> {
    let arch = root.join("arch");
    if std::fs::symlink_metadata(&arch).map(|m| m.file_type().is_symlink()).unwrap_or(false) {
        return std::fs::read_link(&arch).ok();
    }
    let other = other_filesystem(root)?;
    if arch.is_dir() {
        copy_dir(&arch, &other);
        let _ = std::fs::remove_dir_all(&arch);
    }
    std::os::unix::fs::symlink(&other, &arch).ok()?;
    Some(other)
}

const MID: usize = (u32::MAX - 1) as usize;
const NOBODY: u32 = 65534;

/// effective uid of the process for the lifetime of the value (restored on every path, unwinding
/// included); glibc applies `seteuid` to all threads
struct Euid(bool);

impl Euid {
    fn drop_to(uid: u32, active: bool) -> Euid {
        if active && unsafe { libc::seteuid(uid) } == 0 {
            Euid(true)
        } else {
            Euid(false)
        }
    }
}

impl Drop for Euid {
    fn drop(&mut self) {
        if self.0 {
            unsafe {
                libc::seteuid(0);
            }
        }
    }
}

fn chown_path(p: &Path, uid: u32) {
    use std::os::unix::ffi::OsStrExt;
    if let Ok(c) = std::ffi::CString::new(p.as_os_str().as_bytes()) {
        unsafe {
            libc::lchown(c.as_ptr(), uid, uid);
        }
    }
}

fn chown_tree(p: &Path, uid: u32) {
    chown_path(p, uid);
    if let Ok(rd) = std::fs::read_dir(p) {
        for e in rd.flatten() {
            let q = e.path();
            if q.is_dir() {
                chown_tree(&q, uid);
            } else {
                chown_path(&q, uid);
            }
        }
    }
}

/// the scene of `p`: the directory of the log file belongs to root (0755), the log file and the
/// archive directory `arch/` (with everything in it) to uid 65534
fn protect(root: &Path, file: &str) -> bool {
    use std::os::unix::fs::PermissionsExt;
    if unsafe { libc::geteuid() } != 0 {
        return false;
    }
    chown_path(root, 0);
    let _ = std::fs::set_permissions(root, std::fs::Permissions::from_mode(0o755));
    let _ = std::fs::create_dir_all(root.join("arch"));
    chown_tree(&root.join("arch"), NOBODY);
    if let Ok(target) = std::fs::read_link(root.join("arch")) {
        chown_tree(&target, NOBODY);
    }
    // the log file is part of the scene: a process that may not modify the directory could not
    // create it
    if !root.join(file).exists() {
        let _ = std::fs::write(root.join(file), b"");
    }
    chown_path(&root.join(file), NOBODY);
    // the scene only exists if uid 65534 can reach it: a scratch directory below a directory that is
    // closed to others (e.g. a checkout under /root, mode 0700) is out of its reach, every operation of
    // the appender would fail before the rotation — that is the environment, not the crate
    let reachable = {
        let _uid = Euid::drop_to(NOBODY, true);
        _uid.0
            && std::fs::OpenOptions::new().append(true).open(root.join(file)).is_ok()
            && std::fs::read_dir(root.join("arch")).is_ok()
    };
    if !reachable {
        chown_tree(&root.join("arch"), 0);
        chown_path(&root.join(file), 0);
    }
    reachable
}

fn copy_dir(src: &Path, dst: &Path) {
    let _ = std::fs::create_dir_all(dst);
    if let Ok(rd) = std::fs::read_dir(src) {
        for e in rd.flatten() {
            let p = e.path();
            let q = dst.join(e.file_name());
            if p.is_dir() {
                copy_dir(&p, &q);
            } else {
                let _ = std::fs::copy(&p, &q);
            }
        }
    }
}

#[derive(Clone)]
enum Op {
    Append(String, bool),
    Restart,
    Obstacle,
    Unobstacle,
    /// background rotation only: wait until no rotation thread is left, then snapshot
    Quiesce,
    Protect,
    Unprotect,
    /// `arch/` moves to another filesystem
    CrossMount,
}

struct Setup {
    mode: bool,
    /// `Some(limit)`: the real `SizeTrigger` (post-process) instead of the scripted trigger
    size: Option<u64>,
    pre: bool,
    pattern: String,
    base: u32,
    count: u32,
    file: String,
}

fn build(root: &Path, s: &Setup, answer: &Arc<AtomicBool>) -> Result<RollingFileAppender, ()> {
    let roller = FixedWindowRoller::builder()
        .base(s.base)
        .build(&format!("{}/{}", root.display(), s.pattern), s.count)
        .map_err(|_| ())?;
    let trigger: Box<dyn Trigger> = match s.size {
        Some(limit) => Box::new(SizeTrigger::new(limit)),
        None => Box::new(ScriptTrigger { pre: s.pre, answer: answer.clone() }),
    };
    let policy = CompoundPolicy::new(trigger, Box::new(roller));
    RollingFileAppender::builder()
        .append(s.mode)
        .encoder(Box::new(PatternEncoder::new("{m}")))
        .build(root.join(&s.file), Box::new(policy))
        .map_err(|_| ())
}

fn parse_pairs(s: &str) -> Option<Vec<(usize, usize)>> {
    dec_list(',', s)
        .iter()
        .map(|e| {
            let mut it = e.split(':');
            match (it.next().and_then(|x| x.parse().ok()), it.next().and_then(|x| x.parse().ok()), it.next()) {
                (Some(a), Some(b), None) => Some((a, b)),
                _ => None,
            }
        })
        .collect()
}

pub fn exec(fields: &[&str]) -> String {
    // `… @bg`: the case is executed by the harness built with `background_rotation`
    let bg = fields.len() == 11 && fields[10] == "@bg";
    if fields.len() != 10 && !bg {
        return "bad-case".to_owned();
    }
    let setup = match (
        fields[0],
        fields[1],
        dec_str(fields[2]),
        fields[3].parse::<u32>(),
        fields[4].parse::<u32>(),
        dec_str(fields[5]),
    ) {
        (m @ ("0" | "1"), p, Some(pattern), Ok(base), Ok(count), Some(file)) if count > 0 && pattern.contains("{}") => {
            // trigger field: 0 / 1 = scripted post- / pre-process trigger, s<limit> = SizeTrigger
            let size = p.strip_prefix('s').and_then(|l| l.parse::<u64>().ok());
            if size.is_none() && p != "0" && p != "1" {
                return "bad-case".to_owned();
            }
            if size.is_some() && !bg {
                return "bad-case".to_owned();
            }
            Setup { mode: m == "1", size, pre: p == "1", pattern, base, count, file }
        }
        _ => return "bad-case".to_owned(),
    };
    let mut init: Vec<(String, Vec<u8>)> = vec![];
    for e in dec_list(',', fields[6]) {
        let mut it = e.splitn(2, ':');
        match (it.next().and_then(dec_str), it.next().and_then(dec_bytes)) {
            (Some(p), Some(b)) => init.push((p, b)),
            _ => return "bad-case".to_owned(),
        }
    }
    let mut ops: Vec<Op> = vec![];
    for e in dec_list(',', fields[7]) {
        let parts: Vec<&str> = e.split(':').collect();
        match parts.as_slice() {
            ["r"] => ops.push(Op::Restart),
            ["o"] => ops.push(Op::Obstacle),
            ["u"] => ops.push(Op::Unobstacle),
            ["q"] => ops.push(Op::Quiesce),
            ["p"] => ops.push(Op::Protect),
            ["v"] => ops.push(Op::Unprotect),
            ["x"] => ops.push(Op::CrossMount),
            ["a", b, t] => match (dec_bytes(b).and_then(|b| String::from_utf8(b).ok()), *t) {
                (Some(s), "0") => ops.push(Op::Append(s, false)),
                (Some(s), "1") => ops.push(Op::Append(s, true)),
                _ => return "bad-case".to_owned(),
            },
            _ => return "bad-case".to_owned(),
        }
    }
    let faults = match parse_pairs(fields[8]) {
        Some(f) => f,
        None => return "bad-case".to_owned(),
    };
    let crash: Option<(usize, usize)> = if fields[9] == "-" {
        None
    } else {
        match parse_pairs(fields[9]) {
            Some(v) if v.len() == 1 => Some(v[0]),
            _ => return "bad-case".to_owned(),
        }
    };

    let has_protect = ops.iter().any(|o| matches!(o, Op::Protect | Op::Unprotect | Op::CrossMount));
    if ops.iter().any(|o| matches!(o, Op::CrossMount)) && (crash.is_some() || !setup.pattern.starts_with("arch/")) {
        return "bad-case".to_owned();
    }
    if bg && has_protect {
        return "bad-case".to_owned();
    }
    if ops.iter().any(|o| matches!(o, Op::Protect)) && (crash.is_some() || !setup.pattern.starts_with("arch/")) {
        return "bad-case".to_owned();
    }
    if bg {
        return exec_bg(&setup, &init, &ops, &faults, crash);
    }
    let mut root = scratch_dir("c08");
    let image = scratch_dir("c08img");
    for (p, b) in &init {
        if write_file(&root, p, &compress_for(p, b)).is_err() {
            let _ = std::fs::remove_dir_all(&root);
            let _ = std::fs::remove_dir_all(&image);
            return "bad-case".to_owned();
        }
    }
    let hook = Arc::new(Mutex::new(Hook {
        root: root.clone(),
        image: image.clone(),
        step: 0,
        boundaries: vec![],
        fail_at: None,
        crash_at: None,
        crash_on_completion: false,
        crashed: false,
        fail_mid: false,
        crash_mid: false,
    }));
    {
        let h = hook.clone();
        log4rs::verif_hooks::set_rotate_point(Some(Arc::new(move |i: u32| {
            let mut h = h.lock().unwrap();
            // the point between a compressing copy and the removal of its source: not a step
            // boundary (no snapshot), but a place to die or to fail when the case says so
            if i == u32::MAX - 1 {
                if h.crashed {
                    return Err(std::io::Error::new(std::io::ErrorKind::Other, "process is dead"));
                }
                if h.crash_mid {
                    copy_dir(&h.root.clone(), &h.image.clone());
                    h.crashed = true;
                    return Err(std::io::Error::new(std::io::ErrorKind::Other, "crash"));
                }
                if h.fail_mid {
                    return Err(std::io::Error::new(std::io::ErrorKind::Other, "injected fault"));
                }
                return Ok(());
            }
            let snap = snapshot(&h.root);
            h.boundaries.push(snap);
            let k = h.step;
            h.step += 1;
            if h.crashed {
                return Err(std::io::Error::new(std::io::ErrorKind::Other, "process is dead"));
            }
            if h.crash_at == Some(k) {
                copy_dir(&h.root.clone(), &h.image.clone());
                h.crashed = true;
                return Err(std::io::Error::new(std::io::ErrorKind::Other, "crash"));
            }
            if h.fail_at == Some(k) {
                return Err(std::io::Error::new(std::io::ErrorKind::Other, "injected fault"));
            }
            Ok(())
        })));
        let h2 = hook.clone();
        log4rs::verif_hooks::set_critical_section_point(Some(Arc::new(move |tag: &str| {
            if tag == "rolling:between-policy-and-write" {
                let mut h = h2.lock().unwrap();
                if h.crash_on_completion && !h.crashed && h.step > 0 {
                    copy_dir(&h.root.clone(), &h.image.clone());
                    h.crashed = true;
                }
            }
        })));
    }

    let answer = Arc::new(AtomicBool::new(false));
    let n_steps = setup.count as usize;
    let top_name = format!("{}", setup.pattern.replace("{}", &(setup.base as u64 + setup.count as u64 - 1).to_string()));
    let mut out: Vec<String> = vec![];
    let mut attempts = 0usize;
    let mut prot = false;
    let mut others: Vec<PathBuf> = vec![];
    let mut appender = match quiet_stdout(|| guarded(std::panic::AssertUnwindSafe(|| build(&root, &setup, &answer)))) {
        Ok(Ok(a)) => {
            out.push(format!("rs:ok|-|{}", snapshot(&root)));
            Some(a)
        }
        _ => {
            out.push(format!("rs:err|-|{}", snapshot(&root)));
            None
        }
    };
    for op in &ops {
        match op {
            Op::Protect => {
                if protect(&root, &setup.file) {
                    prot = true;
                    out.push(format!("p|-|{}", snapshot(&root)));
                } else {
                    out.push(format!("p:unavailable|-|{}", snapshot(&root)));
                }
            }
            Op::Unprotect => {
                prot = false;
                out.push(format!("v|-|{}", snapshot(&root)));
            }
            Op::CrossMount => match cross_mount(&root) {
                Some(o) => {
                    if prot {
                        chown_tree(&o, NOBODY);
                    }
                    if !others.contains(&o) {
                        others.push(o);
                    }
                    out.push(format!("x|-|{}", snapshot(&root)));
                }
                None => out.push(format!("x:unavailable|-|{}", snapshot(&root))),
            },
            Op::Restart => {
                drop(appender.take());
                let _uid = Euid::drop_to(NOBODY, prot);
                appender = match quiet_stdout(|| guarded(std::panic::AssertUnwindSafe(|| build(&root, &setup, &answer)))) {
                    Ok(Ok(a)) => {
                        out.push(format!("rs:ok|-|{}", snapshot(&root)));
                        Some(a)
                    }
                    _ => {
                        out.push(format!("rs:err|-|{}", snapshot(&root)));
                        None
                    }
                };
            }
            Op::Obstacle => {
                let top = root.join(&top_name);
                if top.exists() {
                    out.push(format!("o:skip|-|{}", snapshot(&root)));
                } else {
                    let _ = std::fs::create_dir_all(&top);
                    let _ = std::fs::write(top.join("obstacle"), b"x");
                    out.push(format!("o:placed|-|{}", snapshot(&root)));
                }
            }
            Op::Unobstacle => {
                let top = root.join(&top_name);
                if top.is_dir() {
                    let _ = std::fs::remove_dir_all(&top);
                }
                out.push(format!("u|-|{}", snapshot(&root)));
            }
            Op::Quiesce => out.push(format!("q|-|{}", snapshot(&root))),
            Op::Append(msg, ans) => {
                answer.store(*ans, Ordering::SeqCst);
                let mut crash_here: Option<usize> = None;
                {
                    let mut h = hook.lock().unwrap();
                    h.step = 0;
                    h.boundaries.clear();
                    h.fail_at = None;
                    h.crash_at = None;
                    h.crash_on_completion = false;
                    h.fail_mid = false;
                    h.crash_mid = false;
                    if *ans {
                        let n = attempts;
                        attempts += 1;
                        h.fail_at = faults.iter().filter(|f| f.0 == n && f.1 < n_steps).map(|f| f.1).min();
                        h.fail_mid = faults.contains(&(n, MID));
                        if let Some((cn, k)) = crash {
                            if cn == n && k == MID {
                                h.crash_mid = true;
                            } else if cn == n {
                                crash_here = Some(k);
                                if k < n_steps {
                                    h.crash_at = Some(k);
                                } else {
                                    h.crash_on_completion = true;
                                }
                            }
                        }
                    }
                }
                let res = match &appender {
                    None => "no-appender".to_owned(),
                    Some(a) => {
                        let _uid = Euid::drop_to(NOBODY, prot);
                        let r = quiet_stdout(|| {
                            guarded(std::panic::AssertUnwindSafe(|| {
                                a.append(
                                    &log::Record::builder()
                                        .level(log::Level::Info)
                                        .args(format_args!("{}", msg))
                                        .build(),
                                )
                            }))
                        });
                        match r {
                            Ok(Ok(())) => "ok".to_owned(),
                            Ok(Err(_)) => "err".to_owned(),
                            Err(_) => "PANIC".to_owned(),
                        }
                    }
                };
                let (mut crashed, bs) = {
                    let h = hook.lock().unwrap();
                    (h.crashed, if h.boundaries.is_empty() { "-".to_owned() } else { h.boundaries.join(";") })
                };
                // death right after the last step, post-process trigger: nothing happens between the
                // roll and the return of append, so the image is the directory as it is now
                if !crashed && !setup.pre && crash_here.map_or(false, |k| k >= n_steps) && res == "ok" {
                    copy_dir(&root, &image);
                    crashed = true;
                    hook.lock().unwrap().crashed = true;
                }
                if crashed {
                    out.push(format!("crash|{}|{}", bs, snapshot(&image)));
                    // the old process is gone: forget its appender, continue on the image
                    drop(appender.take());
                    let _ = std::fs::remove_dir_all(&root);
                    root = image.clone();
                    {
                        let mut h = hook.lock().unwrap();
                        h.root = root.clone();
                        h.crashed = false;
                        h.crash_at = None;
                        h.crash_on_completion = false;
                    }
                    appender = match quiet_stdout(|| guarded(std::panic::AssertUnwindSafe(|| build(&root, &setup, &answer)))) {
                        Ok(Ok(a)) => {
                            out.push(format!("rs:ok|-|{}", snapshot(&root)));
                            Some(a)
                        }
                        _ => {
                            out.push(format!("rs:err|-|{}", snapshot(&root)));
                            None
                        }
                    };
                } else {
                    out.push(format!("{}|{}|{}", res, bs, snapshot(&root)));
                }
            }
        }
    }
    drop(appender.take());
    log4rs::verif_hooks::set_rotate_point(None);
    log4rs::verif_hooks::set_critical_section_point(None);
    let _ = std::fs::remove_dir_all(&root);
    let _ = std::fs::remove_dir_all(&image);
    for o in &others {
        let _ = std::fs::remove_dir_all(o);
    }
    enc_list("/", &out)
}

/// Background rotation (`@bg`): appends go on while the rotation thread archives the renamed file.
/// Per append only the result is observed; `q` waits for quiescence and snapshots (temp names
/// canonicalised). The hook runs in the rotation thread: it recognises the start of a rotation by
/// its first argument, sleeps a little (overlap), injects the fault of the (rotation, step), or
/// copies the directory (crash image) and aborts. A crash is only offered for post-process
/// triggers: the harness then waits right after that append, so the image is deterministic.
fn exec_bg(
    setup: &Setup,
    init: &[(String, Vec<u8>)],
    ops: &[Op],
    faults: &[(usize, usize)],
    crash: Option<(usize, usize)>,
) -> String {
    struct BgHook {
        root: PathBuf,
        image: PathBuf,
        rot: isize,
        step: usize,
        crashed: bool,
    }
    let mut root = scratch_dir("c08bg");
    let image = scratch_dir("c08bgimg");
    for (p, b) in init {
        if write_file(&root, p, &compress_for(p, b)).is_err() {
            let _ = std::fs::remove_dir_all(&root);
            let _ = std::fs::remove_dir_all(&image);
            return "bad-case".to_owned();
        }
    }
    let first_arg: u32 = if setup.count >= 2 { setup.base + setup.count - 2 } else { u32::MAX };
    let top_name = setup.pattern.replace("{}", &(setup.base as u64 + setup.count as u64 - 1).to_string());
    let hook = Arc::new(Mutex::new(BgHook { root: root.clone(), image: image.clone(), rot: -1, step: 0, crashed: false }));
    {
        let h = hook.clone();
        let faults: Vec<(usize, usize)> = faults.to_vec();
        log4rs::verif_hooks::set_rotate_point(Some(Arc::new(move |i: u32| {
            if i == u32::MAX - 1 {
                return Ok(());
            }
            std::thread::sleep(std::time::Duration::from_micros(400));
            let mut h = h.lock().unwrap();
            if i == first_arg {
                h.rot += 1;
                h.step = 0;
            }
            let (n, k) = (h.rot as usize, h.step);
            h.step += 1;
            if crash == Some((n, k)) && !h.crashed {
                copy_dir(&h.root.clone(), &h.image.clone());
                h.crashed = true;
                return Err(std::io::Error::new(std::io::ErrorKind::Other, "crash"));
            }
            if faults.contains(&(n, k)) {
                return Err(std::io::Error::new(std::io::ErrorKind::Other, "injected fault"));
            }
            Ok(())
        })));
    }
    let baseline = n_threads();
    let answer = Arc::new(AtomicBool::new(false));
    let out = quiet_stdout(|| {
        let mut out: Vec<String> = vec![];
        let mut attempts = 0usize;
        let start = |root: &Path, out: &mut Vec<String>| -> Option<Arc<RollingFileAppender>> {
            match guarded(std::panic::AssertUnwindSafe(|| build(root, setup, &answer))) {
                Ok(Ok(a)) => {
                    out.push(format!("rs:ok|-|{}", snapshot_canon(root, &setup.file)));
                    Some(Arc::new(a))
                }
                _ => {
                    out.push(format!("rs:err|-|{}", snapshot_canon(root, &setup.file)));
                    None
                }
            }
        };
        let mut appender = start(&root, &mut out);
        let mut hung = false;
        for op in ops {
            if hung {
                // an append never returned (it holds the appender's lock): nothing later can run
                out.push("HANG|-|-".to_owned());
                continue;
            }
            match op {
                Op::Restart => {
                    wait_quiescent(baseline);
                    drop(appender.take());
                    appender = start(&root, &mut out);
                }
                Op::Protect | Op::Unprotect | Op::CrossMount => {}
                Op::Quiesce => {
                    let ok = wait_quiescent(baseline);
                    out.push(format!("{}|-|{}", if ok { "q" } else { "TIMEOUT" }, snapshot_canon(&root, &setup.file)));
                }
                Op::Obstacle => {
                    // placed at a quiescent point; it then stays in the way of the rotation threads
                    // of the following appends
                    wait_quiescent(baseline);
                    let top = root.join(&top_name);
                    if top.exists() {
                        out.push(format!("o:skip|-|{}", snapshot_canon(&root, &setup.file)));
                    } else {
                        let _ = std::fs::create_dir_all(&top);
                        let _ = std::fs::write(top.join("obstacle"), b"x");
                        out.push(format!("o:placed|-|{}", snapshot_canon(&root, &setup.file)));
                    }
                }
                Op::Unobstacle => {
                    wait_quiescent(baseline);
                    let top = root.join(&top_name);
                    if top.is_dir() {
                        let _ = std::fs::remove_dir_all(&top);
                    }
                    out.push(format!("u|-|{}", snapshot_canon(&root, &setup.file)));
                }
                Op::Append(msg, ans) => {
                    answer.store(*ans, Ordering::SeqCst);
                    let crash_here = *ans && crash.map_or(false, |(n, _)| n == attempts);
                    if *ans {
                        attempts += 1;
                    }
                    let res = match &appender {
                        None => "no-appender".to_owned(),
                        Some(a) => {
                            // on a thread of its own: a rotation thread that died before setting
                            // `ready` makes the next roll (inside append) wait for ever
                            let (a2, m2) = (a.clone(), msg.clone());
                            let r = run_with_timeout(30, move || {
                                guarded(std::panic::AssertUnwindSafe(|| {
                                    a2.append(&log::Record::builder().level(log::Level::Info).args(format_args!("{}", m2)).build())
                                }))
                            });
                            match r {
                                Some(Ok(Ok(()))) => "ok".to_owned(),
                                Some(Ok(Err(_))) => "err".to_owned(),
                                Some(Err(_)) => "PANIC".to_owned(),
                                None => {
                                    hung = true;
                                    "HANG".to_owned()
                                }
                            }
                        }
                    };
                    if crash_here {
                        wait_quiescent(baseline);
                        let crashed = hook.lock().unwrap().crashed;
                        if crashed {
                            out.push(format!("crash|-|{}", snapshot_canon(&image, &setup.file)));
                            drop(appender.take());
                            let _ = std::fs::remove_dir_all(&root);
                            root = image.clone();
                            hook.lock().unwrap().root = root.clone();
                            appender = start(&root, &mut out);
                            continue;
                        }
                    }
                    out.push(format!("{}|-|-", res));
                }
            }
        }
        if hung {
            // the leaked thread holds the appender; dropping our handle must not block on it
            std::mem::forget(appender.take());
        } else {
            wait_quiescent(baseline);
            drop(appender.take());
        }
        out
    });
    log4rs::verif_hooks::set_rotate_point(None);
    let _ = std::fs::remove_dir_all(&root);
    let _ = std::fs::remove_dir_all(&image);
    enc_list("/", &out)
}

// ------------------------------------------------------------------------------------------
// generator
// ------------------------------------------------------------------------------------------
fn enc_ops(ops: &[Op]) -> String {
    let xs: Vec<String> = ops
        .iter()
        .map(|o| match o {
            Op::Append(s, t) => format!("a:{}:{}", enc_bytes(s.as_bytes()), enc_bool(*t)),
            Op::Restart => "r".to_owned(),
            Op::Protect => "p".to_owned(),
            Op::Unprotect => "v".to_owned(),
            Op::CrossMount => "x".to_owned(),
            Op::Obstacle => "o".to_owned(),
            Op::Unobstacle => "u".to_owned(),
            Op::Quiesce => "q".to_owned(),
        })
        .collect();
    enc_list(",", &xs)
}

struct Hist {
    mode: bool,
    size: Option<u64>,
    pre: bool,
    pattern: &'static str,
    base: u32,
    count: u32,
    init: Vec<(String, Vec<u8>)>,
    ops: Vec<Op>,
}

fn emit_hist(emit: &mut dyn FnMut(String), h: &Hist, faults: &[(usize, usize)], crash: Option<(usize, usize)>) {
    let init_s: Vec<String> = h.init.iter().map(|(p, b)| format!("{}:{}", enc_str(p), enc_bytes(b))).collect();
    let f: Vec<String> = faults.iter().map(|(a, b)| format!("{}:{}", a, b)).collect();
    emit(format!(
        "{}\t{}\t{}\t{}\t{}\t{}\t{}\t{}\t{}\t{}",
        enc_bool(h.mode),
        match h.size {
            Some(l) => format!("s{}", l),
            None => enc_bool(h.pre).to_owned(),
        },
        enc_str(h.pattern),
        h.base,
        h.count,
        enc_str("app.log"),
        enc_list(",", &init_s),
        enc_ops(&h.ops),
        enc_list(",", &f),
        match crash {
            None => "-".to_owned(),
            Some((a, b)) => format!("{}:{}", a, b),
        }
    ));
}

fn emit_hist_bg(emit: &mut dyn FnMut(String), h: &Hist, faults: &[(usize, usize)], crash: Option<(usize, usize)>) {
    let mut line = String::new();
    emit_hist(&mut |l| line = l, h, faults, crash);
    emit(format!("{}\t@bg", line));
}

/// a history for the background-rotation build: appends (many of them rotating, so that appends
/// and further rolls happen while a rotation thread is running), quiescence points, restarts
fn random_hist_bg(rng: &mut Rng, max_ops: u64, mode: bool, pre: bool, count: u32) -> Hist {
    let mut h = random_hist(rng, max_ops, mode, pre, count);
    let mut ops = vec![];
    for op in h.ops.into_iter() {
        match op {
            Op::Append(m, t) => {
                ops.push(Op::Append(m, t || rng.chance(1, 4)));
                if rng.chance(1, 6) {
                    ops.push(Op::Quiesce);
                }
            }
            o => ops.push(o),
        }
    }
    ops.push(Op::Quiesce);
    h.ops = ops;
    h
}

fn attempts_of(ops: &[Op]) -> usize {
    ops.iter().filter(|o| matches!(o, Op::Append(_, true))).count()
}

fn random_hist(rng: &mut Rng, max_ops: u64, mode: bool, pre: bool, count: u32) -> Hist {
    let pattern = match rng.below(12) {
        0 | 1 => "arch/app.{}.log.gz",
        2 => "arch/app.{}.log.zst",
        3 => "arch/{}/app.log",
        4 => "arch/app.{}.log",
        _ => "app.log.{}",
    };
    let base = *rng.pick(&[0u32, 1, 3]);
    let mut init: Vec<(String, Vec<u8>)> = vec![];
    match rng.below(4) {
        0 => {}
        1 => init.push(("app.log".to_owned(), b"<old-active>".to_vec())),
        _ => {
            if rng.chance(1, 2) {
                init.push(("app.log".to_owned(), b"<old-active>".to_vec()));
            }
            for j in 0..count {
                if rng.chance(2, 3) {
                    init.push((pattern.replace("{}", &(base + j).to_string()), format!("<old{}>", j).into_bytes()));
                }
            }
            if rng.chance(1, 3) {
                init.push((pattern.replace("{}", &(base + count).to_string()), b"<above-window>".to_vec()));
            }
        }
    }
    let n_ops = rng.range(2, max_ops);
    let mut ops = vec![];
    for i in 0..n_ops {
        match rng.below(100) {
            0..=5 => ops.push(Op::Restart),
            6..=9 => ops.push(Op::Obstacle),
            10..=13 => ops.push(Op::Unobstacle),
            _ => {
                let mut msg = format!("<{}", i);
                for _ in 0..rng.below(4) {
                    msg.push((b'a' + rng.below(26) as u8) as char);
                }
                msg.push('>');
                if rng.chance(1, 25) {
                    msg.clear();
                }
                // a record of a few KiB (several BufWriter spills; an incompressible-ish body)
                if rng.chance(1, 50) {
                    msg = format!("<{}:", i);
                    for _ in 0..rng.range(1100, 3000) {
                        msg.push((b'a' + rng.below(26) as u8) as char);
                    }
                    msg.push('>');
                }
                ops.push(Op::Append(msg, rng.chance(2, 5)));
            }
        }
    }
    Hist { mode, size: None, pre, pattern, base, count, init, ops }
}

/// the steps of a rotation probed as points of failure (`0..count`) / of death (`0..=count`): all of
/// them for small windows, the ends and the middle for large ones
fn probe_steps(count: u32, upto: usize) -> Vec<usize> {
    if count <= 4 {
        (0..upto).collect()
    } else {
        let c = count as usize;
        let mut v = vec![0, 1, c / 2, c - 2, c - 1, c];
        v.retain(|k| *k < upto);
        v.dedup();
        v
    }
}

fn compresses(pattern: &str) -> bool {
    pattern.ends_with(".gz") || pattern.ends_with(".zst")
}

pub fn gen(rng: &mut Rng, n: usize, thorough: bool, emit: &mut dyn FnMut(String)) {
    // deterministic block 0a: a directory the process may not modify (REAL failure inside the final
    // step: rename refused, copy fallback done, source not removable): write, rotate twice while
    // protected (both fail), lift the protection, rotate twice; also with a restart while protected
    if unsafe { libc::geteuid() } == 0 {
        for mode in [true, false] {
            for pre in [false, true] {
                for count in [1u32, 2, 3] {
                    for pattern in ["arch/app.{}.log", "arch/{}/app.log", "arch/app.{}.log.gz", "arch/app.{}.log.zst"] {
                        for restart in [false, true] {
                            let mut ops = vec![Op::Append("<1>".to_owned(), false)];
                            if count > 1 {
                                ops.push(Op::Append("<f>".to_owned(), true));
                            }
                            ops.push(Op::Protect);
                            ops.push(Op::Append("<2>".to_owned(), true));
                            if restart {
                                ops.push(Op::Restart);
                            }
                            ops.push(Op::Append("<3>".to_owned(), false));
                            ops.push(Op::Append("<4>".to_owned(), true));
                            ops.push(Op::Unprotect);
                            ops.push(Op::Append("<5>".to_owned(), true));
                            ops.push(Op::Append("<6>".to_owned(), true));
                            let h = Hist { mode, size: None, pre, pattern, base: 0, count, init: vec![], ops };
                            emit_hist(emit, &h, &[], None);
                        }
                    }
                }
            }
        }
    }
    // deterministic block 0a': `arch/` on another filesystem (op `x`): the final move is `move_file`'s
    // copy + remove fallback, successful; with a hook fault in the final step and in a shift; and
    // combined with the protected directory (the fallback's removal of the source fails)
    if std::fs::metadata("/dev/shm").is_ok() {
        for mode in [true, false] {
            for pre in [false, true] {
                for count in [1u32, 3] {
                    for pattern in ["arch/app.{}.log", "arch/{}/app.log", "arch/app.{}.log.gz"] {
                        for early in [true, false] {
                            let mut ops = vec![];
                            if !early {
                                ops.push(Op::Append("<0>".to_owned(), true));
                            }
                            ops.push(Op::CrossMount);
                            for i in 1..=4 {
                                ops.push(Op::Append(format!("<{}>", i), i != 3));
                            }
                            let h = Hist { mode, size: None, pre, pattern, base: 0, count, init: vec![], ops };
                            emit_hist(emit, &h, &[], None);
                            emit_hist(emit, &h, &[(1, count as usize - 1)], None);
                            if count > 1 {
                                emit_hist(emit, &h, &[(2, 0)], None);
                            }
                        }
                    }
                }
            }
        }
        if unsafe { libc::geteuid() } == 0 {
            for pattern in ["arch/app.{}.log", "arch/app.{}.log.zst"] {
                let ops = vec![
                    Op::CrossMount,
                    Op::Append("<1>".to_owned(), true),
                    Op::Protect,
                    Op::Append("<2>".to_owned(), true),
                    Op::Append("<3>".to_owned(), false),
                    Op::Unprotect,
                    Op::Append("<4>".to_owned(), true),
                ];
                let h = Hist { mode: true, size: None, pre: false, pattern, base: 0, count: 2, init: vec![], ops };
                emit_hist(emit, &h, &[], None);
            }
        }
    }
    // deterministic block 0b: fault and death INSIDE the compressing final step (between the copy
    // into slot base and the removal of the source), at each of the first three rotations
    for mode in [true, false] {
        for pre in [false, true] {
            for count in [1u32, 2, 3] {
                for pattern in ["arch/app.{}.log.gz", "app.{}.log.zst"] {
                    let ops = vec![
                        Op::Append("<1>".to_owned(), false),
                        Op::Append("<2>".to_owned(), true),
                        Op::Append("<3>".to_owned(), false),
                        Op::Append("<4>".to_owned(), true),
                        Op::Append("<5>".to_owned(), true),
                        Op::Append("<6>".to_owned(), false),
                    ];
                    let h = Hist { mode, size: None, pre, pattern, base: 0, count, init: vec![], ops };
                    for a in 0..3usize {
                        emit_hist(emit, &h, &[(a, MID)], None);
                        emit_hist(emit, &h, &[], Some((a, MID)));
                    }
                }
            }
        }
    }
    // deterministic block 0c: windows larger than 4 (every archive present at the start, so that every
    // shift has something to move), fault-free, and failing / dying at the ends and in the middle
    for (mode, pre) in [(true, false), (false, true)] {
        for count in [6u32, 9] {
            for pattern in ["app.log.{}", "arch/{}/app.log", "arch/app.{}.log.gz"] {
                let mut init: Vec<(String, Vec<u8>)> = vec![];
                for j in 0..count {
                    init.push((pattern.replace("{}", &(1 + j).to_string()), format!("<old{}>", j).into_bytes()));
                }
                let ops = vec![
                    Op::Append("<1>".to_owned(), true),
                    Op::Append("<2>".to_owned(), true),
                    Op::Append("<3>".to_owned(), false),
                    Op::Append("<4>".to_owned(), true),
                ];
                let h = Hist { mode, size: None, pre, pattern, base: 1, count, init, ops };
                emit_hist(emit, &h, &[], None);
                for a in 0..2usize {
                    for k in probe_steps(count, count as usize) {
                        emit_hist(emit, &h, &[(a, k)], None);
                    }
                    for k in probe_steps(count, count as usize + 1) {
                        emit_hist(emit, &h, &[], Some((a, k)));
                    }
                }
            }
        }
    }
    // deterministic block: the F10 shape in every configuration — write, write + failed roll at
    // every step, plain write, successful roll
    for mode in [true, false] {
        for pre in [false, true] {
            for count in 1..=4u32 {
                let ops = vec![
                    Op::Append("aaa|".to_owned(), false),
                    Op::Append("bbb|".to_owned(), true),
                    Op::Append("ccc|".to_owned(), false),
                    Op::Append("ddd|".to_owned(), true),
                    Op::Append("eee|".to_owned(), true),
                    Op::Append("fff|".to_owned(), false),
                ];
                let h = Hist { mode, size: None, pre, pattern: "app.log.{}", base: 0, count, init: vec![], ops };
                emit_hist(emit, &h, &[], None);
                for a in 0..3usize {
                    for k in 0..count as usize {
                        emit_hist(emit, &h, &[(a, k)], None);
                    }
                    for k in 0..=count as usize {
                        emit_hist(emit, &h, &[], Some((a, k)));
                    }
                }
            }
        }
    }
    // deterministic block 2: a REAL filesystem failure (no hook): fill the window up to the slot
    // below the top, put a non-empty directory at the top archive name, rotate (the first shift —
    // or the final move when count = 1 — fails inside move_file: rename and the copy fallback),
    // append, rotate again while obstructed, remove the obstacle, rotate twice
    for mode in [true, false] {
        for pre in [false, true] {
            for count in 1..=4u32 {
                for pattern in ["app.log.{}", "arch/app.{}.log.gz", "arch/app.{}.log.zst", "arch/{}/app.log", "arch/app.{}.log"] {
                    let mut ops = vec![];
                    for i in 0..count.saturating_sub(1) {
                        ops.push(Op::Append(format!("<fill{}>", i), true));
                    }
                    ops.push(Op::Obstacle);
                    ops.push(Op::Append("<x1>".to_owned(), true));
                    ops.push(Op::Append("<x2>".to_owned(), false));
                    ops.push(Op::Append("<x3>".to_owned(), true));
                    ops.push(Op::Unobstacle);
                    ops.push(Op::Append("<x4>".to_owned(), true));
                    ops.push(Op::Append("<x5>".to_owned(), true));
                    let h = Hist { mode, size: None, pre, pattern, base: 1, count, init: vec![], ops };
                    emit_hist(emit, &h, &[], None);
                }
            }
        }
    }
    // background rotation (`@bg`, second harness build): a fixed history in every configuration
    // and random histories, fault-free; then rotation threads that fail or die at every step
    for mode in [true, false] {
        for pre in [false, true] {
            for count in 1..=4u32 {
                let mut ops = vec![];
                for i in 0..7 {
                    ops.push(Op::Append(format!("<b{}>", i), i != 3));
                }
                ops.push(Op::Quiesce);
                ops.push(Op::Append("<tail>".to_owned(), false));
                ops.push(Op::Quiesce);
                let h = Hist { mode, size: None, pre, pattern: if count % 2 == 0 { "app.log.{}" } else { "arch/app.{}.log.gz" }, base: 0, count, init: vec![], ops };
                emit_hist_bg(emit, &h, &[], None);
            }
        }
    }
    let n_bg = if thorough { n / 6 } else { n / 5 };
    let mut emitted_bg = 0usize;
    while emitted_bg < n_bg {
        let mode = rng.chance(1, 2);
        let pre = rng.chance(1, 2);
        let count = rng.range(1, 4) as u32;
        let h = random_hist_bg(rng, if thorough { 24 } else { 10 }, mode, pre, count);
        emit_hist_bg(emit, &h, &[], None);
        emitted_bg += 1;
        let a = attempts_of(&h.ops);
        if a > 0 && rng.chance(1, 3) {
            // a rotation thread fails at step k / the process dies at step boundary k
            let n_att = rng.below(a as u64) as usize;
            let k = rng.below(count as u64) as usize;
            emit_hist_bg(emit, &h, &[(n_att, k)], None);
            emitted_bg += 1;
            if !pre {
                emit_hist_bg(emit, &h, &[], Some((n_att, k)));
                emitted_bg += 1;
            }
        }
    }
    // family `bg-stream` (the C05 reading under background rotation): the real SizeTrigger decides,
    // appends go on while rotation threads run; at quiescence the stream read back must be the
    // acknowledged stream minus whole oldest files
    let n_stream = if thorough { n / 10 } else { n / 9 };
    for it in 0..n_stream {
        let mode = rng.chance(2, 3);
        let count = rng.range(1, 4) as u32;
        let limit = *rng.pick(&[0u64, 4, 9, 20, 45]);
        let pattern = if rng.chance(1, 5) { "arch/app.{}.log.gz" } else { "app.log.{}" };
        let mut init: Vec<(String, Vec<u8>)> = vec![];
        if rng.chance(1, 3) {
            init.push(("app.log".to_owned(), b"<old-active>".to_vec()));
        }
        if rng.chance(1, 3) {
            init.push((pattern.replace("{}", "0"), b"<old0>".to_vec()));
        }
        let n_ops = rng.range(3, if thorough { 40 } else { 16 });
        let mut ops = vec![];
        for i in 0..n_ops {
            if rng.chance(1, 20) {
                ops.push(Op::Restart);
                continue;
            }
            let mut msg = format!("<{}", i);
            for _ in 0..rng.below(14) {
                msg.push((b'a' + rng.below(26) as u8) as char);
            }
            msg.push('>');
            ops.push(Op::Append(msg, false));
            if rng.chance(1, 7) {
                ops.push(Op::Quiesce);
            }
        }
        ops.push(Op::Quiesce);
        let _ = it;
        let h = Hist { mode, size: Some(limit), pre: false, pattern, base: *rng.pick(&[0u32, 1]), count, init, ops };
        emit_hist_bg(emit, &h, &[], None);
    }
    // random histories; every step of every rotation as point of failure and of death
    let max_ops = if thorough { 30 } else { 12 };
    let mut emitted = 0usize;
    while emitted < n {
        let mode = rng.chance(1, 2);
        let pre = rng.chance(1, 2);
        let count = if rng.chance(1, 9) { *rng.pick(&[6u32, 9]) } else { rng.range(1, 4) as u32 };
        let h = random_hist(rng, max_ops, mode, pre, count);
        let a = attempts_of(&h.ops);
        emit_hist(emit, &h, &[], None);
        emitted += 1;
        for n_att in 0..a {
            for k in probe_steps(count, count as usize) {
                emit_hist(emit, &h, &[(n_att, k)], None);
                emitted += 1;
            }
            for k in probe_steps(count, count as usize + 1) {
                emit_hist(emit, &h, &[], Some((n_att, k)));
                emitted += 1;
            }
            if compresses(h.pattern) {
                emit_hist(emit, &h, &[(n_att, MID)], None);
                emit_hist(emit, &h, &[], Some((n_att, MID)));
                emitted += 2;
            }
        }
        // several faults in one history (the same step of consecutive rotations, or random ones)
        if a >= 2 {
            let mut fs: Vec<(usize, usize)> = vec![];
            for n_att in 0..a {
                if rng.chance(1, 2) {
                    fs.push((n_att, rng.below(count as u64) as usize));
                }
            }
            if !fs.is_empty() {
                emit_hist(emit, &h, &fs, None);
                let crash_n = rng.below(a as u64) as usize;
                emit_hist(emit, &h, &fs, Some((crash_n, rng.range(0, count as u64) as usize)));
                emitted += 2;
            }
        }
    }
}
