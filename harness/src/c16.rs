//! C16 — time trigger: schedule computation, firing and rescheduling, panics.
//!
//! Real code: `TimeTrigger::get_next_time` (through the guarded wrapper), `TimeTrigger::new` and
//! `Trigger::trigger` under the clock override, the latter driven through a real
//! `RollingFileAppender` + `CompoundPolicy(TimeTrigger, FixedWindowRoller)`.
//!
//! chrono reads `TZ` once per process, so every case is executed in a child process of its zone:
//! `verif-harness child c16` with `TZ` in the child's environment, one persistent child per zone,
//! one request line / one answer line over pipes.
//!
//! Case (after the id):  kind  tz(hex)  secs  nanos  unit  n  modulate  maxdelay  arrivals
//!   kind      next | trig
//!   arrivals  `~` or comma list of `secs:nanos[/secs2:nanos2][!]` (`trig` only): the clock value `trigger()`
//!             reads for this record; optionally a different value for the second reading, inside
//!             `TimeTrigger::new`, when it reschedules; `!` = the roller is made to fail on this record
//! Observation, one field, space separated:
//!   next:  facts  result
//!   trig:  facts0 result0 (facts_i result_i)*  T  sched0  (fired:sched[:E])*  segs
//!          (one facts/result pair per clock reading of every arrival; `:E` = `append` returned an error)
//!   facts  = civ ; lnow ; offNow ; mk ; offTrunc ; offRes ; chg ; rciv ; tgt ; tbl   (what chrono told the code)
//!     civ      y,month0,day,ordinal0,isoweek0,weekday(from Monday),hour,minute,second   of `current`
//!     lnow     local naive seconds of `current` (floor), offNow its UTC offset
//!     mk       y,mo,d,h,mi,s,kind,a,b : the civil time get_next_time hands to
//!              `Local.with_ymd_and_hms` and chrono's answer, kind s(ingle a) a(mbiguous a b) n(one)
//!              x (the arithmetic before it does not fit the machine types)
//!     offTrunc UTC offset at that instant when single; offRes, rciv offset and civil fields of
//!              the result; chg = H,T: T the first offset change of the zone within H seconds after `current` (`-` none)
//!     tgt      month/year units: y,mo,d,h,mi,s,L — the first of the target month and its naive local
//!              seconds (`NaiveDate::from_ymd_opt(..).and_hms_opt(0,0,0)`, `-` when chrono has no such
//!              date); `-` for the other units or when the calendar arithmetic does not fit i64/i32
//!     tbl      day/week/month/year units: `Local.from_local_datetime` at the target local time and, while
//!              the answer is None (DST gap), at 15-minute steps after it (at most 200):
//!              comma list of L:kind:a:b; `~` when there is no representable target
//!              (tgt and tbl are what the current code asks chrono; mk / offTrunc are what the code before
//!              80d997f asked and only feed the tag `unit-start-in-other-offset`)
//!   result = UTC seconds of the returned instant (its nanoseconds are asserted zero) | P.<class>
use crate::proto::*;
use crate::rng::Rng;
use chrono::{DateTime, Datelike, Local, LocalResult, Offset, TimeZone, Timelike};
use log4rs::append::rolling_file::policy::compound::trigger::time::{TimeTrigger, TimeTriggerInterval};
use log4rs::append::rolling_file::policy::compound::trigger::Trigger;
use log4rs::append::rolling_file::policy::compound::{roll::fixed_window::FixedWindowRoller, CompoundPolicy};
use log4rs::append::rolling_file::{LogFile, RollingFileAppender};
use log4rs::append::Append;
use log4rs::encode::pattern::PatternEncoder;
use std::collections::HashMap;
use std::io::{BufRead, BufReader, Write};
use std::process::{Child, ChildStdin, ChildStdout, Command, Stdio};
use std::sync::{Arc, Mutex};

pub const UNITS: &[&str] = &["second", "minute", "hour", "day", "week", "month", "year"];
const NS: &[i64] = &[1, 2, 3, 5, 7, 12, 13, 24, 25, 60, 61];
const ZONES_QUICK: &[&str] = &["UTC", "Asia/Kathmandu", "Europe/Berlin", "Australia/Lord_Howe"];
const ZONES_ALL: &[&str] = &[
    "UTC",
    "Asia/Kolkata",
    "Asia/Kathmandu",
    "Europe/Berlin",
    "America/St_Johns",
    "America/Sao_Paulo",
    "Australia/Lord_Howe",
    "EST5EDT,M3.2.0,M11.1.0",
    "<+0345>-3:45<+0515>,M10.1.0/1:45,M3.3.0/3",
];

// ---------------------------------------------------------------------------------------------
// parent side: persistent children, one per zone
// ---------------------------------------------------------------------------------------------
struct Proc {
    child: Child,
    stdin: ChildStdin,
    stdout: BufReader<ChildStdout>,
}

static CHILDREN: Mutex<Option<HashMap<String, Proc>>> = Mutex::new(None);

fn spawn(tz: &str) -> Option<Proc> {
    let exe = std::env::current_exe().ok()?;
    let mut child = Command::new(exe)
        .args(["child", "c16"])
        .env("TZ", tz)
        .stdin(Stdio::piped())
        .stdout(Stdio::piped())
        .stderr(Stdio::null())
        .spawn()
        .ok()?;
    let stdin = child.stdin.take()?;
    let stdout = BufReader::new(child.stdout.take()?);
    Some(Proc { child, stdin, stdout })
}

/// one request line to the child of zone `tz`, one answer line back
fn ask(tz: &str, line: &str) -> String {
    let mut guard = CHILDREN.lock().unwrap();
    let map = guard.get_or_insert_with(HashMap::new);
    if !map.contains_key(tz) {
        match spawn(tz) {
            Some(p) => {
                map.insert(tz.to_owned(), p);
            }
            None => return "ABORT spawn".to_owned(),
        }
    }
    let p = map.get_mut(tz).unwrap();
    let ok = writeln!(p.stdin, "{}", line).is_ok() && p.stdin.flush().is_ok();
    let mut ans = String::new();
    if !ok || p.stdout.read_line(&mut ans).unwrap_or(0) == 0 {
        // the child died (abort inside the real code): report and start a fresh one next time
        let mut dead = map.remove(tz).unwrap();
        let _ = dead.child.kill();
        let _ = dead.child.wait();
        return "ABORT child".to_owned();
    }
    while ans.ends_with('\n') || ans.ends_with('\r') {
        ans.pop();
    }
    ans
}

fn tz_hex(tz: &str) -> String {
    enc_bytes(tz.as_bytes())
}

pub fn exec(fields: &[&str]) -> String {
    if fields.len() != 9 {
        return "bad-case".to_owned();
    }
    let tz = match dec_bytes(fields[1]).and_then(|b| String::from_utf8(b).ok()) {
        Some(t) if !t.is_empty() && !t.contains('\n') => t,
        _ => return "bad-case".to_owned(),
    };
    ask(&tz, &fields.join("\t"))
}

// ---------------------------------------------------------------------------------------------
// child side
// ---------------------------------------------------------------------------------------------
pub fn child(_args: &[String]) -> i32 {
    let stdin = std::io::stdin();
    let out = std::io::stdout();
    let mut out = out.lock();
    for line in stdin.lock().lines() {
        let line = match line {
            Ok(l) => l,
            Err(_) => break,
        };
        let f: Vec<&str> = line.split('\t').collect();
        let ans = match f[0] {
            "next" | "trig" => run_case(&f),
            "transitions" => transitions(&f),
            "resolve" => resolve(&f),
            _ => "bad-case".to_owned(),
        };
        if writeln!(out, "{}", ans).is_err() || out.flush().is_err() {
            break;
        }
    }
    0
}

fn interval_of(unit: &str, n: i64) -> Option<TimeTriggerInterval> {
    Some(match unit {
        "second" => TimeTriggerInterval::Second(n),
        "minute" => TimeTriggerInterval::Minute(n),
        "hour" => TimeTriggerInterval::Hour(n),
        "day" => TimeTriggerInterval::Day(n),
        "week" => TimeTriggerInterval::Week(n),
        "month" => TimeTriggerInterval::Month(n),
        "year" => TimeTriggerInterval::Year(n),
        _ => return None,
    })
}

fn panic_class(msg: &str) -> &'static str {
    if msg.contains("No such local time") {
        "mk-none"
    } else if msg.contains("Ambiguous local time") {
        "mk-ambiguous"
    } else if msg.contains("out of bounds") {
        "duration"
    } else if msg.contains("overflowed") {
        "datetime"
    } else if msg.contains("divisor of zero") {
        "div-zero"
    } else if msg.contains("with overflow") {
        "arith"
    } else if msg.contains("PoisonError") {
        "poisoned"
    } else {
        "other"
    }
}

/// The civil time `get_next_time` hands to `with_ymd_and_hms`, computed independently in wide
/// arithmetic (None: the arithmetic before the call does not fit i32/u32/i64 and the code cannot
/// reach the call in an overflow-checked build, or divides by zero).
fn mk_query(now: &DateTime<Local>, unit: &str, n: i64, modulate: bool) -> Option<(i128, u32, u32, u32, u32, u32)> {
    let year = now.year() as i128;
    match unit {
        "year" => {
            let n32 = (n as i32) as i128;
            let inc = if modulate {
                if n32 == 0 {
                    return None;
                }
                // Rust `%`: truncated remainder, same as i128 `%`
                n32 - year % n32
            } else {
                n32
            };
            if inc < i32::MIN as i128 || inc > i32::MAX as i128 {
                return None;
            }
            let y = year + inc;
            if y < i32::MIN as i128 || y > i32::MAX as i128 {
                return None;
            }
            Some((y, 1, 1, 0, 0, 0))
        }
        "month" => {
            let nu = (n as u32) as i128;
            let m0 = now.month0() as i128;
            let inc = if modulate {
                if nu == 0 {
                    return None;
                }
                nu - m0 % nu
            } else {
                nu
            };
            let yu = (now.year() as u32) as i128;
            let months = yu * 12;
            if months > u32::MAX as i128 || months + m0 > u32::MAX as i128 {
                return None;
            }
            let new = months + m0 + inc;
            if new > u32::MAX as i128 {
                return None;
            }
            Some((((new / 12) as u32 as i32) as i128, (new % 12 + 1) as u32, 1, 0, 0, 0))
        }
        "week" | "day" => Some((year, now.month(), now.day(), 0, 0, 0)),
        "hour" => Some((year, now.month(), now.day(), now.hour(), 0, 0)),
        "minute" => Some((year, now.month(), now.day(), now.hour(), now.minute(), 0)),
        "second" => Some((year, now.month(), now.day(), now.hour(), now.minute(), now.second())),
        _ => None,
    }
}

/// How far ahead of `current` the zone is searched for its next offset change: the length of `n`
/// units (months of 31, years of 366 days) plus three days, at most 400 years.
fn horizon(unit: &str, n: i64) -> i64 {
    let n1 = std::cmp::max(n, 1) as i128;
    let h = n1 * unit_secs(unit) as i128 + 3 * 86_400;
    std::cmp::min(h, 400 * 366 * 86_400) as i64
}

/// The first instant after `a` (at most `h` seconds later) at which the zone's UTC offset differs
/// from the one just before it — found by sampling every `max(6 h, h/4000)` and bisecting; offset
/// excursions shorter than one sampling step can be missed.
fn first_transition_after(a: i64, h: i64) -> Option<i64> {
    let off = |t: i64| Local.timestamp_opt(t, 0).single().map(|d| d.offset().fix().local_minus_utc());
    let step = std::cmp::max(21_600, h / 4_000);
    let end = a.checked_add(h)?;
    let mut t = a;
    let mut o = off(t)?;
    while t < end {
        let t2 = std::cmp::min(t + step, end);
        let o2 = off(t2)?;
        if o2 != o {
            let (mut lo, mut hi) = (t, t2);
            while hi - lo > 1 {
                let mid = lo + (hi - lo) / 2;
                if off(mid)? == o {
                    lo = mid;
                } else {
                    hi = mid;
                }
            }
            return Some(hi);
        }
        t = t2;
        o = o2;
    }
    None
}

/// What the repaired `get_next_time` asks chrono (computed independently in wide arithmetic):
/// the target civil date of the calendar units with its naive local seconds, and the resolution
/// table of the target local time of the day/week/month/year units.
fn target_facts(now: &DateTime<Local>, unit: &str, n: i64, modulate: bool) -> (String, String) {
    let n1 = std::cmp::max(n, 1) as i128;
    let inc = |field: i128| -> i128 { if modulate { n1 - field % n1 } else { n1 } };
    let fits64 = |x: i128| x >= i64::MIN as i128 && x <= i64::MAX as i128;
    let midnight = now.naive_local().date().and_hms_opt(0, 0, 0).unwrap().and_utc().timestamp() as i128;
    let mut tgt = "-".to_owned();
    let target_local: Option<i128> = match unit {
        "year" | "month" => {
            let months = if unit == "year" {
                let i = inc(now.year() as i128);
                let y = i + now.year() as i128;
                if !fits64(i) || !fits64(y) || !fits64(y * 12) { None } else { Some(y * 12) }
            } else {
                let i = inc(now.month0() as i128);
                let m = i + now.year() as i128 * 12 + now.month0() as i128;
                if !fits64(i) || !fits64(m) { None } else { Some(m) }
            };
            match months {
                None => None,
                Some(m) => {
                    let y = m.div_euclid(12);
                    let mo = (m.rem_euclid(12) + 1) as u32;
                    if y < i32::MIN as i128 || y > i32::MAX as i128 {
                        None
                    } else {
                        let l = chrono::NaiveDate::from_ymd_opt(y as i32, mo, 1)
                            .and_then(|d| d.and_hms_opt(0, 0, 0))
                            .map(|d| d.and_utc().timestamp());
                        tgt = format!("{},{},1,0,0,0,{}", y, mo, enc_opt(l, |x| x.to_string()));
                        l.map(|x| x as i128)
                    }
                }
            }
        }
        "week" | "day" => {
            let days = if unit == "week" {
                let w = inc(now.iso_week().week0() as i128);
                if !fits64(w) || !fits64(w * 7) { None } else { Some(w * 7 - now.weekday().num_days_from_monday() as i128) }
            } else {
                let d = inc(now.ordinal0() as i128);
                if !fits64(d) { None } else { Some(d) }
            };
            match days {
                Some(d) if fits64(d * 86400) && (d * 86400).abs() <= (i64::MAX / 1000) as i128 => Some(midnight + d * 86400),
                _ => None,
            }
        }
        _ => None,
    };
    let mut rows = Vec::new();
    if let Some(l0) = target_local {
        let mut l = l0;
        for _ in 0..200 {
            let naive = if fits64(l) { DateTime::from_timestamp(l as i64, 0).map(|d| d.naive_utc()) } else { None };
            let naive = match naive {
                Some(nv) => nv,
                None => break,
            };
            match Local.from_local_datetime(&naive) {
                LocalResult::Single(t) => {
                    rows.push(format!("{}:s:{}:0", l, t.timestamp()));
                    break;
                }
                LocalResult::Ambiguous(a, b) => {
                    rows.push(format!("{}:a:{}:{}", l, a.timestamp(), b.timestamp()));
                    break;
                }
                LocalResult::None => {
                    rows.push(format!("{}:n:0:0", l));
                    l += 900;
                }
            }
        }
    }
    (tgt, enc_list(",", &rows))
}

/// facts + result of the pure schedule computation at one instant
fn block(now: &DateTime<Local>, unit: &str, n: i64, modulate: bool) -> (String, String) {
    let interval = interval_of(unit, n).unwrap();
    let civ = format!(
        "{},{},{},{},{},{},{},{},{}",
        now.year(),
        now.month0(),
        now.day(),
        now.ordinal0(),
        now.iso_week().week0(),
        now.weekday().num_days_from_monday(),
        now.hour(),
        now.minute(),
        now.second()
    );
    let off_now = now.offset().fix().local_minus_utc();
    let lnow = now.naive_local().and_utc().timestamp();
    let (mk, off_trunc) = match mk_query(now, unit, n, modulate) {
        None => ("0,0,0,0,0,0,x,0,0".to_owned(), "-".to_owned()),
        Some((y, mo, d, h, mi, s)) => {
            let r = if y < i32::MIN as i128 || y > i32::MAX as i128 {
                LocalResult::None
            } else {
                Local.with_ymd_and_hms(y as i32, mo, d, h, mi, s)
            };
            match r {
                LocalResult::Single(t) => (
                    format!("{},{},{},{},{},{},s,{},0", y, mo, d, h, mi, s, t.timestamp()),
                    t.offset().fix().local_minus_utc().to_string(),
                ),
                LocalResult::Ambiguous(a, b) => (
                    format!("{},{},{},{},{},{},a,{},{}", y, mo, d, h, mi, s, a.timestamp(), b.timestamp()),
                    "-".to_owned(),
                ),
                LocalResult::None => (format!("{},{},{},{},{},{},n,0,0", y, mo, d, h, mi, s), "-".to_owned()),
            }
        }
    };
    let cur = *now;
    let res = guarded(move || TimeTrigger::verif_get_next_time(cur, interval, modulate));
    let (result, off_res, rciv) = match res {
        Ok(t) => {
            let result = if t.timestamp_subsec_nanos() == 0 {
                t.timestamp().to_string()
            } else {
                format!("{}+{}ns", t.timestamp(), t.timestamp_subsec_nanos())
            };
            let off_res = t.offset().fix().local_minus_utc();
            (
                result,
                off_res.to_string(),
                format!("{},{},{},{},{},{}", t.year(), t.month(), t.day(), t.hour(), t.minute(), t.second()),
            )
        }
        Err(msg) => (format!("P.{}", panic_class(&msg)), "-".to_owned(), "-".to_owned()),
    };
    // the zone's next offset change after `current` — independent of what the code answered
    let h = horizon(unit, n);
    let chg = format!("{},{}", h, enc_opt(first_transition_after(now.timestamp(), h), |t| t.to_string()));
    let (tgt, tbl) = guarded(move || target_facts(&cur, unit, n, modulate)).unwrap_or(("?".to_owned(), "?".to_owned()));
    (
        format!("{};{};{};{};{};{};{};{};{};{}", civ, lnow, off_now, mk, off_trunc, off_res, chg, rciv, tgt, tbl),
        result,
    )
}

/// wrapper that lets the harness watch the real trigger from inside the real policy
#[derive(Debug)]
struct Spy {
    inner: TimeTrigger,
    log: Arc<Mutex<Vec<String>>>,
}

impl Trigger for Spy {
    fn trigger(&self, file: &LogFile) -> anyhow::Result<bool> {
        let r = std::panic::catch_unwind(std::panic::AssertUnwindSafe(|| self.inner.trigger(file)));
        match r {
            Ok(Ok(fired)) => {
                let sched = std::panic::catch_unwind(std::panic::AssertUnwindSafe(|| self.inner.verif_next_roll_time()));
                let s = match sched {
                    Ok(t) => t.timestamp().to_string(),
                    Err(_) => "P".to_owned(),
                };
                self.log.lock().unwrap().push(format!("{}:{}", enc_bool(fired), s));
                Ok(fired)
            }
            Ok(Err(e)) => {
                self.log.lock().unwrap().push("E".to_owned());
                Err(e)
            }
            Err(p) => {
                let msg = if let Some(s) = p.downcast_ref::<&str>() {
                    s.to_string()
                } else if let Some(s) = p.downcast_ref::<String>() {
                    s.clone()
                } else {
                    "panic".to_owned()
                };
                self.log.lock().unwrap().push(format!("P.{}", panic_class(&msg)));
                std::panic::resume_unwind(p)
            }
        }
    }
    fn is_pre_process(&self) -> bool {
        self.inner.is_pre_process()
    }
}

fn parse_instant(s: &str) -> Option<(i64, u32)> {
    let (a, b) = s.split_once(':')?;
    let secs: i64 = a.parse().ok()?;
    let nanos: u32 = b.parse().ok()?;
    if nanos >= 1_000_000_000 {
        return None;
    }
    Some((secs, nanos))
}

/// one record arrival: `secs:nanos[/secs2:nanos2][!]` — the clock value `trigger()` reads, optionally
/// a different value for the second reading inside `TimeTrigger::new` when it reschedules, and `!`
/// when the roller is made to fail (fault injected at the roller's first filesystem step)
#[derive(Clone, Copy)]
struct Arrival {
    first: (i64, u32),
    second: Option<(i64, u32)>,
    fail_roll: bool,
}

fn parse_arrival(s: &str) -> Option<Arrival> {
    let (s, fail_roll) = match s.strip_suffix('!') {
        Some(r) => (r, true),
        None => (s, false),
    };
    let (a, b) = match s.split_once('/') {
        Some((a, b)) => (a, Some(b)),
        None => (s, None),
    };
    Some(Arrival {
        first: parse_instant(a)?,
        second: match b {
            Some(b) => Some(parse_instant(b)?),
            None => None,
        },
        fail_roll,
    })
}

static COUNTER: std::sync::atomic::AtomicU64 = std::sync::atomic::AtomicU64::new(0);

fn run_case(f: &[&str]) -> String {
    if f.len() != 9 {
        return "bad-case".to_owned();
    }
    let kind = f[0];
    let secs: i64 = match f[2].parse() {
        Ok(v) => v,
        Err(_) => return "bad-case".to_owned(),
    };
    let nanos: u32 = match f[3].parse() {
        Ok(v) if v < 1_000_000_000 => v,
        _ => return "bad-case".to_owned(),
    };
    let unit = f[4];
    let n: i64 = match f[5].parse() {
        Ok(v) => v,
        Err(_) => return "bad-case".to_owned(),
    };
    if interval_of(unit, n).is_none() {
        return "bad-case".to_owned();
    }
    let modulate = match f[6] {
        "0" => false,
        "1" => true,
        _ => return "bad-case".to_owned(),
    };
    let maxdelay: u64 = match f[7].parse() {
        Ok(v) => v,
        Err(_) => return "bad-case".to_owned(),
    };
    let arrivals: Option<Vec<Arrival>> = dec_list(',', f[8]).iter().map(|s| parse_arrival(s)).collect();
    let arrivals = match arrivals {
        Some(a) => a,
        None => return "bad-case".to_owned(),
    };
    // the same range the clock override accepts (outside it the override falls back to the wall clock)
    let now = match Local.timestamp_opt(secs, nanos).single() {
        Some(t) => t,
        None => return "bad-case".to_owned(),
    };
    let (facts, result) = block(&now, unit, n, modulate);
    if kind == "next" {
        if !arrivals.is_empty() || maxdelay != 0 {
            return "bad-case".to_owned();
        }
        return format!("{} {}", facts, result);
    }
    let mut out = vec![facts, result];
    for arr in arrivals.iter() {
        // facts at the first reading, then (if given) at the second reading
        for (s, ns) in std::iter::once(arr.first).chain(arr.second) {
            let t = match Local.timestamp_opt(s, ns).single() {
                Some(t) => t,
                None => return "bad-case".to_owned(),
            };
            let (fa, re) = block(&t, unit, n, modulate);
            out.push(fa);
            out.push(re);
        }
    }
    out.push("T".to_owned());

    // the stateful part: a real appender under the driven clock. The clock hands out the queued
    // readings in order and repeats the last one (trigger() reads it, then TimeTrigger::new again).
    let clock: Arc<Mutex<(Vec<(i64, u32)>, usize)>> = Arc::new(Mutex::new((vec![(secs, nanos)], 0)));
    let c2 = clock.clone();
    log4rs::verif_hooks::set_now(Some(Arc::new(move || {
        let mut g = c2.lock().unwrap();
        let i = std::cmp::min(g.1, g.0.len() - 1);
        g.1 += 1;
        Some(g.0[i])
    })));
    let scratch = std::env::var("VERIF_SCRATCH").unwrap_or_else(|_| "/tmp".to_owned());
    let dir = std::path::PathBuf::from(scratch).join(format!(
        "c16_{}_{}",
        std::process::id(),
        COUNTER.fetch_add(1, std::sync::atomic::Ordering::SeqCst)
    ));
    let _ = std::fs::remove_dir_all(&dir);
    std::fs::create_dir_all(&dir).unwrap();
    let interval = interval_of(unit, n).unwrap();
    let cfg = TimeTrigger::verif_config(interval, modulate, maxdelay);
    let created = guarded(move || TimeTrigger::new(cfg));
    match created {
        Err(msg) => {
            out.push(format!("P.{}", panic_class(&msg)));
        }
        Ok(trigger) => {
            out.push(trigger.verif_next_roll_time().timestamp().to_string());
            let log = Arc::new(Mutex::new(Vec::new()));
            let spy = Spy { inner: trigger, log: log.clone() };
            let roller = FixedWindowRoller::builder()
                .build(dir.join("a.{}").to_str().unwrap(), 16)
                .unwrap();
            let policy = CompoundPolicy::new(Box::new(spy), Box::new(roller));
            let appender = RollingFileAppender::builder()
                .encoder(Box::new(PatternEncoder::new("{m}{n}")))
                .build(dir.join("a.log"), Box::new(policy))
                .unwrap();
            for (i, arr) in arrivals.iter().enumerate() {
                *clock.lock().unwrap() = (std::iter::once(arr.first).chain(arr.second).collect(), 0);
                if arr.fail_roll {
                    log4rs::verif_hooks::set_rotate_point(Some(Arc::new(|_| {
                        Err(std::io::Error::new(std::io::ErrorKind::Other, "injected roller failure"))
                    })));
                }
                let before = log.lock().unwrap().len();
                let r = std::panic::catch_unwind(std::panic::AssertUnwindSafe(|| {
                    appender.append(
                        &log::Record::builder()
                            .level(log::Level::Info)
                            .args(format_args!("r{}", i + 1))
                            .build(),
                    )
                }));
                log4rs::verif_hooks::set_rotate_point(None);
                let entries: Vec<String> = log.lock().unwrap()[before..].to_vec();
                let e = match (r, entries.as_slice()) {
                    (Ok(Ok(())), [one]) => one.clone(),
                    (Err(_), [one]) if one.starts_with("P.") => one.clone(),
                    // the trigger answered, then `append` returned an error (the roller failed):
                    // the record is not written
                    (Ok(Err(_)), [one]) => format!("{}:E", one),
                    (Ok(Err(_)), _) => "E".to_owned(),
                    _ => "?".to_owned(),
                };
                out.push(e);
            }
            drop(appender);
            // segmentation on disk, oldest file first: archives a.15 … a.0, then the active file
            let mut segs = Vec::new();
            let mut names: Vec<String> = (0..16).rev().map(|i| format!("a.{}", i)).collect();
            names.push("a.log".to_owned());
            for name in names {
                if let Ok(text) = std::fs::read_to_string(dir.join(&name)) {
                    let recs: Vec<String> = text
                        .lines()
                        .map(|l| l.strip_prefix('r').unwrap_or("?").to_owned())
                        .collect();
                    segs.push(enc_list(",", &recs));
                }
            }
            out.push(if segs.is_empty() { "-".to_owned() } else { segs.join(";") });
        }
    }
    log4rs::verif_hooks::set_now(None);
    let _ = std::fs::remove_dir_all(&dir);
    out.join(" ")
}

/// `transitions <from> <to>`: UTC instants in [from, to] at which the zone's offset changes
/// (first second of the new offset), as `secs:before:after` comma list
fn transitions(f: &[&str]) -> String {
    let from: i64 = f.get(1).and_then(|s| s.parse().ok()).unwrap_or(0);
    let to: i64 = f.get(2).and_then(|s| s.parse().ok()).unwrap_or(0);
    let off = |t: i64| Local.timestamp_opt(t, 0).single().map(|d| d.offset().fix().local_minus_utc()).unwrap_or(0);
    let mut res = Vec::new();
    let step = 86400;
    let mut t = from;
    let mut o = off(t);
    while t < to {
        let t2 = t + step;
        let o2 = off(t2);
        if o2 != o {
            let (mut lo, mut hi) = (t, t2);
            while hi - lo > 1 {
                let mid = lo + (hi - lo) / 2;
                if off(mid) == o {
                    lo = mid;
                } else {
                    hi = mid;
                }
            }
            res.push(format!("{}:{}:{}", hi, o, off(hi)));
        }
        t = t2;
        o = o2;
    }
    enc_list(",", &res)
}

/// `resolve y,mo,d,h,mi,s;…`: earliest UTC seconds of each local civil time (`-` when it does not exist)
fn resolve(f: &[&str]) -> String {
    let items = dec_list(';', f.get(1).copied().unwrap_or("~"));
    let res: Vec<String> = items
        .iter()
        .map(|it| {
            let p: Vec<i64> = it.split(',').filter_map(|x| x.parse().ok()).collect();
            if p.len() != 6 {
                return "-".to_owned();
            }
            match Local
                .with_ymd_and_hms(p[0] as i32, p[1] as u32, p[2] as u32, p[3] as u32, p[4] as u32, p[5] as u32)
                .earliest()
            {
                Some(t) => t.timestamp().to_string(),
                None => "-".to_owned(),
            }
        })
        .collect();
    enc_list(",", &res)
}

// ---------------------------------------------------------------------------------------------
// generator
// ---------------------------------------------------------------------------------------------
const CIVIL_BASES: &[(i64, i64, i64)] = &[
    (1970, 1, 5),   // Monday, first ISO week of 1970 plus one
    (2000, 2, 29),  // leap day of a year divisible by 400
    (2000, 3, 1),
    (2021, 1, 4),   // Monday after ISO week 53 of 2020
    (2024, 2, 29),  // leap day
    (2024, 3, 1),
    (2024, 12, 30), // Monday of ISO week 1 of 2025
    (2025, 1, 1),
    (2026, 1, 1),
    (2026, 12, 28), // Monday of ISO week 53 of 2026
    (2027, 1, 1),
    (2027, 1, 4),
    (2028, 1, 1),
    (2038, 1, 19),
    (2100, 2, 28),  // 2100 is not a leap year
    (2100, 3, 1),
];

fn push_case(
    emit: &mut dyn FnMut(String),
    kind: &str,
    tz: &str,
    inst: (i64, u32),
    unit: &str,
    n: i64,
    modulate: bool,
    maxdelay: u64,
    arrivals: &[(i64, u32)],
) {
    let arr: Vec<String> = arrivals.iter().map(|(s, ns)| format!("{}:{}", s, ns)).collect();
    push_case_raw(emit, kind, tz, inst, unit, n, modulate, maxdelay, &arr);
}

/// arrivals already rendered (`secs:nanos[/secs2:nanos2][!]`)
fn push_case_raw(
    emit: &mut dyn FnMut(String),
    kind: &str,
    tz: &str,
    inst: (i64, u32),
    unit: &str,
    n: i64,
    modulate: bool,
    maxdelay: u64,
    arr: &[String],
) {
    emit(format!(
        "{}\t{}\t{}\t{}\t{}\t{}\t{}\t{}\t{}",
        kind,
        tz_hex(tz),
        inst.0,
        inst.1,
        unit,
        n,
        enc_bool(modulate),
        maxdelay,
        enc_list(",", arr)
    ));
}

fn unit_secs(unit: &str) -> i64 {
    match unit {
        "second" => 1,
        "minute" => 60,
        "hour" => 3600,
        "day" => 86400,
        "week" => 604800,
        "month" => 31 * 86400,
        _ => 366 * 86400,
    }
}

struct ZoneInfo {
    tz: String,
    bases: Vec<i64>,       // UTC seconds of local unit boundaries (midnights of notable dates)
    transitions: Vec<i64>, // UTC seconds of offset changes
}

fn zone_info(tz: &str, thorough: bool) -> ZoneInfo {
    let q: Vec<String> = CIVIL_BASES.iter().map(|(y, m, d)| format!("{},{},{},0,0,0", y, m, d)).collect();
    let ans = ask(tz, &format!("resolve\t{}", q.join(";")));
    let mut bases: Vec<i64> = dec_list(',', &ans).iter().filter_map(|s| s.parse().ok()).collect();
    let from = if thorough { 0 } else { 1_500_000_000 }; // 1970 / 2017
    let to = 2_200_000_000i64; // 2039
    let ans = ask(tz, &format!("transitions\t{}\t{}", from, to));
    let mut transitions: Vec<i64> = dec_list(',', &ans)
        .iter()
        .filter_map(|s| s.split(':').next().and_then(|x| x.parse().ok()))
        .collect();
    if !thorough && transitions.len() > 8 {
        // the first four (historic) and the four around "today" (2026)
        let near: Vec<i64> = transitions.iter().copied().filter(|t| *t >= 1_770_000_000).take(4).collect();
        transitions.truncate(4);
        transitions.extend(near);
    }
    bases.sort();
    bases.dedup();
    ZoneInfo { tz: tz.to_owned(), bases, transitions }
}

fn grid_instant(rng: &mut Rng, z: &ZoneInfo) -> (i64, u32) {
    // an instant from the dense grid around a boundary: base ± k·{1 s, 1 min, 1 h, 1 day}, k ≤ 3,
    // optionally one nanosecond earlier
    let use_tr = !z.transitions.is_empty() && rng.chance(1, 2);
    let base = if use_tr {
        let t = *rng.pick(&z.transitions);
        // the transition itself, or the local midnights / hours around it
        match rng.below(4) {
            0 => t,
            1 => t - (t % 3600),
            2 => t + 86400 - (t % 86400),
            _ => t - (t % 86400),
        }
    } else {
        *rng.pick(&z.bases)
    };
    let scale = *rng.pick(&[1i64, 60, 3600, 86400, 1800, 900]);
    let k = rng.below(7) as i64 - 3;
    let mut secs = base + k * scale;
    if rng.chance(1, 6) {
        secs += rng.below(7) as i64 - 3;
    }
    let nanos = match rng.below(5) {
        0 => 999_999_999,
        1 => rng.below(1_000_000_000) as u32,
        2 => 1,
        _ => 0,
    };
    if nanos == 999_999_999 {
        secs -= 1;
    }
    (secs, nanos)
}

fn random_instant(rng: &mut Rng) -> (i64, u32) {
    // mostly 1890 … 2105; one in sixteen far in the future (up to the year 50000, i.e. also beyond
    // the "never" instant 9999-12-31)
    let secs = if rng.chance(1, 16) {
        4_260_000_000 + rng.below(1_500_000_000_000) as i64
    } else {
        rng.below(6_780_000_000) as i64 - 2_520_000_000
    };
    (secs, if rng.chance(1, 2) { 0 } else { rng.below(1_000_000_000) as u32 })
}

fn pick_n(rng: &mut Rng) -> i64 {
    *rng.pick(NS)
}

/// Zones whose offset changes put LOCAL MIDNIGHT in a DST gap or overlap, so that the day / week /
/// month / year TARGETS of the repaired algorithm are `None` (stepped forward) or `Ambiguous`:
/// (zone, scan window). POSIX rule strings are independent of the installed zoneinfo.
///  * 23:30 -> 00:30 and 00:30 -> 23:30 shifts: midnight strictly inside the gap / overlap, any day,
///    1 January + 1 July (year and month targets), Mondays (week targets);
///  * southern-hemisphere rules with 00:00 -> 01:00 and 24:00 -> 23:00 (midnight is the first
///    missing instant / the end of the overlap), as America/Sao_Paulo had until 2019.
const MIDNIGHT_ZONES: &[(&str, i64, i64)] = &[
    ("ZST1ZDT,M3.2.6/23:30,M11.1.0/0:30", 1_767_225_600, 1_924_992_000),
    ("AST-1ADT,J365/23:30,J182/0:30", 1_767_225_600, 1_924_992_000),
    ("BST-4BDT,M3.2.0/23:30,M10.2.1/0:30", 1_767_225_600, 1_924_992_000),
    ("<-03>3<-02>,M11.1.0/0,M2.3.0/0", 1_767_225_600, 1_924_992_000),
    ("America/Sao_Paulo", 1_483_228_800, 1_577_836_800),
    // a whole local day skipped (2011-12-30 does not exist): 96 steps of the gap loop
    ("Pacific/Apia", 1_322_000_000, 1_326_000_000),
    // a two-hour shift, and a three-hour one
    ("Antarctica/Troll", 1_767_225_600, 1_798_761_600),
    ("TST0TDT-3,M3.2.0/0,M10.2.0/0", 1_767_225_600, 1_830_297_600),
];
const MIDNIGHT_ZONES_THOROUGH: &[(&str, i64, i64)] = &[
    ("<-04>4<-03>,M9.1.6/24,M4.1.6/24", 1_767_225_600, 2_082_758_400),
    ("America/Havana", 1_483_228_800, 2_082_758_400),
    ("America/Santiago", 1_483_228_800, 2_200_000_000),
    ("America/Asuncion", 1_483_228_800, 1_767_225_600),
];

fn midnight_block(emit: &mut dyn FnMut(String), thorough: bool) {
    let mut zones: Vec<(&str, i64, i64)> = MIDNIGHT_ZONES.to_vec();
    if thorough {
        zones.extend_from_slice(MIDNIGHT_ZONES_THOROUGH);
    }
    for (tz, from, to) in zones {
        let to = if thorough { to + 315_360_000 } else { to };
        let ans = ask(tz, &format!("transitions\t{}\t{}", from, to));
        let ts: Vec<i64> = dec_list(',', &ans)
            .iter()
            .filter_map(|s| s.split(':').next().and_then(|x| x.parse().ok()))
            .collect();
        for t in ts {
            // `current` from two days before the change to 90 minutes after it
            for d in [-176_400i64, -90_000, -5_400, -2_700, -1_800, -900, -1, 900, 1_800, 5_400] {
                for unit in ["day", "week", "month", "year"] {
                    for nn in [1i64, 2] {
                        for modulate in [false, true] {
                            push_case(emit, "next", tz, (t + d, 0), unit, nn, modulate, 0, &[]);
                        }
                    }
                }
            }
            // a history through the real appender across the change
            let arrivals: Vec<(i64, u32)> =
                [-1_800i64, -900, 900, 1_800, 5_400, 90_000].iter().map(|d| (t + d, 7)).collect();
            push_case(emit, "trig", tz, (t - 2_700, 0), "day", 1, false, 0, &arrivals);
            push_case(emit, "trig", tz, (t - 2_700, 0), "week", 1, true, 5, &arrivals);
        }
    }
}

pub fn gen(rng: &mut Rng, n: usize, thorough: bool, emit: &mut dyn FnMut(String)) {
    let zones: &[&str] = if thorough { ZONES_ALL } else { ZONES_QUICK };
    let infos: Vec<ZoneInfo> = zones.iter().map(|z| zone_info(z, thorough)).collect();

    // 1. deterministic block: at every transition of every zone, every unit, n = 1, both modes, the
    //    instants 30 min / 90 min / 21.5 h after the change and 30 min before it (overlap, gap,
    //    last hour of a long day)
    for z in infos.iter() {
        for t in z.transitions.iter() {
            for d in [-1800i64, 0, 900, 1800, 5400, 77400, 84600] {
                for unit in UNITS {
                    for modulate in [false, true] {
                        if !thorough && modulate && *unit != "hour" && *unit != "day" {
                            continue;
                        }
                        push_case(emit, "next", &z.tz, (t + d, 0), unit, 1, modulate, 0, &[]);
                    }
                }
            }
        }
    }
    // 1b. local midnight in a gap / overlap (targets of the day, week, month and year units)
    midnight_block(emit, thorough);
    // 2. absurd multipliers ("any configured interval")
    let absurd: &[i64] = &[
        i64::MAX,
        i64::MAX / 1000,
        i64::MAX / 1000 + 1,
        i64::MAX / 1000 / 60,
        i64::MAX / 1000 / 60 + 1,
        i64::MAX / 1000 / 3600 + 1,
        i64::MAX / 1000 / 86400 + 1,
        i64::MAX / 1000 / 604800,
        i64::MAX / 1000 / 604800 + 1,
        1 << 31,
        (1 << 31) - 1,
        (1 << 31) - 2027,
        1 << 32,
        (1 << 32) + 1,
        (1 << 32) - 1,
        (1 << 32) - 24400,
        4_294_942_980,
        262_142,
        260_000,
        3_145_000,
        95_000_000,
        13_000_000,
        8_200_000_000_000,
        0,
        -1,
        -5,
        i64::MIN,
    ];
    for z in infos.iter().take(if thorough { 9 } else { 2 }) {
        for nn in absurd {
            for unit in UNITS {
                for modulate in [false, true] {
                    push_case(emit, "next", &z.tz, (1_790_000_000, 5), unit, *nn, modulate, 0, &[]);
                }
            }
        }
    }
    // 3. sampled grid
    let n_trig = n / 12;
    let n_next = n - n_trig;
    for i in 0..n_next {
        let z = &infos[i % infos.len()];
        let inst = if rng.chance(1, 8) { random_instant(rng) } else { grid_instant(rng, z) };
        let unit = *rng.pick(UNITS);
        let nn = pick_n(rng);
        let modulate = rng.chance(1, 2);
        push_case(emit, "next", &z.tz, inst, unit, nn, modulate, 0, &[]);
    }
    // 4. trigger histories through the real appender
    for i in 0..n_trig {
        let z = &infos[i % infos.len()];
        let inst = if rng.chance(1, 4) { random_instant(rng) } else { grid_instant(rng, z) };
        let unit = *rng.pick(UNITS);
        let nn = if rng.chance(1, 2) { 1 } else { pick_n(rng) };
        let modulate = rng.chance(1, 2);
        let maxdelay = if rng.chance(1, 2) {
            0
        } else if rng.chance(1, 8) {
            // bounds beyond what `new` can add: above i64::MAX, above chrono's duration range
            *rng.pick(&[u64::MAX, (i64::MAX as u64) + 1, i64::MAX as u64, (i64::MAX / 1000) as u64 + 1, (i64::MAX / 1000) as u64, 8_300_000_000_000])
        } else {
            *rng.pick(&[1u64, 2, 5, 60, 3600, 100_000])
        };
        let k = rng.range(2, 10) as usize;
        let span = unit_secs(unit) * nn;
        let mut t = inst;
        let mut arrivals = Vec::new();
        for _ in 0..k {
            let step = match rng.below(8) {
                0 => 0,
                1 => 1,
                2 => span / 2,
                3 => span,
                4 => span + 1,
                5 => rng.below(2 * span as u64 + 2) as i64,
                6 => rng.below(span as u64 / 3 + 2) as i64,
                _ => 3 * span + rng.below(5) as i64,
            };
            let prev = t;
            t = (t.0 + step, if rng.chance(1, 3) { rng.below(1_000_000_000) as u32 } else { t.1 });
            if step == 0 && t.1 < prev.1 {
                t.1 = prev.1;
            }
            arrivals.push(t);
        }
        if rng.chance(1, if thorough { 20 } else { 10 }) {
            // a clock that steps backwards once (any order of arrivals is inside the theorems)
            let j = rng.below(k as u64) as usize;
            arrivals[j].0 -= span;
        }
        let mut arr: Vec<String> = arrivals.iter().map(|(s, ns)| format!("{}:{}", s, ns)).collect();
        if rng.chance(1, 6) {
            // the clock moves between the two readings inside one `trigger()` call
            let j = rng.below(k as u64) as usize;
            let d = match rng.below(4) {
                0 => 1,
                1 => span,
                2 => -1,
                _ => -span,
            };
            arr[j] = format!("{}/{}:{}", arr[j], arrivals[j].0 + d, arrivals[j].1);
        }
        if rng.chance(1, 6) {
            // the roller fails on this record, should the trigger fire
            let j = rng.below(k as u64) as usize;
            arr[j].push('!');
        }
        push_case_raw(emit, "trig", &z.tz, inst, unit, nn, modulate, maxdelay, &arr);
    }
    // 5. a schedule at the very end of chrono's time line: the delay cannot be added
    for z in infos.iter().take(2) {
        let now = 1_790_000_000i64;
        for nn in [8_210_266_876_799 - now - 40, 8_210_266_876_799 - now] {
            push_case(emit, "trig", &z.tz, (now, 0), "second", nn, false, 100_000, &[(now + 5, 0)]);
        }
    }
}
