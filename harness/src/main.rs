//! verif-harness: generates cases and runs the real log4rs code on them.
//!   verif-harness gen  <Cxx> <seed> <n> <quick|thorough>   -> case lines on stdout
//!   verif-harness exec <Cxx>                                 <- case lines on stdin, one observation line per case
mod proto;
mod rng;
mod c01;
mod c02;
mod c03;
mod c04;
mod c05;
mod c06;
mod c07;
mod c08;
mod c09;
mod c10;
mod c11;
mod c12;
mod c13;
mod c14;
mod c15;
mod c16;
mod c17;
mod c18;
mod c19;
mod c20;
mod sys;


use std::io::{BufRead, Write};

pub type GenFn = fn(&mut rng::Rng, usize, bool, &mut dyn FnMut(String));
pub type ExecFn = fn(&[&str]) -> String;

fn table(id: &str) -> Option<(GenFn, ExecFn)> {
    match id {
        "C01" => Some((c01::gen, c01::exec)),
        "C02" => Some((c02::gen, c02::exec)),
        "C03" => Some((c03::gen, c03::exec)),
        "C04" => Some((c04::gen, c04::exec)),
        "C05" => Some((c05::gen, c05::exec)),
        "C06" => Some((c06::gen, c06::exec)),
        "C07" => Some((c07::gen, c07::exec)),
        "C08" => Some((c08::gen, c08::exec)),
        "C09" => Some((c09::gen, c09::exec)),
        "C10" => Some((c10::gen, c10::exec)),
        "C11" => Some((c11::gen, c11::exec)),
        "C12" => Some((c12::gen, c12::exec)),
        "C13" => Some((c13::gen, c13::exec)),
        "C14" => Some((c14::gen, c14::exec)),
        "C15" => Some((c15::gen, c15::exec)),
        "C16" => Some((c16::gen, c16::exec)),
        "C17" => Some((c17::gen, c17::exec)),
        "C18" => Some((c18::gen, c18::exec)),
        "C19" => Some((c19::gen, c19::exec)),
        "C20" => Some((c20::gen, c20::exec)),
        _ => None,
    }
}

fn main() {
    let args: Vec<String> = std::env::args().collect();
    if args.len() < 3 {
        eprintln!("usage: verif-harness gen <Cxx> <seed> <n> <tier> | exec <Cxx>");
        std::process::exit(2);
    }
    // internal sub-commands used by checks that need child processes
    if args[1] == "child" {
        std::process::exit(child(&args[2..]));
    }
    let (gen, exec) = match table(&args[2]) {
        Some(t) => t,
        None => {
            eprintln!("unknown property {}", args[2]);
            std::process::exit(2);
        }
    };
    let out = std::io::stdout();
    let mut out = std::io::BufWriter::new(out.lock());
    match args[1].as_str() {
        "gen" => {
            let seed: u64 = args.get(3).and_then(|s| s.parse().ok()).unwrap_or(0);
            let n: usize = args.get(4).and_then(|s| s.parse().ok()).unwrap_or(100);
            let thorough = args.get(5).map(|s| s == "thorough").unwrap_or(false);
            let mut rng = rng::Rng::new(seed);
            let id = args[2].clone();
            let mut emit = |line: String| {
                writeln!(out, "{}\t{}", id, line).unwrap();
            };
            gen(&mut rng, n, thorough, &mut emit);
        }
        "exec" => {
            std::panic::set_hook(Box::new(|_| {}));
            // The protocol goes to a private duplicate of fd 1 and fd 1 itself is pointed at /dev/null
            // for the whole run: real code that prints to stdout (the roller's `println!` on a failed
            // step, a console appender) can then neither corrupt the protocol nor block on a stdout lock
            // held by this loop — from any thread.
            drop(out);
            let mut out = unsafe {
                use std::os::unix::io::FromRawFd;
                let proto = libc::dup(1);
                let devnull = libc::open(b"/dev/null\0".as_ptr() as *const libc::c_char, libc::O_WRONLY);
                libc::dup2(devnull, 1);
                libc::close(devnull);
                // fd 2 is pointed at /dev/full (when it exists): a process condition for EVERY executed case.
                // The crate reports errors on stderr with `let _ = writeln!(io::stderr(), ..)`, which cannot
                // fail the caller; an `eprintln!` in its place panics when stderr rejects the write, and
                // that panic is then an observation (independently seeded changes C08_r7_2, C11_r7_2,
                // C13_r7_1, C15_r7_2, C20_r7_2). The harness itself writes nothing to stderr from here on
                // (the panic hook is a no-op).
                let devfull = libc::open(b"/dev/full\0".as_ptr() as *const libc::c_char, libc::O_WRONLY);
                if devfull >= 0 {
                    libc::dup2(devfull, 2);
                    libc::close(devfull);
                }
                std::io::BufWriter::new(std::fs::File::from_raw_fd(proto))
            };
            let stdin = std::io::stdin();
            for line in stdin.lock().lines() {
                let line = line.unwrap();
                let fields: Vec<&str> = line.split('\t').collect();
                let obs = if fields.first() == Some(&args[2].as_str()) {
                    exec(&fields[1..])
                } else {
                    "bad-case".to_owned()
                };
                writeln!(out, "{}", obs).unwrap();
            }
            out.flush().unwrap();
            return;
        }
        _ => {
            eprintln!("unknown command");
            std::process::exit(2);
        }
    }
    out.flush().unwrap();
}

fn child(args: &[String]) -> i32 {
    if args.is_empty() {
        return 2;
    }
    std::panic::set_hook(Box::new(|_| {}));
    match args[0].as_str() {
        "c02" => c02::child(&args[1..]),
        "c15" => c15::child(&args[1..]),
        "c16" => c16::child(&args[1..]),
        "c18" => c18::child(&args[1..]),
        _ => 2,
    }
}
