//! C06 — size trigger rolls exactly when the limit is exceeded; size accounting is exact.
//! Real code: `RollingFileAppender` + `CompoundPolicy(SizeTrigger, roller)` behind a harness `Policy`
//! that records EVERY consultation made while an operation runs: `LogFile::len_estimate()` against
//! `fs::metadata(path).len()`.
//!  * `seq`  the case format and executor of C05 (one probe value per op);
//!  * `seq6` own executor: the trigger is built from a YAML document through `SizeTriggerConfig` /
//!           `SizeTriggerDeserializer` (`limit: 10 kb`, `limit: 4097`, …), all consultations of an op are
//!           reported, and `R<a|t>:<limit>` restarts the appender with ANOTHER mode and/or limit on the
//!           same directory; `e<n>!` (failing encoder), `f<k>!` (rotation step fails), `g!` (roller
//!           reports Err after its work) as in C05.
use crate::c04::{RecSpec, ScriptEncoder};
use crate::c05::{self, parse_op, pattern, Case, Env, OpSpec, RollSpec, TrigChoice, TrigSpec};
use crate::proto::*;
use crate::rng::Rng;
use log4rs::append::rolling_file::policy::compound::roll::delete::DeleteRoller;
use log4rs::append::rolling_file::policy::compound::roll::fixed_window::FixedWindowRoller;
use log4rs::append::rolling_file::policy::compound::roll::Roll;
use log4rs::append::rolling_file::policy::compound::trigger::size::{SizeTriggerConfig, SizeTriggerDeserializer};
use log4rs::append::rolling_file::policy::compound::trigger::Trigger;
use log4rs::append::rolling_file::policy::compound::CompoundPolicy;
use log4rs::append::rolling_file::policy::Policy;
use log4rs::append::rolling_file::{LogFile, RollingFileAppender};
use log4rs::config::{Deserialize, Deserializers};
use std::path::Path;
use std::sync::atomic::{AtomicBool, AtomicU64, Ordering};
use std::sync::{Arc, Mutex};

const LIMITS: &[u64] = &[0, 1, 7, 1024, 1025];

#[derive(Debug)]
struct ProbeAll {
    inner: CompoundPolicy,
    probe: Arc<Mutex<Vec<(u64, u64)>>>,
}

impl Policy for ProbeAll {
    fn process(&self, log: &mut LogFile) -> anyhow::Result<()> {
        let shown = log.len_estimate();
        let actual = std::fs::metadata(log.path()).map(|m| m.len()).unwrap_or(u64::MAX);
        self.probe.lock().unwrap().push((shown, actual));
        self.inner.process(log)
    }
    fn is_pre_process(&self) -> bool {
        self.inner.is_pre_process()
    }
}

#[derive(Debug)]
struct CountingRoller {
    inner: Box<dyn Roll>,
    calls: Arc<AtomicU64>,
    late_fail: Arc<AtomicBool>,
}

impl Roll for CountingRoller {
    fn roll(&self, file: &Path) -> anyhow::Result<()> {
        self.calls.fetch_add(1, Ordering::SeqCst);
        let r = self.inner.roll(file);
        if r.is_ok() && self.late_fail.swap(false, Ordering::SeqCst) {
            anyhow::bail!("roller reports a failure after doing its work");
        }
        r
    }
}

/// the literal the limit is written as in the configuration document
fn limit_literal(limit: u64) -> String {
    if limit > 0 && limit % (1024 * 1024) == 0 {
        format!("{} MiB", limit / (1024 * 1024))
    } else if limit > 0 && limit % 1024 == 0 {
        format!("{} kb", limit / 1024)
    } else if limit % 2 == 0 {
        format!("{}", limit)
    } else {
        format!("{} b", limit)
    }
}

/// `SizeTrigger` through the configuration path: YAML → `SizeTriggerConfig` → `SizeTriggerDeserializer`
fn trigger_from_config(limit: u64) -> Box<dyn Trigger> {
    let doc = format!("limit: {}", limit_literal(limit));
    let cfg: SizeTriggerConfig = serde_yaml::from_str(&doc).expect("size trigger config");
    SizeTriggerDeserializer.deserialize(cfg, &Deserializers::default()).expect("size trigger")
}

fn build6(env: &Env, append: bool, limit: u64, probe: &Arc<Mutex<Vec<(u64, u64)>>>) -> RollingFileAppender {
    let roller: Box<dyn Roll> = match &env.case.roll {
        RollSpec::Delete => Box::new(DeleteRoller::new()),
        RollSpec::Fw { base, count, pat } => {
            let p = format!("{}/{}", env.scratch.path().display(), pattern(*pat));
            Box::new(FixedWindowRoller::builder().base(*base).build(&p, *count).unwrap())
        }
    };
    let roller: Box<dyn Roll> =
        Box::new(CountingRoller { inner: roller, calls: env.roll_calls.clone(), late_fail: env.late_fail.clone() });
    let policy = ProbeAll { inner: CompoundPolicy::new(trigger_from_config(limit), roller), probe: probe.clone() };
    RollingFileAppender::builder()
        .append(append)
        .encoder(Box::new(ScriptEncoder::new()))
        .build(&env.path, Box::new(policy))
        .unwrap()
}

enum Op6 {
    Plain(OpSpec),
    Reconf(bool, u64),
}

fn parse_op6(s: &str) -> Option<Op6> {
    if let Some(rest) = s.strip_prefix('R') {
        let (m, l) = rest.split_once(':')?;
        let append = match m {
            "a" => true,
            "t" => false,
            _ => return None,
        };
        return Some(Op6::Reconf(append, l.parse().ok()?));
    }
    parse_op(s).map(Op6::Plain)
}

fn exec_seq6(f: &[&str]) -> String {
    if f.len() != 7 {
        return "bad-case".to_owned();
    }
    let case = match Case::parse(&f[..6]) {
        Some(c) => c,
        None => return "bad-case".to_owned(),
    };
    let limit0 = match &case.trig {
        TrigSpec::Size(n) => *n,
        _ => return "bad-case".to_owned(),
    };
    let mut ops = vec![];
    for o in dec_list(',', f[6]) {
        match parse_op6(&o) {
            Some(o) => ops.push(o),
            None => return "bad-case".to_owned(),
        }
    }
    let has_hook = case.roll.has_hook();
    let mut mode = case.append;
    let mut limit = limit0;
    let env = Env::new(case, "c06");
    let probe: Arc<Mutex<Vec<(u64, u64)>>> = Arc::new(Mutex::new(vec![]));
    let r = guarded(std::panic::AssertUnwindSafe(|| {
        let mut out = vec![];
        let mut app = Some(build6(&env, mode, limit, &probe));
        out.push(format!("-!-!0!{}", env.snapshot()));
        for op in &ops {
            probe.lock().unwrap().clear();
            env.roll_calls.store(0, Ordering::SeqCst);
            let res = match op {
                Op6::Reconf(m, l) => {
                    drop(app.take());
                    mode = *m;
                    limit = *l;
                    app = Some(build6(&env, mode, limit, &probe));
                    "-"
                }
                Op6::Plain(OpSpec::Restart) => {
                    drop(app.take());
                    app = Some(build6(&env, mode, limit, &probe));
                    "-"
                }
                Op6::Plain(OpSpec::Tick(dt)) => {
                    env.clock.fetch_add(*dt, Ordering::SeqCst);
                    "-"
                }
                Op6::Plain(OpSpec::Append(r, fault)) => {
                    env.arm_fault(if has_hook { *fault } else { None });
                    let res = r.append_to(app.as_ref().unwrap());
                    env.arm_fault(None);
                    if res.is_ok() {
                        "ok"
                    } else {
                        "err"
                    }
                }
                Op6::Plain(OpSpec::AppendDiskFull(r, k)) => {
                    if crate::c05::append_disk_full(&env, app.as_ref().unwrap(), r, *k).is_ok() {
                        "ok"
                    } else {
                        "err"
                    }
                }
                Op6::Plain(OpSpec::AppendLate(r)) => {
                    env.late_fail.store(true, Ordering::SeqCst);
                    let res = r.append_to(app.as_ref().unwrap());
                    env.late_fail.store(false, Ordering::SeqCst);
                    if res.is_ok() {
                        "ok"
                    } else {
                        "err"
                    }
                }
                Op6::Plain(OpSpec::AppendEncFail(r, n)) => {
                    if r.append_failing(app.as_ref().unwrap(), Some(*n)).is_ok() {
                        "ok"
                    } else {
                        "err"
                    }
                }
            };
            let consults: Vec<String> = probe.lock().unwrap().iter().map(|(a, b)| format!("{}={}", a, b)).collect();
            let consult = if consults.is_empty() { "-".to_owned() } else { consults.join("+") };
            out.push(format!("{}!{}!{}!{}", res, consult, env.roll_calls.load(Ordering::SeqCst), env.snapshot()));
        }
        drop(app);
        out.join(",")
    }));
    drop(env);
    r.unwrap_or_else(|_| "PANIC".to_owned())
}

pub fn exec(fields: &[&str]) -> String {
    match fields.first() {
        Some(&"seq6") => exec_seq6(&fields[1..]),
        _ => c05::exec(fields),
    }
}

// ---------------------------------------------------------------------------------------------
// generator
// ---------------------------------------------------------------------------------------------
fn bin(id: u64, sizes: Vec<u64>) -> String {
    RecSpec::Bin { id, sizes }.render()
}

/// a text of exactly `bytes` UTF-8 bytes made of 1/2/3/4-byte characters (mix chosen by `salt`)
fn text_of_bytes(bytes: u64, salt: u64) -> String {
    let units: [(&str, u64); 4] = [("a", 1), ("é", 2), ("€", 3), ("😀", 4)];
    let mut s = String::new();
    let mut left = bytes;
    let mut k = salt;
    while left > 0 {
        let (c, w) = units[(k % 4) as usize];
        k = (k / 4).wrapping_add(k.wrapping_mul(3)).wrapping_add(1) % 1_000_003;
        if w <= left {
            s.push_str(c);
            left -= w;
        } else {
            s.push('a');
            left -= 1;
        }
    }
    s
}

const MID_LIMITS: &[u64] = &[1026, 2047, 2048, 2049, 3000, 4096, 4097, 10 * 1024, 16 * 1024, 65536, 1024 * 1024, 1 << 31, (1 << 32) + 1, 1 << 40, (1 << 62) + 5];

fn gen_limit6(rng: &mut Rng) -> u64 {
    match rng.below(10) {
        0 | 1 => *rng.pick(&[0u64, 1, 7, 100, 1023, 1024, 1025]),
        2..=6 => *rng.pick(&MID_LIMITS[..9]),
        7 => *rng.pick(&MID_LIMITS[9..]),
        8 => rng.range(1026, 12000),
        _ => *rng.pick(&[(1u64 << 63) - 1, 1 << 63, u64::MAX]),
    }
}

/// a record sized relative to what is still missing to the limit (`room`) and to the 1 KiB buffer
fn gen_record6(rng: &mut Rng, id: u64, room: u64, budget: &mut u64) -> RecSpec {
    let room = room.min(20000);
    let r = match rng.below(14) {
        0 => RecSpec::Bin { id, sizes: vec![room] },
        1 => RecSpec::Bin { id, sizes: vec![room + 1] },
        2 => RecSpec::Bin { id, sizes: vec![room.saturating_sub(1)] },
        3 => RecSpec::Bin { id, sizes: vec![*rng.pick(&[0u64, 1, 1023, 1024, 1025, 2048, 3000, 4096])] },
        4 => {
            let a = rng.range(0, room);
            RecSpec::Bin { id, sizes: vec![a, room - a, rng.below(2)] }
        }
        // multi-byte text landing on / just past the limit and around the buffer size
        5 => RecSpec::Text { id, text: text_of_bytes(room, rng.below(1000)) },
        6 => RecSpec::Text { id, text: text_of_bytes(room + 1 + rng.below(3), rng.below(1000)) },
        7 => RecSpec::Text { id, text: text_of_bytes(*rng.pick(&[1022u64, 1023, 1024, 1025, 1026, 2049]), rng.below(1000)) },
        8 => RecSpec::Text { id, text: (*rng.pick(&["", "é", "héllo wörld", "日本語", "😀😀", "naïve café\n", "€"])).to_owned() },
        9 => RecSpec::Bin { id, sizes: vec![rng.range(1000, 1100)] },
        10 => RecSpec::Bin { id, sizes: vec![rng.range(0, room / 2 + 1)] },
        _ => RecSpec::Bin { id, sizes: vec![rng.range(0, 40)] },
    };
    let sz = r.bytes().len() as u64;
    if sz > *budget {
        RecSpec::Bin { id, sizes: vec![rng.range(0, 6)] }
    } else {
        *budget -= sz;
        r
    }
}

fn gen_seq6(rng: &mut Rng, thorough: bool) -> String {
    let n_ops = if rng.chance(1, 14) { 0 } else { rng.range(1, if thorough { 40 } else { 16 }) as usize };
    let mut limit = gen_limit6(rng);
    let roll = c05::gen_roller(rng);
    let mut append = rng.chance(3, 5);
    let small = limit.min(12000);
    let pre_active = match rng.below(6) {
        0 => None,
        1 => Some(0),
        2 => Some(small),
        3 => Some(small + 1),
        4 => Some(small.saturating_sub(1)),
        _ => Some(rng.range(0, small + 1100)),
    };
    let mut pre_arch = vec![];
    if let RollSpec::Fw { base, count, .. } = &roll {
        for j in 0..rng.range(0, *count as u64) as u32 {
            pre_arch.push((base + j, rng.range(0, 30)));
        }
    }
    let faults_ok = roll.has_hook();
    let compress = matches!(&roll, RollSpec::Fw { pat, .. } if *pat == 2 || *pat == 3);
    let count = match &roll {
        RollSpec::Fw { count, .. } => *count as u64,
        _ => 0,
    };
    let case = Case { append, pre_active, pre_arch, trig: TrigSpec::Size(limit), roll, clock0: 1_700_000_000 + rng.below(200) as i64 };
    let mut budget: u64 = if thorough { 24000 } else { 12000 };
    // running size of the active file as the statement sees it (None after a rotation)
    let mut size: u64 = if append { pre_active.unwrap_or(0) } else { 0 };
    let mut ops = vec![];
    for i in 0..n_ops {
        let k = rng.below(24);
        if k == 0 {
            ops.push("r".to_owned());
            if !append {
                size = 0;
            }
        } else if k == 1 || k == 2 {
            // restart with a changed configuration: limit lowered below / raised above the current size, mode flipped
            let new_limit = match rng.below(5) {
                0 => size.saturating_sub(1 + rng.below(3)),
                1 => size,
                2 => size + 1 + rng.below(2000),
                3 => gen_limit6(rng),
                _ => limit,
            };
            let new_mode = if rng.chance(1, 3) { !append } else { append };
            ops.push(format!("R{}:{}", if new_mode { "a" } else { "t" }, new_limit));
            append = new_mode;
            limit = new_limit;
            if !append {
                size = 0;
            }
        } else if k == 3 {
            ops.push(format!("c{}", rng.below(100)));
        } else {
            let room = limit.saturating_sub(size);
            let rec = gen_record6(rng, i as u64 + 1, room, &mut budget);
            let len = rec.bytes().len() as u64;
            let r = rec.render();
            let is_bin = r.starts_with('b');
            let nchunks = r.split_once(':').map(|(_, b)| if b.is_empty() { 0 } else { b.split('+').count() }).unwrap_or(0) as u64;
            let special = rng.below(20);
            if special == 0 && is_bin {
                ops.push(format!("e{}!{}", rng.range(0, nchunks), r));
                continue;
            }
            let rolls = size + len > limit;
            if special == 1 && faults_ok {
                let mut kk = rng.range(0, count);
                if compress && kk == count {
                    kk = count + 1;
                }
                ops.push(format!("f{}!{}", kk, r));
                // a failed rotation leaves the file in place (model and statement decide; the generator only tracks an estimate)
                size = if rolls && kk < count.max(1) { size + len } else if rolls { 0 } else { size + len };
            } else if special == 2 {
                ops.push(format!("g!{}", r));
                size = if rolls { 0 } else { size + len };
            } else {
                ops.push(r);
                size = if rolls { 0 } else { size + len };
            }
        }
    }
    format!("seq6\t{}\t{}", case.render(), enc_list(",", &ops))
}

pub fn gen(rng: &mut Rng, n: usize, thorough: bool, emit: &mut dyn FnMut(String)) {
    // deterministic block: every limit × pre-existing size around the limit × both modes,
    // records of size limit-1, limit, limit+1, 0, multi-byte text, one above the buffer
    for &limit in LIMITS {
        for pre in [None, Some(0), Some(limit.saturating_sub(1)), Some(limit), Some(limit + 1), Some(limit + 1025)] {
            for append in [true, false] {
                for (ri, roll) in [RollSpec::Delete, RollSpec::Fw { base: 1, count: 2, pat: 0 }, RollSpec::Fw { base: 0, count: 0, pat: 0 }]
                    .iter()
                    .enumerate()
                {
                    if ri == 2 && limit != 7 {
                        continue;
                    }
                    let case = Case {
                        append,
                        pre_active: pre,
                        pre_arch: vec![],
                        trig: TrigSpec::Size(limit),
                        roll: roll.clone(),
                        clock0: 1_700_000_000,
                    };
                    let mut ops: Vec<String> = vec![];
                    let mut id = 1;
                    let mut push = |ops: &mut Vec<String>, sizes: Vec<u64>| {
                        ops.push(bin(id, sizes));
                        id += 1;
                    };
                    push(&mut ops, vec![0]);
                    push(&mut ops, vec![limit.saturating_sub(1)]);
                    push(&mut ops, vec![1]);
                    push(&mut ops, vec![1]);
                    push(&mut ops, vec![limit]);
                    push(&mut ops, vec![limit + 1]);
                    ops.push("r".to_owned());
                    push(&mut ops, vec![limit / 2, limit - limit / 2]);
                    ops.push(RecSpec::Text { id: 50, text: "é€😀".to_owned() }.render());
                    push(&mut ops, vec![1023, 1, 1]);
                    ops.push("r".to_owned());
                    push(&mut ops, vec![1]);
                    // the same history through both executors (`seq`: C05's probe; `seq6`: configuration path, all consultations)
                    emit(format!("seq\t{}\t{}", case.render(), enc_list(",", &ops)));
                    emit(format!("seq6\t{}\t{}", case.render(), enc_list(",", &ops)));
                }
            }
        }
    }
    // limits in the upper half of the u64 range (2^63 … u64::MAX): never roll, accounting stays exact
    for limit in [(1u64 << 63) - 1, 1 << 63, (1 << 63) + 1, u64::MAX] {
        for pre in [None, Some(0u64), Some(5)] {
            for append in [true, false] {
                let case = Case {
                    append,
                    pre_active: pre,
                    pre_arch: vec![],
                    trig: TrigSpec::Size(limit),
                    roll: RollSpec::Fw { base: 1, count: 2, pat: 0 },
                    clock0: 1_700_000_000,
                };
                let ops = vec![bin(1, vec![0]), bin(2, vec![1]), bin(3, vec![1500]), "r".to_owned(), bin(4, vec![3, 4])];
                emit(format!("seq\t{}\t{}", case.render(), enc_list(",", &ops)));
                emit(format!("seq6\t{}\t{}", case.render(), enc_list(",", &ops)));
            }
        }
    }
    // round 4: limits between 1 KiB and 2^63 with histories that land on N and N+1 and roll twice;
    // multi-byte text whose last character straddles the limit / the 1 KiB buffer; failed encodes;
    // failed rotations followed by further appends; restarts with a lowered / raised limit and a flipped mode
    for &limit in &[2048u64, 4096, 4097, 10 * 1024] {
        for append in [true, false] {
            for roll in [RollSpec::Delete, RollSpec::Fw { base: 0, count: 2, pat: 0 }, RollSpec::Fw { base: 1, count: 3, pat: 2 }] {
                let case = Case {
                    append,
                    pre_active: Some(limit - 1500),
                    pre_arch: vec![],
                    trig: TrigSpec::Size(limit),
                    roll: roll.clone(),
                    clock0: 1_700_000_000,
                };
                let fw = matches!(roll, RollSpec::Fw { .. });
                let room = if append { 1500 } else { limit };
                let mut ops = vec![
                    RecSpec::Text { id: 1, text: text_of_bytes(room - 2, limit) }.render(), // shown = N-2
                    RecSpec::Text { id: 2, text: "é".to_owned() }.render(),                 // shown = N exactly: no roll
                    format!("e0!{}", bin(3, vec![5])),                                        // failed encode: nothing consulted
                    RecSpec::Text { id: 4, text: "😀".to_owned() }.render(),                // N+4 > N: rolls
                    bin(5, vec![limit]),                                                      // shown = N on a fresh file: no roll
                    bin(6, vec![1]),                                                          // shown = N+1: rolls
                    bin(7, vec![1024, limit - 1024 + 1]),                                     // one record > N: rolls at once
                    format!("R{}:{}", if append { "a" } else { "t" }, 3),                    // limit lowered to 3
                    bin(8, vec![2]),
                    bin(9, vec![2]),                                                          // 4 > 3: rolls
                    format!("R{}:{}", if append { "t" } else { "a" }, limit),                // mode flipped, limit restored
                    bin(10, vec![7]),
                ];
                if fw {
                    ops.push(format!("f0!{}", bin(11, vec![limit])));                         // rotation fails: file stays over the limit
                    ops.push(bin(12, vec![1]));                                               // … and the next append rolls again
                }
                ops.push(format!("g!{}", bin(13, vec![limit + 1])));                          // roller reports Err after its work
                ops.push(bin(14, vec![1]));
                emit(format!("seq6\t{}\t{}", case.render(), enc_list(",", &ops)));
            }
        }
    }
    for _ in 0..n {
        emit(gen_seq6(rng, thorough));
    }
    for _ in 0..(n / 3).max(10) {
        emit(c05::gen_seq_case(rng, thorough, TrigChoice::Size));
    }
}

/// child-process entry point (`verif-harness child c06 …`); not needed by this property
pub fn child(_args: &[String]) -> i32 {
    2
}
