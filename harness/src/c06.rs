//! C06 — size trigger rolls exactly when the limit is exceeded; size accounting is exact.
//! Real code: `RollingFileAppender` + `CompoundPolicy(SizeTrigger, roller)` wrapped in the harness
//! `Policy` probe of `c05.rs`, which compares `LogFile::len_estimate()` with
//! `fs::metadata(path).len()` at every consultation. Case format and executor are those of C05.
use crate::c05::{self, Case, RollSpec, TrigChoice, TrigSpec};
use crate::c04::RecSpec;
use crate::proto::*;
use crate::rng::Rng;

const LIMITS: &[u64] = &[0, 1, 7, 1024, 1025];

pub fn gen(rng: &mut Rng, n: usize, thorough: bool, emit: &mut dyn FnMut(String)) {
    // deterministic block: every limit × pre-existing size around the limit × both modes,
    // records of size limit-1, limit, limit+1, 0, multi-byte text, one above the buffer
    for &limit in LIMITS {
        for pre in [None, Some(0), Some(limit.saturating_sub(1)), Some(limit), Some(limit + 1), Some(limit + 1025)] {
            for append in [true, false] {
                for (ri, roll) in [RollSpec::Delete, RollSpec::Fw { base: 1, count: 2, pat: 0 }, RollSpec::Fw { base: 0, count: 0, pat: 0 }]
                    .iter()
                    .enumerate()
                {
                    if ri == 2 && limit != 7 {
                        continue;
                    }
                    let case = Case {
                        append,
                        pre_active: pre,
                        pre_arch: vec![],
                        trig: TrigSpec::Size(limit),
                        roll: roll.clone(),
                        clock0: 1_700_000_000,
                    };
                    let mut ops: Vec<String> = vec![];
                    let mut id = 1;
                    let mut push = |ops: &mut Vec<String>, sizes: Vec<u64>| {
                        ops.push(RecSpec::Bin { id, sizes }.render());
                        id += 1;
                    };
                    push(&mut ops, vec![0]);
                    push(&mut ops, vec![limit.saturating_sub(1)]);
                    push(&mut ops, vec![1]);
                    push(&mut ops, vec![1]);
                    push(&mut ops, vec![limit]);
                    push(&mut ops, vec![limit + 1]);
                    ops.push("r".to_owned());
                    push(&mut ops, vec![limit / 2, limit - limit / 2]);
                    ops.push(RecSpec::Text { id: 50, text: "é€😀".to_owned() }.render());
                    push(&mut ops, vec![1023, 1, 1]);
                    ops.push("r".to_owned());
                    push(&mut ops, vec![1]);
                    emit(format!("seq\t{}\t{}", case.render(), enc_list(",", &ops)));
                }
            }
        }
    }
    // limits in the upper half of the u64 range (2^63 … u64::MAX): never roll, accounting stays exact
    for limit in [(1u64 << 63) - 1, 1 << 63, (1 << 63) + 1, u64::MAX] {
        for pre in [None, Some(0u64), Some(5)] {
            for append in [true, false] {
                let case = Case {
                    append,
                    pre_active: pre,
                    pre_arch: vec![],
                    trig: TrigSpec::Size(limit),
                    roll: RollSpec::Fw { base: 1, count: 2, pat: 0 },
                    clock0: 1_700_000_000,
                };
                let ops = vec![
                    RecSpec::Bin { id: 1, sizes: vec![0] }.render(),
                    RecSpec::Bin { id: 2, sizes: vec![1] }.render(),
                    RecSpec::Bin { id: 3, sizes: vec![1500] }.render(),
                    "r".to_owned(),
                    RecSpec::Bin { id: 4, sizes: vec![3, 4] }.render(),
                ];
                emit(format!("seq\t{}\t{}", case.render(), enc_list(",", &ops)));
            }
        }
    }
    for _ in 0..n {
        emit(c05::gen_seq_case(rng, thorough, TrigChoice::Size));
    }
}

pub fn exec(fields: &[&str]) -> String {
    c05::exec(fields)
}

/// child-process entry point (`verif-harness child c06 …`); not needed by this property
pub fn child(_args: &[String]) -> i32 {
    2
}
