//! C12 — JSON encoder: one record, one line, fields round-trip.
//! Real code: `JsonEncoder::new().encode(&mut SimpleWriter(Vec<u8>), &record)` on a freshly spawned
//! (named or unnamed) thread whose MDC is filled with `log_mdc::insert`.
//!
//! case : level(1..5)  message  target  module_path?  file?  line?  thread-name?  mdc(`k;v,k;v…` insertion sequence)
//! obs  : `time=<str> tid=<nat> order=<keys in log_mdc::iter order> indep=ok|FAIL-… line=<str>`
//!        `time` is cut out of the emitted line, `tid` is `thread_id::get()` of the encoding thread,
//!        `order` is what `log_mdc::iter` yields on that thread — environment facts handed to the model.
//!        `indep` is the verdict of an independent parse with `serde_json::from_slice::<Value>`.
use crate::proto::*;
use crate::rng::Rng;
use log::Level;
use log4rs::encode::{json::JsonEncoder, writer::simple::SimpleWriter, Encode};

const LEVELS: [Level; 5] = [Level::Error, Level::Warn, Level::Info, Level::Debug, Level::Trace];

/// characters the property names, plus neighbours that an escaping bug would confuse
fn special_chars() -> Vec<char> {
    let mut v: Vec<char> = (0u32..0x20).map(|c| char::from_u32(c).unwrap()).collect();
    v.extend([
        '"', '\\', '/', '\u{7f}', '\u{80}', '\u{85}', '\u{9f}', '\u{a0}', '\u{2028}', '\u{2029}', '\u{feff}', '\u{fffd}',
        '\u{ffff}', '\u{d7ff}', '\u{e000}', '\u{10000}', '\u{1f600}', '\u{10ffff}', '\u{301}', 'é', 'ß', '漢', '{', '}', '[',
        ']', ':', ',', '\'', ' ', 'u', 'n', '0',
    ]);
    v
}

const PLAIN: &[&str] = &["", "a", "app::db", "src/main.rs", "hello world", "x=1", "main", "request_id", "INFO", "null", "0"];

/// texts that look like JSON or like escapes, to catch double (un)escaping and injection
const TRICKY: &[&str] = &[
    "\\n", "\\u0041", "\\\"", "\\\\", "\"", "\\", "\"}\n{\"time\":\"x\",\"level\":\"ERROR\",\"message\":\"forged\"}", "\",\"thread_id\":1,\"x\":\"",
    "line1\nline2", "line1\r\nline2", "\n", "\r", "tab\there", "\u{8}\u{c}", "\u{0}", "a\u{0}b", "\u{1b}[31mred\u{1b}[0m", "\u{2028}", "\u{2029}",
    "\u{2028}\u{2029}\n", "\u{7f}", "\u{1f600}", "\u{10ffff}\u{10000}", "\\ud83d\\ude00", "\u{d7ff}\u{e000}", "{\"a\":1}", "[]", "null",
    "\u{feff}bom", "e\u{301}", "</script>", "\\u000a", "\\", "\\\\\"", "\"\"", "thread_id", "mdc", "time",
];

fn rand_scalar(rng: &mut Rng) -> char {
    loop {
        let c = match rng.below(6) {
            0 => rng.below(0x80),
            1 => rng.below(0x800),
            2 => rng.below(0x10000),
            3 => 0x10000 + rng.below(0x100000),
            4 => 0xd700 + rng.below(0x200),  // around the surrogate gap (surrogates themselves are skipped)
            _ => 0x2000 + rng.below(0x40),
        } as u32;
        if let Some(ch) = char::from_u32(c) {
            return ch;
        }
    }
}

fn rand_string(rng: &mut Rng, thorough: bool, no_nul: bool) -> String {
    let specials = special_chars();
    let s: String = match rng.below(10) {
        0 => (*rng.pick(PLAIN)).to_owned(),
        1 | 2 => (*rng.pick(TRICKY)).to_owned(),
        3 => format!("{}{}{}", rng.pick(PLAIN), rng.pick(TRICKY), rng.pick(PLAIN)),
        _ => {
            let max = if thorough { 40 } else { 12 };
            let len = rng.range(0, max);
            (0..len)
                .map(|_| match rng.below(10) {
                    0..=4 => *rng.pick(&specials),
                    5..=6 => (b'a' + rng.below(26) as u8) as char,
                    7 => char::from_u32(rng.below(0x20) as u32).unwrap(),
                    _ => rand_scalar(rng),
                })
                .collect()
        }
    };
    if no_nul {
        s.replace('\u{0}', "\u{1}")
    } else {
        s
    }
}

fn case_line(
    level: usize,
    msg: &str,
    target: &str,
    mp: Option<&str>,
    file: Option<&str>,
    line: Option<u32>,
    thread: Option<&str>,
    mdc: &[(String, String)],
) -> String {
    let entries: Vec<String> = mdc.iter().map(|(k, v)| format!("{};{}", enc_str(k), enc_str(v))).collect();
    format!(
        "{}\t{}\t{}\t{}\t{}\t{}\t{}\t{}",
        level,
        enc_str(msg),
        enc_str(target),
        enc_opt(mp, enc_str),
        enc_opt(file, enc_str),
        enc_opt(line, |n| n.to_string()),
        enc_opt(thread, enc_str),
        enc_list(",", &entries)
    )
}

pub fn gen(rng: &mut Rng, n: usize, thorough: bool, emit: &mut dyn FnMut(String)) {
    // ---- deterministic block -------------------------------------------------------------------
    // every control character, DEL, quote, backslash, LS/PS, an astral character: alone in each text position
    let mut singles: Vec<char> = (0u32..0x20).map(|c| char::from_u32(c).unwrap()).collect();
    singles.extend(['"', '\\', '\u{7f}', '\u{2028}', '\u{2029}', '\u{1f600}', '/']);
    let all: String = singles.iter().collect();
    let mut probes: Vec<String> = singles.iter().map(|c| format!("a{}b", c)).collect();
    probes.push(all.clone());
    probes.push(all.chars().rev().collect());
    for p in probes.iter() {
        let p_thread = p.replace('\u{0}', "\u{1}");
        emit(case_line(3, p, "t", Some("m"), Some("f"), Some(1), Some("th"), &[]));
        emit(case_line(3, "msg", p, Some("m"), Some("f"), Some(1), None, &[]));
        emit(case_line(3, "msg", "t", Some(p), None, None, None, &[]));
        emit(case_line(3, "msg", "t", None, Some(p), None, None, &[]));
        emit(case_line(3, "msg", "t", None, None, None, Some(&p_thread), &[]));
        emit(case_line(3, "msg", "t", None, None, None, None, &[(p.clone(), "v".to_owned())]));
        emit(case_line(3, "msg", "t", None, None, None, None, &[("k".to_owned(), p.clone())]));
    }
    // every level × every presence pattern × named/unnamed thread
    for level in 1..=5usize {
        for mask in 0..8u32 {
            for named in [false, true] {
                emit(case_line(
                    level,
                    "m\"\\\n",
                    "a::b",
                    if mask & 1 != 0 { Some("mod::path") } else { None },
                    if mask & 2 != 0 { Some("src/lib.rs") } else { None },
                    if mask & 4 != 0 { Some(42) } else { None },
                    if named { Some("worker-1") } else { None },
                    &[("k".to_owned(), "v".to_owned())],
                ));
            }
        }
    }
    // line number boundaries; values that look like placeholders
    for l in [0u32, 1, 9, 10, 99, 100, 4294967295, 2147483648, 1000000007] {
        emit(case_line(1, "x", "t", None, None, Some(l), None, &[]));
    }
    for s in ["", "null", "None", "<unknown>", "0"] {
        emit(case_line(2, s, s, Some(s), Some(s), Some(0), Some(if s.is_empty() { "x" } else { s }), &[(s.to_owned(), s.to_owned())]));
    }
    emit(case_line(2, "", "", Some(""), Some(""), None, Some(""), &[("".to_owned(), "".to_owned())]));
    for t in TRICKY {
        let tn = t.replace('\u{0}', "\u{1}");
        emit(case_line(4, t, t, Some(t), Some(t), Some(7), Some(&tn), &[(t.to_string(), t.to_string()), ("k".to_owned(), t.to_string())]));
    }
    // MDC: overwriting insertions, many keys (hash order), keys that collide with the struct's keys
    emit(case_line(5, "x", "t", None, None, None, None, &[("k".into(), "1".into()), ("k".into(), "2".into())]));
    emit(case_line(
        5,
        "x",
        "t",
        None,
        None,
        None,
        None,
        &["time", "level", "message", "module_path", "file", "line", "target", "thread", "thread_id", "mdc"]
            .iter()
            .map(|k| (k.to_string(), "shadow".to_string()))
            .collect::<Vec<_>>(),
    ));
    let many: Vec<(String, String)> = (0..if thorough { 200 } else { 40 }).map(|i| (format!("key{}", i), format!("v\n{}", i))).collect();
    emit(case_line(5, "x", "t", None, None, None, None, &many));

    // ---- random stream -------------------------------------------------------------------------
    for _ in 0..n {
        let level = rng.range(1, 5) as usize;
        let msg = rand_string(rng, thorough, false);
        let target = rand_string(rng, thorough, false);
        let mp = if rng.chance(1, 2) { Some(rand_string(rng, thorough, false)) } else { None };
        let file = if rng.chance(1, 2) { Some(rand_string(rng, thorough, false)) } else { None };
        let line = if rng.chance(1, 2) {
            Some(match rng.below(4) {
                0 => rng.below(10) as u32,
                1 => rng.below(100000) as u32,
                2 => u32::MAX - rng.below(3) as u32,
                _ => rng.next() as u32,
            })
        } else {
            None
        };
        let thread = if rng.chance(1, 2) { Some(rand_string(rng, thorough, true)) } else { None };
        let nm = match rng.below(6) {
            0 | 1 => 0,
            2 => 1,
            3 => 2,
            _ => rng.range(0, if thorough { 12 } else { 5 }),
        };
        let mut mdc: Vec<(String, String)> = (0..nm).map(|_| (rand_string(rng, thorough, false), rand_string(rng, thorough, false))).collect();
        if nm > 0 && rng.chance(1, 6) {
            // overwrite an existing key
            let k = mdc[rng.below(nm) as usize].0.clone();
            mdc.push((k, rand_string(rng, thorough, false)));
        }
        emit(case_line(level, &msg, &target, mp.as_deref(), file.as_deref(), line, thread.as_deref(), &mdc));
    }
}

struct Case {
    level: Level,
    msg: String,
    target: String,
    mp: Option<String>,
    file: Option<String>,
    line: Option<u32>,
    thread: Option<String>,
    mdc: Vec<(String, String)>,
}

fn dec_opt_str(s: &str) -> Option<Option<String>> {
    if s == "-" {
        Some(None)
    } else {
        dec_str(s).map(Some)
    }
}

fn decode(fields: &[&str]) -> Option<Case> {
    if fields.len() != 8 {
        return None;
    }
    let lv: usize = fields[0].parse().ok()?;
    if !(1..=5).contains(&lv) {
        return None;
    }
    let line = if fields[5] == "-" { None } else { Some(fields[5].parse::<u32>().ok()?) };
    let mut mdc = vec![];
    for e in dec_list(',', fields[7]) {
        let kv: Vec<&str> = e.split(';').collect();
        if kv.len() != 2 {
            return None;
        }
        mdc.push((dec_str(kv[0])?, dec_str(kv[1])?));
    }
    let thread = dec_opt_str(fields[6])?;
    if let Some(t) = &thread {
        if t.contains('\u{0}') {
            return None; // std refuses thread names with interior NUL
        }
    }
    Some(Case {
        level: LEVELS[lv - 1],
        msg: dec_str(fields[1])?,
        target: dec_str(fields[2])?,
        mp: dec_opt_str(fields[3])?,
        file: dec_opt_str(fields[4])?,
        line,
        thread,
        mdc,
    })
}

struct Run {
    out: Result<Result<Vec<u8>, String>, String>,
    tid: usize,
    order: Vec<String>,
}

fn run_on_thread(c: &Case) -> Run {
    let (level, msg, target, mp, file, line, mdc) =
        (c.level, c.msg.clone(), c.target.clone(), c.mp.clone(), c.file.clone(), c.line, c.mdc.clone());
    let body = move || {
        log_mdc::clear();
        for (k, v) in mdc.iter() {
            log_mdc::insert(k.clone(), v.clone());
        }
        let mut order = vec![];
        log_mdc::iter(|k, _| order.push(k.to_owned()));
        let tid = thread_id::get();
        let out = guarded(move || {
            let mut buf: Vec<u8> = vec![];
            let r = JsonEncoder::new().encode(
                &mut SimpleWriter(&mut buf),
                &log::Record::builder()
                    .level(level)
                    .target(&target)
                    .module_path(mp.as_deref())
                    .file(file.as_deref())
                    .line(line)
                    .args(format_args!("{}", msg))
                    .build(),
            );
            r.map(|()| buf).map_err(|e| e.to_string())
        });
        log_mdc::clear();
        Run { out, tid, order }
    };
    let builder = match &c.thread {
        Some(name) => std::thread::Builder::new().name(name.clone()),
        None => std::thread::Builder::new(),
    };
    builder.spawn(body).expect("spawn").join().expect("join")
}

fn independent(c: &Case, bytes: &[u8], tid: usize) -> String {
    use serde_json::Value;
    let v: Value = match serde_json::from_slice(bytes) {
        Ok(v) => v,
        Err(_) => return "FAIL-parse".to_owned(),
    };
    let o = match v.as_object() {
        Some(o) => o,
        None => return "FAIL-not-object".to_owned(),
    };
    let mut map = std::collections::BTreeMap::new();
    for (k, v) in c.mdc.iter() {
        map.insert(k.clone(), v.clone());
    }
    let level = match c.level {
        Level::Error => "ERROR",
        Level::Warn => "WARN",
        Level::Info => "INFO",
        Level::Debug => "DEBUG",
        Level::Trace => "TRACE",
    };
    let opt_str = |k: &str, want: &Option<String>| match (o.get(k), want) {
        (None, None) => true,
        (Some(Value::String(s)), Some(w)) => s == w,
        _ => false,
    };
    if o.get("message").and_then(|x| x.as_str()) != Some(&c.msg) {
        return "FAIL-message".to_owned();
    }
    if o.get("level").and_then(|x| x.as_str()) != Some(level) {
        return "FAIL-level".to_owned();
    }
    if o.get("target").and_then(|x| x.as_str()) != Some(&c.target) {
        return "FAIL-target".to_owned();
    }
    if !opt_str("module_path", &c.mp) {
        return "FAIL-module_path".to_owned();
    }
    if !opt_str("file", &c.file) {
        return "FAIL-file".to_owned();
    }
    match (o.get("line"), c.line) {
        (None, None) => {}
        (Some(Value::Number(n)), Some(w)) if n.as_u64() == Some(w as u64) => {}
        _ => return "FAIL-line".to_owned(),
    }
    match (o.get("thread"), &c.thread) {
        (Some(Value::Null), None) => {}
        (Some(Value::String(s)), Some(w)) if s == w => {}
        _ => return "FAIL-thread".to_owned(),
    }
    if o.get("thread_id").and_then(|x| x.as_u64()) != Some(tid as u64) {
        return "FAIL-thread_id".to_owned();
    }
    if o.get("time").and_then(|x| x.as_str()).is_none() {
        return "FAIL-time".to_owned();
    }
    match o.get("mdc").and_then(|x| x.as_object()) {
        Some(m) => {
            if m.len() != map.len() || !map.iter().all(|(k, v)| m.get(k).and_then(|x| x.as_str()) == Some(v)) {
                return "FAIL-mdc".to_owned();
            }
        }
        None => return "FAIL-mdc".to_owned(),
    }
    let expected_keys = 7 + c.mp.is_some() as usize + c.file.is_some() as usize + c.line.is_some() as usize;
    if o.len() != expected_keys {
        return "FAIL-keys".to_owned();
    }
    if bytes.iter().filter(|b| **b == b'\n').count() != 1 || bytes.last() != Some(&b'\n') {
        return "FAIL-newline".to_owned();
    }
    "ok".to_owned()
}

pub fn exec(fields: &[&str]) -> String {
    let c = match decode(fields) {
        Some(c) => c,
        None => return "bad-case".to_owned(),
    };
    let run = run_on_thread(&c);
    let bytes = match run.out {
        Err(_) => return "PANIC".to_owned(),
        Ok(Err(e)) => return format!("ERR:{}", e.replace(|ch: char| ch.is_whitespace(), "_")),
        Ok(Ok(b)) => b,
    };
    let text = match String::from_utf8(bytes.clone()) {
        Ok(t) => t,
        Err(_) => return format!("NONUTF8:{}", enc_bytes(&bytes)),
    };
    // the time value: the first member; RFC 3339 text contains no quote
    let time = text
        .strip_prefix("{\"time\":\"")
        .and_then(|rest| rest.find('"').map(|i| rest[..i].to_owned()))
        .unwrap_or_default();
    let order: Vec<String> = run.order.iter().map(|k| enc_str(k)).collect();
    format!(
        "time={} tid={} order={} indep={} line={}",
        enc_str(&time),
        run.tid,
        enc_list(",", &order),
        independent(&c, &bytes, run.tid),
        enc_str(&text)
    )
}

/// child-process entry point (unused by this property)
pub fn child(_args: &[String]) -> i32 {
    2
}
