//! C12 — JSON encoder: one record, one line, fields round-trip.
//! Real code: `JsonEncoder::new().encode(&mut SimpleWriter(Vec<u8>), &record)` on a freshly spawned
//! (named or unnamed) thread whose MDC is filled with `log_mdc::insert`.
//!
//! case : level(1..5)  message  target  module_path?  file?  line?  thread-name?  mdc(`k;v,k;v…` insertion sequence)
//!        message = <str> (one `{}` argument) | `args:p1,p2,…` (0–4 `{}` arguments: `format_args!("{}{}", p1, p2)`) |
//!        `lit:a` (`format_args!("request body: {} (end)", a)`) | `const:~` (a literal without arguments) |
//!        `chars:s` (a `Display` that hands over one character per `write_str`) | `pad:a,b` (`"{:>6}|{:<4}|"`)
//! obs  : `time=<str> tid=<nat> order=<keys in log_mdc::iter order> indep=ok|FAIL-… line=<str>`
//!        `time` is cut out of the emitted line, `tid` is `thread_id::get()` of the encoding thread,
//!        `order` is what `log_mdc::iter` yields on that thread — environment facts handed to the model.
//!        `indep` is the verdict of an independent parse with `serde_json::from_slice::<Value>`.
//!
//! Several threads (`multi`): one shared `JsonEncoder`, every entry on its own thread context.
//! case : `multi`  mode  entry|entry|…   entry = thread?;level;message;target;module_path?;file?;line?;mdc
//!        mode = `main` (all entries on the harness' own main thread, thread must be `main`) | `succ` (a fresh thread per
//!        entry, joined before the next is spawned — the OS hands the thread id out again) | `conc` (all threads alive at
//!        the same time, encoding between two barriers)
//! obs  : `multi` + per entry ` tid;time;order;kind;indep;payload`
//!
//! History cases: several encodes on ONE thread with ONE `JsonEncoder`.
//! case : `seq`  thread-name?  step|step|…   step = level;message;target;module_path?;file?;line?;mdc;writer;display
//!        mdc = `~` | `k:v,k:v…` (cleared and refilled before the step); writer = `ok` | `a<k>` (fail after k bytes) |
//!        `m<j>` (j bytes into the message text) | `d<j>` (j bytes into the MDC object) | `e<j>` (j bytes before the end);
//!        display = `-` | n (the message's `Display` writes n characters and then returns `fmt::Error`)
//! obs  : `seq:<tid>` + per step ` time;k;order;kind;indep;iso;payload` (kind ok|err|panic; payload `t<chars>` for a
//!        completed line, `b<hex>` for the bytes of an unfinished encode; `iso` = the line equals, as JSON without
//!        time/thread_id, what a fresh thread with a fresh encoder emits for the same record and MDC)
use crate::proto::*;
use crate::rng::Rng;
use log::Level;
use log4rs::encode::{json::JsonEncoder, writer::simple::SimpleWriter, Encode};

const LEVELS: [Level; 5] = [Level::Error, Level::Warn, Level::Info, Level::Debug, Level::Trace];

/// characters the property names, plus neighbours that an escaping bug would confuse
fn special_chars() -> Vec<char> {
    let mut v: Vec<char> = (0u32..0x20).map(|c| char::from_u32(c).unwrap()).collect();
    v.extend([
        '"', '\\', '/', '\u{7f}', '\u{80}', '\u{85}', '\u{9f}', '\u{a0}', '\u{2028}', '\u{2029}', '\u{feff}', '\u{fffd}',
        '\u{ffff}', '\u{d7ff}', '\u{e000}', '\u{10000}', '\u{1f600}', '\u{10ffff}', '\u{301}', 'é', 'ß', '漢', '{', '}', '[',
        ']', ':', ',', '\'', ' ', 'u', 'n', '0',
    ]);
    v
}

const PLAIN: &[&str] = &["", "a", "app::db", "src/main.rs", "hello world", "x=1", "main", "request_id", "INFO", "null", "0"];

/// texts that look like JSON or like escapes, to catch double (un)escaping and injection
const TRICKY: &[&str] = &[
    "\\n", "\\u0041", "\\\"", "\\\\", "\"", "\\", "\"}\n{\"time\":\"x\",\"level\":\"ERROR\",\"message\":\"forged\"}", "\",\"thread_id\":1,\"x\":\"",
    "line1\nline2", "line1\r\nline2", "\n", "\r", "tab\there", "\u{8}\u{c}", "\u{0}", "a\u{0}b", "\u{1b}[31mred\u{1b}[0m", "\u{2028}", "\u{2029}",
    "\u{2028}\u{2029}\n", "\u{7f}", "\u{1f600}", "\u{10ffff}\u{10000}", "\\ud83d\\ude00", "\u{d7ff}\u{e000}", "{\"a\":1}", "[]", "null",
    "\u{feff}bom", "e\u{301}", "</script>", "\\u000a", "\\", "\\\\\"", "\"\"", "thread_id", "mdc", "time",
];

fn rand_scalar(rng: &mut Rng) -> char {
    loop {
        let c = match rng.below(6) {
            0 => rng.below(0x80),
            1 => rng.below(0x800),
            2 => rng.below(0x10000),
            3 => 0x10000 + rng.below(0x100000),
            4 => 0xd700 + rng.below(0x200),  // around the surrogate gap (surrogates themselves are skipped)
            _ => 0x2000 + rng.below(0x40),
        } as u32;
        if let Some(ch) = char::from_u32(c) {
            return ch;
        }
    }
}

fn rand_string(rng: &mut Rng, thorough: bool, no_nul: bool) -> String {
    let specials = special_chars();
    let s: String = match rng.below(10) {
        0 => (*rng.pick(PLAIN)).to_owned(),
        1 | 2 => (*rng.pick(TRICKY)).to_owned(),
        3 => format!("{}{}{}", rng.pick(PLAIN), rng.pick(TRICKY), rng.pick(PLAIN)),
        _ => {
            let max = if thorough { 40 } else { 12 };
            let len = rng.range(0, max);
            (0..len)
                .map(|_| match rng.below(10) {
                    0..=4 => *rng.pick(&specials),
                    5..=6 => (b'a' + rng.below(26) as u8) as char,
                    7 => char::from_u32(rng.below(0x20) as u32).unwrap(),
                    _ => rand_scalar(rng),
                })
                .collect()
        }
    };
    if no_nul {
        s.replace('\u{0}', "\u{1}")
    } else {
        s
    }
}

/// how the message reaches the encoder: which `format_args!` shape, hence which `write_str` pieces
#[derive(Clone, PartialEq)]
enum Shape {
    Plain,
    Args,
    Lit,
    Const,
    Chars,
    Pad,
}

const LIT_HEAD: &str = "request body: ";
const LIT_TAIL: &str = " (end)";
const CONST_TEXT: &str = "static \"literal\" \\ message\n";

#[derive(Clone)]
struct Msg {
    shape: Shape,
    parts: Vec<String>,
    text: String,
}

fn pad_left(s: &str, w: usize) -> String {
    let n = s.chars().count();
    format!("{}{}", " ".repeat(w.saturating_sub(n)), s)
}

fn pad_right(s: &str, w: usize) -> String {
    let n = s.chars().count();
    format!("{}{}", s, " ".repeat(w.saturating_sub(n)))
}

impl Msg {
    fn new(shape: Shape, parts: Vec<String>) -> Option<Msg> {
        let text = match shape {
            Shape::Plain | Shape::Chars => {
                if parts.len() != 1 {
                    return None;
                }
                parts[0].clone()
            }
            Shape::Args => {
                if parts.len() > 4 {
                    return None;
                }
                parts.concat()
            }
            Shape::Lit => {
                if parts.len() != 1 {
                    return None;
                }
                format!("{}{}{}", LIT_HEAD, parts[0], LIT_TAIL)
            }
            Shape::Const => {
                if !parts.is_empty() {
                    return None;
                }
                CONST_TEXT.to_owned()
            }
            Shape::Pad => {
                if parts.len() != 2 {
                    return None;
                }
                format!("{}|{}|", pad_left(&parts[0], 6), pad_right(&parts[1], 4))
            }
        };
        Some(Msg { shape, parts, text })
    }
    fn plain(s: &str) -> Msg {
        Msg { shape: Shape::Plain, parts: vec![s.to_owned()], text: s.to_owned() }
    }
    fn enc(&self) -> String {
        let tag = match self.shape {
            Shape::Plain => return enc_str(&self.text),
            Shape::Args => "args",
            Shape::Lit => "lit",
            Shape::Const => "const",
            Shape::Chars => "chars",
            Shape::Pad => "pad",
        };
        let ps: Vec<String> = self.parts.iter().map(|p| enc_str(p)).collect();
        format!("{}:{}", tag, enc_list(",", &ps))
    }
    fn dec(s: &str) -> Option<Msg> {
        match s.split_once(':') {
            None => dec_str(s).map(|t| Msg::plain(&t)),
            Some((tag, rest)) => {
                let shape = match tag {
                    "args" => Shape::Args,
                    "lit" => Shape::Lit,
                    "const" => Shape::Const,
                    "chars" => Shape::Chars,
                    "pad" => Shape::Pad,
                    _ => return None,
                };
                let parts: Option<Vec<String>> = dec_list(',', rest).iter().map(|p| dec_str(p)).collect();
                Msg::new(shape, parts?)
            }
        }
    }
}

/// hands over its text one character per `write_str`
struct PerChar<'a>(&'a str);

impl<'a> std::fmt::Display for PerChar<'a> {
    fn fmt(&self, f: &mut std::fmt::Formatter) -> std::fmt::Result {
        let mut b = [0u8; 4];
        for c in self.0.chars() {
            f.write_str(c.encode_utf8(&mut b))?;
        }
        Ok(())
    }
}

/// builds the `fmt::Arguments` of a message shape and hands it to `f` (the value cannot outlive the expression)
fn with_message<R>(m: &Msg, f: &mut dyn FnMut(std::fmt::Arguments) -> R) -> R {
    let p = &m.parts;
    match m.shape {
        Shape::Plain => f(format_args!("{}", p[0])),
        Shape::Args => match p.len() {
            0 => f(format_args!("")),
            1 => f(format_args!("{}", p[0])),
            2 => f(format_args!("{}{}", p[0], p[1])),
            3 => f(format_args!("{}{}{}", p[0], p[1], p[2])),
            _ => f(format_args!("{}{}{}{}", p[0], p[1], p[2], p[3])),
        },
        Shape::Lit => f(format_args!("request body: {} (end)", p[0])),
        Shape::Const => f(format_args!("static \"literal\" \\ message\n")),
        Shape::Chars => f(format_args!("{}", PerChar(&p[0]))),
        Shape::Pad => f(format_args!("{:>6}|{:<4}|", p[0], p[1])),
    }
}

fn case_line(
    level: usize,
    msg: &str,
    target: &str,
    mp: Option<&str>,
    file: Option<&str>,
    line: Option<u32>,
    thread: Option<&str>,
    mdc: &[(String, String)],
) -> String {
    case_line_m(level, &Msg::plain(msg), target, mp, file, line, thread, mdc)
}

#[allow(clippy::too_many_arguments)]
fn case_line_m(
    level: usize,
    msg: &Msg,
    target: &str,
    mp: Option<&str>,
    file: Option<&str>,
    line: Option<u32>,
    thread: Option<&str>,
    mdc: &[(String, String)],
) -> String {
    let entries: Vec<String> = mdc.iter().map(|(k, v)| format!("{};{}", enc_str(k), enc_str(v))).collect();
    format!(
        "{}\t{}\t{}\t{}\t{}\t{}\t{}\t{}",
        level,
        msg.enc(),
        enc_str(target),
        enc_opt(mp, enc_str),
        enc_opt(file, enc_str),
        enc_opt(line, |n| n.to_string()),
        enc_opt(thread, enc_str),
        enc_list(",", &entries)
    )
}

pub fn gen(rng: &mut Rng, n: usize, thorough: bool, emit: &mut dyn FnMut(String)) {
    // ---- deterministic block -------------------------------------------------------------------
    // every control character, DEL, quote, backslash, LS/PS, an astral character: alone in each text position
    let mut singles: Vec<char> = (0u32..0x20).map(|c| char::from_u32(c).unwrap()).collect();
    singles.extend(['"', '\\', '\u{7f}', '\u{2028}', '\u{2029}', '\u{1f600}', '/']);
    let all: String = singles.iter().collect();
    let mut probes: Vec<String> = singles.iter().map(|c| format!("a{}b", c)).collect();
    probes.push(all.clone());
    probes.push(all.chars().rev().collect());
    for p in probes.iter() {
        let p_thread = p.replace('\u{0}', "\u{1}");
        emit(case_line(3, p, "t", Some("m"), Some("f"), Some(1), Some("th"), &[]));
        emit(case_line(3, "msg", p, Some("m"), Some("f"), Some(1), None, &[]));
        emit(case_line(3, "msg", "t", Some(p), None, None, None, &[]));
        emit(case_line(3, "msg", "t", None, Some(p), None, None, &[]));
        emit(case_line(3, "msg", "t", None, None, None, Some(&p_thread), &[]));
        emit(case_line(3, "msg", "t", None, None, None, None, &[(p.clone(), "v".to_owned())]));
        emit(case_line(3, "msg", "t", None, None, None, None, &[("k".to_owned(), p.clone())]));
    }
    // every level × every presence pattern × named/unnamed thread
    for level in 1..=5usize {
        for mask in 0..8u32 {
            for named in [false, true] {
                emit(case_line(
                    level,
                    "m\"\\\n",
                    "a::b",
                    if mask & 1 != 0 { Some("mod::path") } else { None },
                    if mask & 2 != 0 { Some("src/lib.rs") } else { None },
                    if mask & 4 != 0 { Some(42) } else { None },
                    if named { Some("worker-1") } else { None },
                    &[("k".to_owned(), "v".to_owned())],
                ));
            }
        }
    }
    // line number boundaries; values that look like placeholders
    for l in [0u32, 1, 9, 10, 99, 100, 4294967295, 2147483648, 1000000007] {
        emit(case_line(1, "x", "t", None, None, Some(l), None, &[]));
    }
    for s in ["", "null", "None", "<unknown>", "0"] {
        emit(case_line(2, s, s, Some(s), Some(s), Some(0), Some(if s.is_empty() { "x" } else { s }), &[(s.to_owned(), s.to_owned())]));
    }
    emit(case_line(2, "", "", Some(""), Some(""), None, Some(""), &[("".to_owned(), "".to_owned())]));
    for t in TRICKY {
        let tn = t.replace('\u{0}', "\u{1}");
        emit(case_line(4, t, t, Some(t), Some(t), Some(7), Some(&tn), &[(t.to_string(), t.to_string()), ("k".to_owned(), t.to_string())]));
    }
    // MDC: overwriting insertions, many keys (hash order), keys that collide with the struct's keys
    emit(case_line(5, "x", "t", None, None, None, None, &[("k".into(), "1".into()), ("k".into(), "2".into())]));
    emit(case_line(
        5,
        "x",
        "t",
        None,
        None,
        None,
        None,
        &["time", "level", "message", "module_path", "file", "line", "target", "thread", "thread_id", "mdc"]
            .iter()
            .map(|k| (k.to_string(), "shadow".to_string()))
            .collect::<Vec<_>>(),
    ));
    let many: Vec<(String, String)> = (0..if thorough { 200 } else { 40 }).map(|i| (format!("key{}", i), format!("v\n{}", i))).collect();
    emit(case_line(5, "x", "t", None, None, None, None, &many));

    // ---- message shapes: the same text reaches the encoder as one, several or very many `write_str` pieces ----------
    {
        let long128: String = "L".repeat(127) + "\"";
        let long129 = long_text(rng, 129, 129);
        let long1k = long_text(rng, 1024, 1024);
        let long9k = long_text(rng, 9000, 9000);
        let shapes: Vec<Msg> = vec![
            Msg::new(Shape::Args, vec![]).unwrap(),
            Msg::new(Shape::Const, vec![]).unwrap(),
            Msg::new(Shape::Args, vec!["only".into()]).unwrap(),
            // an escape sequence must not be assembled across a piece boundary: `\` then `n`, `\` then `"`, `\u` then digits
            Msg::new(Shape::Args, vec!["a\\".into(), "n".into()]).unwrap(),
            Msg::new(Shape::Args, vec!["\\".into(), "\"".into(), "\\".into()]).unwrap(),
            Msg::new(Shape::Args, vec!["\\u".into(), "00".into(), "41".into(), "\n".into()]).unwrap(),
            Msg::new(Shape::Args, vec!["\u{d7ff}".into(), "\u{1f600}".into(), "\u{e000}".into()]).unwrap(),
            Msg::new(Shape::Args, vec!["".into(), "".into(), "x".into(), "".into()]).unwrap(),
            // a long piece right after a short one (and before one): 128, 129, 1024, 9000
            Msg::new(Shape::Args, vec!["id=".into(), long128.clone()]).unwrap(),
            Msg::new(Shape::Args, vec!["id=".into(), long129.clone(), " done".into()]).unwrap(),
            Msg::new(Shape::Args, vec!["k".into(), long1k.clone(), "\n".into(), long129.clone()]).unwrap(),
            Msg::new(Shape::Args, vec!["0123456789".into(), long9k.clone()]).unwrap(),
            Msg::new(Shape::Args, vec![long129.clone(), "tail".into()]).unwrap(),
            Msg::new(Shape::Lit, vec!["short".into()]).unwrap(),
            Msg::new(Shape::Lit, vec![long128.clone()]).unwrap(),
            Msg::new(Shape::Lit, vec![long1k.clone()]).unwrap(),
            Msg::new(Shape::Lit, vec![long9k.clone()]).unwrap(),
            Msg::new(Shape::Lit, vec!["q\"\n\\".into()]).unwrap(),
            Msg::new(Shape::Chars, vec![all.clone()]).unwrap(),
            Msg::new(Shape::Chars, vec![long129.clone()]).unwrap(),
            Msg::new(Shape::Chars, vec![String::new()]).unwrap(),
            Msg::new(Shape::Pad, vec!["ab".into(), "c".into()]).unwrap(),
            Msg::new(Shape::Pad, vec!["\u{1f600}\n".into(), "\"".into()]).unwrap(),
            Msg::new(Shape::Pad, vec!["longer than six".into(), long129.clone()]).unwrap(),
            Msg::new(Shape::Pad, vec![String::new(), String::new()]).unwrap(),
        ];
        for (i, m) in shapes.iter().enumerate() {
            let named = if i % 2 == 0 { Some("shape") } else { None };
            emit(case_line_m(1 + i % 5, m, "shapes", Some("m"), None, Some(i as u32), named, &[("k".to_owned(), "v".to_owned())]));
        }
    }
    // ---- length: a long arbitrary-Unicode string in each text position ---------------------------------------
    {
        let (lo, hi) = if thorough { (3000, 5000) } else { (600, 1200) };
        for pos in 0..7 {
            let big = rand_long_unicode(rng, lo, hi, pos == 4);
            let (mut msg, mut target, mut mp, mut file, mut thread, mut mdc) =
                ("m".to_owned(), "t".to_owned(), Some("mp".to_owned()), Some("f".to_owned()), Some("th".to_owned()), vec![("k".to_owned(), "v".to_owned())]);
            match pos {
                0 => msg = big,
                1 => target = big,
                2 => mp = Some(big),
                3 => file = Some(big),
                4 => thread = Some(big),
                5 => mdc[0].0 = big,
                _ => mdc[0].1 = big,
            }
            emit(case_line(2, &msg, &target, mp.as_deref(), file.as_deref(), Some(1), thread.as_deref(), &mdc));
        }
    }

    // ---- random stream -------------------------------------------------------------------------
    for _ in 0..n {
        let level = rng.range(1, 5) as usize;
        // now and then one position carries a long random-Unicode text
        let long_pos: Option<u64> = if rng.chance(1, if thorough { 30 } else { 40 }) { Some(rng.below(7)) } else { None };
        let (llo, lhi) = if thorough { (200, 4000) } else { (200, 900) };
        let mut pick = |rng: &mut Rng, pos: u64, no_nul: bool| -> String {
            if long_pos == Some(pos) {
                rand_long_unicode(rng, llo, lhi, no_nul)
            } else {
                rand_string(rng, thorough, no_nul)
            }
        };
        let msg = pick(rng, 0, false);
        let msg = rand_shape(rng, msg);
        let target = pick(rng, 1, false);
        let mp = if rng.chance(1, 2) || long_pos == Some(2) { Some(pick(rng, 2, false)) } else { None };
        let file = if rng.chance(1, 2) || long_pos == Some(3) { Some(pick(rng, 3, false)) } else { None };
        let line = if rng.chance(1, 2) {
            Some(match rng.below(4) {
                0 => rng.below(10) as u32,
                1 => rng.below(100000) as u32,
                2 => u32::MAX - rng.below(3) as u32,
                _ => rng.next() as u32,
            })
        } else {
            None
        };
        let thread = if rng.chance(1, 2) || long_pos == Some(4) { Some(pick(rng, 4, true)) } else { None };
        let mut nm = match rng.below(6) {
            0 | 1 => 0,
            2 => 1,
            3 => 2,
            _ => rng.range(0, if thorough { 12 } else { 5 }),
        };
        if long_pos >= Some(5) && nm == 0 {
            nm = 1;
        }
        let mut mdc: Vec<(String, String)> = (0..nm).map(|_| (rand_string(rng, thorough, false), rand_string(rng, thorough, false))).collect();
        if long_pos == Some(5) {
            mdc[0].0 = pick(rng, 5, false);
        }
        if long_pos == Some(6) {
            mdc[0].1 = pick(rng, 6, false);
        }
        if nm > 0 && rng.chance(1, 6) {
            // overwrite an existing key
            let k = mdc[rng.below(nm) as usize].0.clone();
            mdc.push((k, rand_string(rng, thorough, false)));
        }
        emit(case_line_m(level, &msg, &target, mp.as_deref(), file.as_deref(), line, thread.as_deref(), &mdc));
    }
    gen_multi(rng, n, thorough, emit);
    gen_seq(rng, n, thorough, emit);
}

struct Case {
    level: Level,
    msg: Msg,
    target: String,
    mp: Option<String>,
    file: Option<String>,
    line: Option<u32>,
    thread: Option<String>,
    mdc: Vec<(String, String)>,
}

fn dec_opt_str(s: &str) -> Option<Option<String>> {
    if s == "-" {
        Some(None)
    } else {
        dec_str(s).map(Some)
    }
}

fn decode(fields: &[&str]) -> Option<Case> {
    if fields.len() != 8 {
        return None;
    }
    let lv: usize = fields[0].parse().ok()?;
    if !(1..=5).contains(&lv) {
        return None;
    }
    let line = if fields[5] == "-" { None } else { Some(fields[5].parse::<u32>().ok()?) };
    let mut mdc = vec![];
    for e in dec_list(',', fields[7]) {
        let kv: Vec<&str> = e.split(';').collect();
        if kv.len() != 2 {
            return None;
        }
        mdc.push((dec_str(kv[0])?, dec_str(kv[1])?));
    }
    let thread = dec_opt_str(fields[6])?;
    if let Some(t) = &thread {
        if t.contains('\u{0}') {
            return None; // std refuses thread names with interior NUL
        }
    }
    Some(Case {
        level: LEVELS[lv - 1],
        msg: Msg::dec(fields[1])?,
        target: dec_str(fields[2])?,
        mp: dec_opt_str(fields[3])?,
        file: dec_opt_str(fields[4])?,
        line,
        thread,
        mdc,
    })
}

struct Run {
    out: Result<Result<Vec<u8>, String>, String>,
    tid: usize,
    order: Vec<String>,
}

fn run_on_thread(c: &Case) -> Run {
    let (level, msg, target, mp, file, line, mdc) =
        (c.level, c.msg.clone(), c.target.clone(), c.mp.clone(), c.file.clone(), c.line, c.mdc.clone());
    let body = move || {
        log_mdc::clear();
        for (k, v) in mdc.iter() {
            log_mdc::insert(k.clone(), v.clone());
        }
        let mut order = vec![];
        log_mdc::iter(|k, _| order.push(k.to_owned()));
        let tid = thread_id::get();
        let out = guarded(move || {
            let mut buf: Vec<u8> = vec![];
            let r = with_message(&msg, &mut |args| {
                JsonEncoder::new().encode(
                    &mut SimpleWriter(&mut buf),
                    &log::Record::builder()
                        .level(level)
                        .target(&target)
                        .module_path(mp.as_deref())
                        .file(file.as_deref())
                        .line(line)
                        .args(args)
                        .build(),
                )
            });
            r.map(|()| buf).map_err(|e| e.to_string())
        });
        log_mdc::clear();
        Run { out, tid, order }
    };
    let builder = match &c.thread {
        Some(name) => std::thread::Builder::new().name(name.clone()),
        None => std::thread::Builder::new(),
    };
    builder.spawn(body).expect("spawn").join().expect("join")
}

fn independent(c: &Case, bytes: &[u8], tid: usize) -> String {
    use serde_json::Value;
    let v: Value = match serde_json::from_slice(bytes) {
        Ok(v) => v,
        Err(_) => return "FAIL-parse".to_owned(),
    };
    let o = match v.as_object() {
        Some(o) => o,
        None => return "FAIL-not-object".to_owned(),
    };
    let mut map = std::collections::BTreeMap::new();
    for (k, v) in c.mdc.iter() {
        map.insert(k.clone(), v.clone());
    }
    let level = match c.level {
        Level::Error => "ERROR",
        Level::Warn => "WARN",
        Level::Info => "INFO",
        Level::Debug => "DEBUG",
        Level::Trace => "TRACE",
    };
    let opt_str = |k: &str, want: &Option<String>| match (o.get(k), want) {
        (None, None) => true,
        (Some(Value::String(s)), Some(w)) => s == w,
        _ => false,
    };
    if o.get("message").and_then(|x| x.as_str()) != Some(&c.msg.text) {
        return "FAIL-message".to_owned();
    }
    if o.get("level").and_then(|x| x.as_str()) != Some(level) {
        return "FAIL-level".to_owned();
    }
    if o.get("target").and_then(|x| x.as_str()) != Some(&c.target) {
        return "FAIL-target".to_owned();
    }
    if !opt_str("module_path", &c.mp) {
        return "FAIL-module_path".to_owned();
    }
    if !opt_str("file", &c.file) {
        return "FAIL-file".to_owned();
    }
    match (o.get("line"), c.line) {
        (None, None) => {}
        (Some(Value::Number(n)), Some(w)) if n.as_u64() == Some(w as u64) => {}
        _ => return "FAIL-line".to_owned(),
    }
    match (o.get("thread"), &c.thread) {
        (Some(Value::Null), None) => {}
        (Some(Value::String(s)), Some(w)) if s == w => {}
        _ => return "FAIL-thread".to_owned(),
    }
    if o.get("thread_id").and_then(|x| x.as_u64()) != Some(tid as u64) {
        return "FAIL-thread_id".to_owned();
    }
    if o.get("time").and_then(|x| x.as_str()).is_none() {
        return "FAIL-time".to_owned();
    }
    match o.get("mdc").and_then(|x| x.as_object()) {
        Some(m) => {
            if m.len() != map.len() || !map.iter().all(|(k, v)| m.get(k).and_then(|x| x.as_str()) == Some(v)) {
                return "FAIL-mdc".to_owned();
            }
        }
        None => return "FAIL-mdc".to_owned(),
    }
    let expected_keys = 7 + c.mp.is_some() as usize + c.file.is_some() as usize + c.line.is_some() as usize;
    if o.len() != expected_keys {
        return "FAIL-keys".to_owned();
    }
    if bytes.iter().filter(|b| **b == b'\n').count() != 1 || bytes.last() != Some(&b'\n') {
        return "FAIL-newline".to_owned();
    }
    "ok".to_owned()
}

pub fn exec(fields: &[&str]) -> String {
    if fields.first() == Some(&"seq") {
        return exec_seq(fields);
    }
    if fields.first() == Some(&"multi") {
        return exec_multi(fields);
    }
    let c = match decode(fields) {
        Some(c) => c,
        None => return "bad-case".to_owned(),
    };
    let run = run_on_thread(&c);
    let bytes = match run.out {
        Err(_) => return "PANIC".to_owned(),
        Ok(Err(e)) => return format!("ERR:{}", e.replace(|ch: char| ch.is_whitespace(), "_")),
        Ok(Ok(b)) => b,
    };
    let text = match String::from_utf8(bytes.clone()) {
        Ok(t) => t,
        Err(_) => return format!("NONUTF8:{}", enc_bytes(&bytes)),
    };
    // the time value: the first member; RFC 3339 text contains no quote
    let time = text
        .strip_prefix("{\"time\":\"")
        .and_then(|rest| rest.find('"').map(|i| rest[..i].to_owned()))
        .unwrap_or_default();
    let order: Vec<String> = run.order.iter().map(|k| enc_str(k)).collect();
    format!(
        "time={} tid={} order={} indep={} line={}",
        enc_str(&time),
        run.tid,
        enc_list(",", &order),
        independent(&c, &bytes, run.tid),
        enc_str(&text)
    )
}

/// child-process entry point (unused by this property)
pub fn child(_args: &[String]) -> i32 {
    2
}

// ------------------------------------------------------------------------------------------------
// histories
// ------------------------------------------------------------------------------------------------

#[derive(Clone)]
struct StepSpec {
    level: usize,
    msg: Msg,
    target: String,
    mp: Option<String>,
    file: Option<String>,
    line: Option<u32>,
    mdc: Vec<(String, String)>,
    writer: String,
    display: Option<usize>,
}

fn step_text(s: &StepSpec) -> String {
    let entries: Vec<String> = s.mdc.iter().map(|(k, v)| format!("{}:{}", enc_str(k), enc_str(v))).collect();
    format!(
        "{};{};{};{};{};{};{};{};{}",
        s.level,
        s.msg.enc(),
        enc_str(&s.target),
        enc_opt(s.mp.as_deref(), enc_str),
        enc_opt(s.file.as_deref(), enc_str),
        enc_opt(s.line, |n| n.to_string()),
        enc_list(",", &entries),
        s.writer,
        enc_opt(s.display, |n| n.to_string())
    )
}

fn seq_line(thread: Option<&str>, steps: &[StepSpec]) -> String {
    let st: Vec<String> = steps.iter().map(step_text).collect();
    format!("seq\t{}\t{}", enc_opt(thread, enc_str), st.join("|"))
}

fn plain_step(msg: &str) -> StepSpec {
    StepSpec {
        level: 3,
        msg: Msg::plain(msg),
        target: "app::db".to_owned(),
        mp: Some("app::db".to_owned()),
        file: Some("src/db.rs".to_owned()),
        line: Some(17),
        mdc: vec![("request".to_owned(), "r-1".to_owned())],
        writer: "ok".to_owned(),
        display: None,
    }
}

fn with_writer(mut s: StepSpec, w: &str) -> StepSpec {
    s.writer = w.to_owned();
    s
}

fn with_display(mut s: StepSpec, n: usize) -> StepSpec {
    s.display = Some(n);
    s
}

fn long_text(rng: &mut Rng, lo: u64, hi: u64) -> String {
    let len = rng.range(lo, hi) as usize;
    let words: [&str; 11] = ["lorem", "ipsum", "\"quoted\"", "back\\slash", "new\nline", "tab\t", "é", "漢字", "\u{1f600}", "\u{2028}", "x"];
    let mut s = String::new();
    while s.chars().count() < len {
        s.push_str(*rng.pick(&words[..]));
        s.push(' ');
    }
    s.chars().take(len).collect()
}

/// split `text` at up to `cuts` random character boundaries
fn split_random(rng: &mut Rng, text: &str, cuts: usize) -> Vec<String> {
    let chars: Vec<char> = text.chars().collect();
    let mut at: Vec<usize> = (0..cuts).map(|_| rng.range(0, chars.len() as u64) as usize).collect();
    at.sort();
    let mut parts = vec![];
    let mut prev = 0;
    for a in at {
        parts.push(chars[prev..a].iter().collect::<String>());
        prev = a;
    }
    parts.push(chars[prev..].iter().collect::<String>());
    parts
}

/// the same text handed to the encoder in a random shape (one argument, several, a literal frame, char by char, padded)
fn rand_shape(rng: &mut Rng, text: String) -> Msg {
    match rng.below(12) {
        0..=4 => Msg::plain(&text),
        5 | 6 => {
            let cuts = rng.range(1, 3) as usize;
            Msg::new(Shape::Args, split_random(rng, &text, cuts)).unwrap()
        }
        7 => Msg::new(Shape::Lit, vec![text]).unwrap(),
        8 => Msg::new(Shape::Chars, vec![text]).unwrap(),
        9 => {
            let mut ps = split_random(rng, &text, 1);
            if rng.chance(1, 2) {
                ps[0] = ps[0].chars().take(rng.range(0, 5) as usize).collect();
            }
            Msg::new(Shape::Pad, ps).unwrap()
        }
        10 => {
            // a long piece right after a short one
            let short: String = text.chars().take(rng.range(1, 10) as usize).collect();
            let hi = *rng.pick(&[140u64, 300, 1100, 2000]);
            let long = long_text(rng, 128, hi);
            let mut ps = vec![short, long];
            if rng.chance(1, 2) {
                ps.push(text.chars().rev().take(3).collect());
            }
            Msg::new(Shape::Args, ps).unwrap()
        }
        _ => {
            if rng.chance(1, 4) {
                Msg::new(Shape::Const, vec![]).unwrap()
            } else if rng.chance(1, 3) {
                Msg::new(Shape::Args, vec![]).unwrap()
            } else {
                Msg::new(Shape::Args, vec![text]).unwrap()
            }
        }
    }
}

/// random scalar values (all planes, controls, quotes) — long, for any text position
fn rand_long_unicode(rng: &mut Rng, lo: u64, hi: u64, no_nul: bool) -> String {
    let specials = special_chars();
    let len = rng.range(lo, hi);
    let s: String = (0..len)
        .map(|_| match rng.below(8) {
            0 | 1 => *rng.pick(&specials),
            2 | 3 => (b'a' + rng.below(26) as u8) as char,
            _ => rand_scalar(rng),
        })
        .collect();
    if no_nul {
        s.replace('\u{0}', "\u{1}")
    } else {
        s
    }
}

fn rand_step(rng: &mut Rng, thorough: bool) -> StepSpec {
    let msg = match rng.below(8) {
        0 => String::new(),
        1 => "x".to_owned(),
        2 | 3 => rand_string(rng, thorough, false),
        4 => long_text(rng, 30, 120),
        5 => long_text(rng, 256, 700),
        6 => {
            if thorough && rng.chance(1, 4) {
                long_text(rng, 8200, 9500)
            } else {
                long_text(rng, 700, 1500)
            }
        }
        _ => (*rng.pick(TRICKY)).to_owned(),
    };
    let msg = rand_shape(rng, msg);
    let target = match rng.below(5) {
        0 => String::new(),
        1 => long_text(rng, 64, 200),
        2 => rand_string(rng, thorough, false),
        _ => (*rng.pick(PLAIN)).to_owned(),
    };
    let nm = rng.below(4) as usize;
    let mdc: Vec<(String, String)> = (0..nm)
        .map(|_| {
            (
                if rng.chance(1, 2) { (*rng.pick(PLAIN)).to_owned() } else { rand_string(rng, thorough, false) },
                if rng.chance(1, 3) { long_text(rng, 20, 90) } else { rand_string(rng, thorough, false) },
            )
        })
        .collect();
    StepSpec {
        level: rng.range(1, 5) as usize,
        msg,
        target,
        mp: if rng.chance(1, 2) { Some(rand_string(rng, thorough, false)) } else { None },
        file: if rng.chance(1, 2) { Some((*rng.pick(PLAIN)).to_owned()) } else { None },
        line: if rng.chance(1, 2) { Some(rng.below(100000) as u32) } else { None },
        mdc,
        writer: "ok".to_owned(),
        display: None,
    }
}

fn rand_failure(rng: &mut Rng, s: &mut StepSpec) {
    let mlen = s.msg.text.len() as u64;
    match rng.below(9) {
        0 => s.writer = "a0".to_owned(),
        1 => s.writer = format!("a{}", rng.range(1, 70)),
        2 | 3 => s.writer = format!("m{}", rng.range(0, mlen + 2)),
        4 => s.writer = format!("d{}", rng.range(0, 12)),
        5 => s.writer = "e1".to_owned(),
        6 => s.writer = format!("e{}", rng.range(2, 30)),
        _ => {
            s.display = Some(rng.range(0, s.msg.text.chars().count() as u64) as usize);
            if rng.chance(1, 5) {
                s.writer = format!("m{}", rng.range(0, mlen + 2));
            }
        }
    }
}

fn gen_seq(rng: &mut Rng, n: usize, thorough: bool, emit: &mut dyn FnMut(String)) {
    // ---- deterministic block: every way an encode can stop short, followed at once by a good record ----------
    let long = long_text(rng, 400, 400);
    let huge = long_text(rng, 9000, 9000); // beyond any plausible scratch-buffer cap
    for first in ["first message", "", "q\"\n", long.as_str(), huge.as_str()] {
        for w in ["a0", "a1", "a40", "m0", "m3", "d0", "d4", "e1", "e2", "e30"] {
            for named in [None, Some("worker")] {
                if first.len() > 1000 && named.is_some() {
                    continue;
                }
                emit(seq_line(named, &[with_writer(plain_step(first), w), plain_step("second")]));
            }
        }
        let n_chars = first.chars().count();
        for cut in [0, 1, n_chars / 2, n_chars] {
            emit(seq_line(None, &[with_display(plain_step(first), cut), plain_step("second")]));
        }
    }
    // failure first, then two good ones; two failures in a row; failure in the middle; short after long and long after short
    emit(seq_line(None, &[with_writer(plain_step("one"), "m2"), plain_step("two"), plain_step("three")]));
    emit(seq_line(None, &[with_writer(plain_step("one"), "m2"), with_writer(plain_step("two"), "d1"), plain_step("three")]));
    emit(seq_line(None, &[with_writer(plain_step("one"), "e1"), with_display(plain_step("two"), 1), plain_step("three"), plain_step("four")]));
    emit(seq_line(Some("t"), &[plain_step("one"), with_writer(plain_step(&long), "m100"), plain_step("x"), plain_step(&long)]));
    emit(seq_line(Some("t"), &[plain_step(&long), with_writer(plain_step("x"), "m1"), plain_step(&long), plain_step("")]));
    emit(seq_line(None, &[plain_step("a"), plain_step("b"), plain_step("c")]));
    {
        // the MDC changes between the steps
        let mut a = plain_step("with mdc");
        a.mdc = vec![("k1".into(), "v1".into()), ("k2".into(), "v\n2".into())];
        let mut b = with_writer(plain_step("cut in mdc"), "d9");
        b.mdc = vec![("k1".into(), "other".into()), ("k3".into(), "v3".into()), ("k4".into(), "v4".into())];
        let mut c = plain_step("no mdc");
        c.mdc = vec![];
        emit(seq_line(None, &[a.clone(), b.clone(), c.clone(), a]));
        emit(seq_line(Some("w"), &[b, c]));
    }

    // ---- random histories ------------------------------------------------------------------------------
    let count = if thorough { n / 20 } else { n / 10 };
    for _ in 0..count {
        let len = rng.range(2, 8) as usize;
        let mut steps: Vec<StepSpec> = (0..len).map(|_| rand_step(rng, thorough)).collect();
        // failure pattern: each step fails with probability 1/3; shapes named in the brief are forced regularly
        for s in steps.iter_mut() {
            if rng.chance(1, 3) {
                rand_failure(rng, s);
            }
        }
        match rng.below(6) {
            0 => {
                rand_failure(rng, &mut steps[0]); // failure as the first step …
                steps[1].writer = "ok".to_owned(); // … followed immediately by a successful one
                steps[1].display = None;
            }
            1 => {
                let i = rng.below(len as u64 - 1) as usize; // two failures in a row
                rand_failure(rng, &mut steps[i]);
                rand_failure(rng, &mut steps[i + 1]);
            }
            2 => {
                let i = rng.below(len as u64 - 1) as usize; // failure, then success
                rand_failure(rng, &mut steps[i]);
                steps[i + 1].writer = "ok".to_owned();
                steps[i + 1].display = None;
            }
            _ => {}
        }
        let thread = if rng.chance(1, 2) { Some(rand_string(rng, false, true)) } else { None };
        emit(seq_line(thread.as_deref(), &steps));
    }
}

fn decode_step(s: &str) -> Option<StepSpec> {
    let f: Vec<&str> = s.split(';').collect();
    if f.len() != 9 {
        return None;
    }
    let level: usize = f[0].parse().ok()?;
    if !(1..=5).contains(&level) {
        return None;
    }
    let mut mdc = vec![];
    for e in dec_list(',', f[6]) {
        let kv: Vec<&str> = e.split(':').collect();
        if kv.len() != 2 {
            return None;
        }
        mdc.push((dec_str(kv[0])?, dec_str(kv[1])?));
    }
    let w = f[7];
    let w_ok = w == "ok"
        || (w.len() >= 2 && matches!(w.as_bytes()[0], b'a' | b'm' | b'd' | b'e') && w[1..].bytes().all(|b| b.is_ascii_digit()));
    if !w_ok {
        return None;
    }
    Some(StepSpec {
        level,
        msg: Msg::dec(f[1])?,
        target: dec_str(f[2])?,
        mp: dec_opt_str(f[3])?,
        file: dec_opt_str(f[4])?,
        line: if f[5] == "-" { None } else { Some(f[5].parse::<u32>().ok()?) },
        mdc,
        writer: w.to_owned(),
        display: if f[8] == "-" { None } else { Some(f[8].parse::<usize>().ok()?) },
    })
}

/// accepts the first `limit` bytes, then fails like a full disk
struct LimitWriter {
    buf: Vec<u8>,
    limit: Option<usize>,
}

impl std::io::Write for LimitWriter {
    fn write(&mut self, b: &[u8]) -> std::io::Result<usize> {
        match self.limit {
            None => {
                self.buf.extend_from_slice(b);
                Ok(b.len())
            }
            Some(k) => {
                let room = k.saturating_sub(self.buf.len());
                if b.len() <= room {
                    self.buf.extend_from_slice(b);
                    Ok(b.len())
                } else if room > 0 {
                    self.buf.extend_from_slice(&b[..room]);
                    Ok(room)
                } else {
                    Err(std::io::Error::new(std::io::ErrorKind::Other, "no space left on device"))
                }
            }
        }
    }
    fn flush(&mut self) -> std::io::Result<()> {
        Ok(())
    }
}

/// a message whose `Display` writes `n` characters and then reports an error
struct Flaky<'a> {
    text: &'a str,
    n: usize,
}

impl<'a> std::fmt::Display for Flaky<'a> {
    fn fmt(&self, f: &mut std::fmt::Formatter) -> std::fmt::Result {
        let cut: String = self.text.chars().take(self.n).collect();
        f.write_str(&cut)?;
        Err(std::fmt::Error)
    }
}

/// one encode; returns (kind, bytes the writer received)
fn encode_step(enc: &JsonEncoder, s: &StepSpec, limit: Option<usize>, display: Option<usize>) -> (&'static str, Vec<u8>) {
    let mut w = LimitWriter { buf: vec![], limit };
    let level = LEVELS[s.level - 1];
    let r = {
        let wref = &mut w;
        std::panic::catch_unwind(std::panic::AssertUnwindSafe(move || {
            let mut sw = SimpleWriter(wref);
            let mut go = |args: std::fmt::Arguments| {
                enc.encode(
                    &mut sw,
                    &log::Record::builder()
                        .level(level)
                        .target(&s.target)
                        .module_path(s.mp.as_deref())
                        .file(s.file.as_deref())
                        .line(s.line)
                        .args(args)
                        .build(),
                )
            };
            match display {
                None => with_message(&s.msg, &mut go),
                Some(n) => go(format_args!("{}", Flaky { text: &s.msg.text, n })),
            }
        }))
    };
    let kind = match r {
        Ok(Ok(())) => "ok",
        Ok(Err(_)) => "err",
        Err(_) => "panic",
    };
    (kind, w.buf)
}

fn set_mdc(mdc: &[(String, String)]) -> Vec<String> {
    log_mdc::clear();
    for (k, v) in mdc.iter() {
        log_mdc::insert(k.clone(), v.clone());
    }
    let mut order = vec![];
    log_mdc::iter(|k, _| order.push(k.to_owned()));
    order
}

fn spawn_named<T: Send + 'static>(name: &Option<String>, f: impl FnOnce() -> T + Send + 'static) -> T {
    let b = match name {
        Some(n) => std::thread::Builder::new().name(n.clone()),
        None => std::thread::Builder::new(),
    };
    b.spawn(f).expect("spawn").join().expect("join")
}

fn find(hay: &[u8], needle: &[u8]) -> Option<usize> {
    hay.windows(needle.len()).position(|w| w == needle)
}

fn resolve_limit(tag: &str, probe: &[u8]) -> Option<usize> {
    if tag == "ok" {
        return None;
    }
    let j: usize = tag[1..].parse().unwrap_or(0);
    Some(match tag.as_bytes()[0] {
        b'a' => j,
        b'm' => find(probe, b"\"message\":\"").map(|p| p + 11 + j).unwrap_or(j),
        b'd' => find(probe, b",\"mdc\":{").map(|p| p + 8 + j).unwrap_or(j),
        _ => probe.len().saturating_sub(j),
    })
}

/// the line as JSON with the two environment values removed
fn canonical(bytes: &[u8]) -> Option<serde_json::Value> {
    let mut v: serde_json::Value = serde_json::from_slice(bytes).ok()?;
    let o = v.as_object_mut()?;
    o.remove("time");
    o.remove("thread_id");
    Some(v)
}

fn time_of(bytes: &[u8]) -> String {
    match bytes.strip_prefix(b"{\"time\":\"") {
        Some(rest) => {
            let end = rest.iter().position(|b| *b == b'"').unwrap_or(rest.len());
            String::from_utf8_lossy(&rest[..end]).into_owned()
        }
        None => String::new(),
    }
}

fn exec_seq(fields: &[&str]) -> String {
    if fields.len() != 3 {
        return "bad-case".to_owned();
    }
    let thread = match dec_opt_str(fields[1]) {
        Some(t) => t,
        None => return "bad-case".to_owned(),
    };
    if thread.as_deref().map_or(false, |t| t.contains('\u{0}')) {
        return "bad-case".to_owned();
    }
    let steps: Vec<StepSpec> = match fields[2].split('|').map(decode_step).collect::<Option<Vec<_>>>() {
        Some(s) if !s.is_empty() => s,
        _ => return "bad-case".to_owned(),
    };
    // reference lines: every record alone, on a fresh thread of the same name with a fresh encoder, complete writer,
    // well-behaved Display. Used to place the byte limits and for the `iso` comparison; never on the history's thread.
    let mut probes: Vec<Vec<u8>> = vec![];
    for s in steps.iter() {
        let s2 = s.clone();
        probes.push(spawn_named(&thread, move || {
            set_mdc(&s2.mdc);
            let (_, bytes) = encode_step(&JsonEncoder::new(), &s2, None, None);
            log_mdc::clear();
            bytes
        }));
    }
    let limits: Vec<Option<usize>> = steps.iter().zip(probes.iter()).map(|(s, p)| resolve_limit(&s.writer, p)).collect();
    // the history itself: one thread, one encoder
    let steps2 = steps.clone();
    let limits2 = limits.clone();
    let (tid, results) = spawn_named(&thread, move || {
        let enc = JsonEncoder::new();
        let tid = thread_id::get();
        let mut out = vec![];
        for (s, lim) in steps2.iter().zip(limits2.iter()) {
            let order = set_mdc(&s.mdc);
            let (kind, bytes) = encode_step(&enc, s, *lim, s.display);
            out.push((order, kind, bytes));
        }
        log_mdc::clear();
        (tid, out)
    });
    let mut obs = format!("seq:{}", tid);
    for (i, (order, kind, bytes)) in results.iter().enumerate() {
        let s = &steps[i];
        let order_s: Vec<String> = order.iter().map(|k| enc_str(k)).collect();
        let complete = *kind == "ok";
        let (indep, iso, payload) = if complete {
            match String::from_utf8(bytes.clone()) {
                Ok(text) => {
                    let c = Case {
                        level: LEVELS[s.level - 1],
                        msg: s.msg.clone(),
                        target: s.target.clone(),
                        mp: s.mp.clone(),
                        file: s.file.clone(),
                        line: s.line,
                        thread: thread.clone(),
                        mdc: s.mdc.clone(),
                    };
                    let iso = match (canonical(bytes), canonical(&probes[i])) {
                        (Some(a), Some(b)) if a == b => "same",
                        _ => "diff",
                    };
                    (independent(&c, bytes, tid), iso.to_owned(), format!("t{}", enc_str(&text)))
                }
                Err(_) => ("FAIL-utf8".to_owned(), "diff".to_owned(), format!("b{}", enc_bytes(bytes))),
            }
        } else {
            ("-".to_owned(), "-".to_owned(), format!("b{}", enc_bytes(bytes)))
        };
        obs.push_str(&format!(
            " {};{};{};{};{};{};{}",
            enc_str(&time_of(bytes)),
            enc_opt(limits[i], |k| k.to_string()),
            enc_list(",", &order_s),
            kind,
            indep,
            iso,
            payload
        ));
    }
    obs
}

// ------------------------------------------------------------------------------------------------
// several threads, one encoder
// ------------------------------------------------------------------------------------------------

#[derive(Clone)]
struct Entry {
    thread: Option<String>,
    step: StepSpec,
}

fn entry_text(e: &Entry) -> String {
    let s = &e.step;
    let entries: Vec<String> = s.mdc.iter().map(|(k, v)| format!("{}:{}", enc_str(k), enc_str(v))).collect();
    format!(
        "{};{};{};{};{};{};{};{}",
        enc_opt(e.thread.as_deref(), enc_str),
        s.level,
        s.msg.enc(),
        enc_str(&s.target),
        enc_opt(s.mp.as_deref(), enc_str),
        enc_opt(s.file.as_deref(), enc_str),
        enc_opt(s.line, |n| n.to_string()),
        enc_list(",", &entries)
    )
}

fn multi_line(mode: &str, entries: &[Entry]) -> String {
    let es: Vec<String> = entries.iter().map(entry_text).collect();
    format!("multi\t{}\t{}", mode, es.join("|"))
}

fn decode_entry(s: &str) -> Option<Entry> {
    let (t, rest) = s.split_once(';')?;
    let thread = dec_opt_str(t)?;
    if thread.as_deref().map_or(false, |t| t.contains('\u{0}')) {
        return None;
    }
    let step = decode_step(&format!("{};ok;-", rest))?;
    Some(Entry { thread, step })
}

fn gen_multi(rng: &mut Rng, n: usize, thorough: bool, emit: &mut dyn FnMut(String)) {
    let entry = |thread: Option<&str>, msg: &str, mdc: &[(&str, &str)]| Entry {
        thread: thread.map(|t| t.to_owned()),
        step: {
            let mut s = plain_step(msg);
            s.mdc = mdc.iter().map(|(k, v)| (k.to_string(), v.to_string())).collect();
            s
        },
    };
    // main thread
    emit(multi_line("main", &[entry(Some("main"), "on main", &[]), entry(Some("main"), "again \"main\"\n", &[("k", "v")])]));
    // deliberate thread-id reuse: named, then unnamed, then another name, then the first name again
    emit(multi_line(
        "succ",
        &[entry(Some("alpha"), "1", &[("who", "alpha")]), entry(None, "2", &[]), entry(Some("beta"), "3", &[("who", "beta")]), entry(Some("alpha"), "4", &[]), entry(None, "5", &[])],
    ));
    emit(multi_line("succ", &[entry(None, "1", &[]), entry(Some("late-name"), "2", &[]), entry(Some(""), "3", &[])]));
    // live threads with different names and MDCs
    emit(multi_line(
        "conc",
        &[entry(Some("w1"), "from w1", &[("id", "1")]), entry(Some("w2"), "from w2", &[("id", "2"), ("x", "y")]), entry(None, "from unnamed", &[]), entry(Some("w1"), "same name, other thread", &[("id", "1b")])],
    ));
    let count = if thorough { n / 60 } else { n / 40 };
    for _ in 0..count {
        let mode = *rng.pick(&["succ", "succ", "conc", "conc", "main"]);
        let len = if mode == "main" { rng.range(1, 3) } else { rng.range(2, if thorough { 12 } else { 6 }) } as usize;
        let entries: Vec<Entry> = (0..len)
            .map(|_| {
                let thread = if mode == "main" {
                    Some("main".to_owned())
                } else if rng.chance(1, 3) {
                    None
                } else if rng.chance(1, 2) {
                    Some((*rng.pick(&["a", "b", "worker", "main", ""])).to_owned())
                } else {
                    Some(rand_string(rng, false, true))
                };
                Entry { thread, step: rand_step(rng, thorough) }
            })
            .collect();
        emit(multi_line(mode, &entries));
    }
}

struct EntryRun {
    tid: usize,
    order: Vec<String>,
    kind: &'static str,
    bytes: Vec<u8>,
}

fn run_entry(enc: &JsonEncoder, e: &Entry, sync: Option<&std::sync::Barrier>) -> EntryRun {
    let order = set_mdc(&e.step.mdc);
    let tid = thread_id::get();
    if let Some(b) = sync {
        b.wait();
    }
    let (kind, bytes) = encode_step(enc, &e.step, None, None);
    if let Some(b) = sync {
        b.wait();
    }
    log_mdc::clear();
    EntryRun { tid, order, kind, bytes }
}

fn exec_multi(fields: &[&str]) -> String {
    if fields.len() != 3 {
        return "bad-case".to_owned();
    }
    let mode = fields[1];
    let entries: Vec<Entry> = match fields[2].split('|').map(decode_entry).collect::<Option<Vec<_>>>() {
        Some(e) if !e.is_empty() && e.len() <= 64 => e,
        _ => return "bad-case".to_owned(),
    };
    let enc = std::sync::Arc::new(JsonEncoder::new());
    let runs: Vec<EntryRun> = match mode {
        "main" => {
            if std::thread::current().name() != Some("main") || entries.iter().any(|e| e.thread.as_deref() != Some("main")) {
                return "bad-case".to_owned();
            }
            entries.iter().map(|e| run_entry(&enc, e, None)).collect()
        }
        "succ" => entries
            .iter()
            .map(|e| {
                let (enc, e2) = (enc.clone(), e.clone());
                spawn_named(&e.thread, move || run_entry(&enc, &e2, None))
            })
            .collect(),
        "conc" => {
            let barrier = std::sync::Arc::new(std::sync::Barrier::new(entries.len()));
            let handles: Vec<_> = entries
                .iter()
                .map(|e| {
                    let (enc, e2, b) = (enc.clone(), e.clone(), barrier.clone());
                    let builder = match &e.thread {
                        Some(n) => std::thread::Builder::new().name(n.clone()),
                        None => std::thread::Builder::new(),
                    };
                    builder.spawn(move || run_entry(&enc, &e2, Some(&b))).expect("spawn")
                })
                .collect();
            handles.into_iter().map(|h| h.join().expect("join")).collect()
        }
        _ => return "bad-case".to_owned(),
    };
    let mut obs = "multi".to_owned();
    for (e, r) in entries.iter().zip(runs.iter()) {
        let order_s: Vec<String> = r.order.iter().map(|k| enc_str(k)).collect();
        let (indep, payload) = match (r.kind, String::from_utf8(r.bytes.clone())) {
            ("ok", Ok(text)) => {
                let c = Case {
                    level: LEVELS[e.step.level - 1],
                    msg: e.step.msg.clone(),
                    target: e.step.target.clone(),
                    mp: e.step.mp.clone(),
                    file: e.step.file.clone(),
                    line: e.step.line,
                    thread: e.thread.clone(),
                    mdc: e.step.mdc.clone(),
                };
                (independent(&c, &r.bytes, r.tid), format!("t{}", enc_str(&text)))
            }
            _ => ("-".to_owned(), format!("b{}", enc_bytes(&r.bytes))),
        };
        obs.push_str(&format!(" {};{};{};{};{};{}", r.tid, enc_str(&time_of(&r.bytes)), enc_list(",", &order_s), r.kind, indep, payload));
    }
    obs
}
